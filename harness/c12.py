"""C12 — schema serialisation round-trips: YAML, JSON and the generated script.

Tie: (T) Generated/ScriptSlots.lean (template slots, how `.format` fills each, writer/reader key
sets) and Generated/CheckApi.lean (first positional parameter of each Check constructor) with
`decide` obligations in Props/C12.lean; (D) the check-statistics codec of the Lean model against
`serialize_schema` on generated check lists, and the property itself on the implementation:
from_yaml(to_yaml(S)) == S, from_json(to_json(S)) == S, exec(to_script(S)).schema == S, text
idempotence, equal verdicts on probe frames.
"""
from __future__ import annotations

import copy
import json
import warnings

import pandas as pd

from .common import Report, audit, corpus_cases, rng_for, run_driver, warm_up_backends
from .regen import regenerate

PROP = "C12"
MODULES = ["PanderaModel.Props.C12"]

TEXTS = [None, None, "T", "plain title", "D d", "it's", 'say "hi"', "back\\slash", "tab\there", "ünï", "filter", "None",
         "a, b", "x=1", "#hash", "{brace}", "100%"]
COLNAMES = ["a", "b", "c", "col one", "it's", 'q"uote', "ünï", "x.y", "0lead", "class", "None"]
# parametrised dtypes share one engine class with their plain form (DateTime with / without a time zone, ...)
DTYPES = ["int64", "float64", "str", "bool", "datetime64[ns]", "datetime64[ns, UTC]", "datetime64[ns, Europe/Berlin]", None]
DATA = {"int64": [1, 2, 3], "float64": [1.0, 2.0, 3.0], "str": ["x", "y", "z"], "bool": [True, False, True],
        "datetime64[ns]": list(pd.to_datetime(["2021-01-01", "2021-01-02", "2021-01-03"])),
        "datetime64[ns, UTC]": list(pd.to_datetime(["2021-01-01", "2021-01-02", "2021-01-03"]).tz_localize("UTC")),
        "datetime64[ns, Europe/Berlin]": list(pd.to_datetime(["2021-01-01", "2021-01-02", "2021-01-03"]).tz_localize("Europe/Berlin")),
        None: [1, 2, 3]}
BADV = {"int64": 100, "float64": 100.0, "str": "toolongvalue", None: 100}


def gen_check(rng, dtype):
    opts = {}
    if rng.random() < 0.3:
        opts["ignore_na"] = rng.choice([True, False])
    if rng.random() < 0.2:
        opts["raise_warning"] = rng.choice([True, False])
    if rng.random() < 0.2:
        opts["n_failure_cases"] = rng.choice([1, 5])
    if dtype in ("int64", "float64", None):
        k = rng.choice(["gt", "ge", "lt", "le", "eq", "ne", "in_range", "isin", "notin"])
        args = {"gt": [0], "ge": [1], "lt": [50], "le": [9], "eq": [7], "ne": [7],
                "in_range": [0, 50, rng.choice([True, False]), rng.choice([True, False])],
                "isin": [[1, 2, 3]], "notin": [[7, 8]]}[k]
        if k in ("gt", "ge", "lt", "le") and rng.random() < 0.5:
            args = [args[0] + rng.randint(-1, 1)]
    elif dtype == "str":
        k = rng.choice(["str_matches", "str_contains", "str_startswith", "str_endswith", "str_length", "isin", "notin", "eq", "ne"])
        args = {"str_matches": [rng.choice(["^[a-z]+$", "x|y|z", 'q"', "it's"])], "str_contains": [rng.choice(["x", "."])],
                "str_startswith": ["x"], "str_endswith": ["x"],
                "str_length": rng.choice([[1, 3], [None, 3], [1, None]]), "isin": [["x", "y", "z"]], "notin": [["q"]],
                "eq": ["x"], "ne": ["q"]}[k]
    elif dtype == "datetime64[ns]":
        k = rng.choice(["ge", "le", "gt"])
        args = {"ge": ["2020-01-01"], "le": ["2030-01-01"], "gt": ["2019-06-01 12:30:00"]}[k]
        if rng.random() < 0.5:      # bounds with sub-second parts (milli / micro / nanoseconds only); lower bounds stay
            # below upper bounds (the serialiser refuses a component whose bounds contradict each other: ValueError)
            year = "2030" if k == "le" else "2020"
            args = [year + rng.choice(["-01-01 00:00:07.500", "-01-01 00:00:07.000250", "-01-01 00:00:07.000000500",
                                       "-03-04 05:06:07.123456789", "-01-01 00:00:00.000000001"])]
    else:
        k, args = "isin", [[True, False]]
    return {"kind": k, "args": args, "opts": opts, "ts": dtype == "datetime64[ns]"}


def real_check(c):
    from pandera import Check
    args = [pd.Timestamp(a) for a in c["args"]] if c.get("ts") else list(c["args"])
    if c["kind"] == "str_length":
        return Check.str_length(min_value=args[0], max_value=args[1], **c["opts"])
    return getattr(Check, c["kind"])(*args, **c["opts"])


def gen_component(rng, name, for_index=False):
    dtype = rng.choice(DTYPES if not for_index else ["int64", "str", "float64", "datetime64[ns]", None])
    nchecks = rng.choice([0, 0, 1, 1, 2, 3]) if dtype != "bool" else rng.choice([0, 1])
    if dtype is not None and dtype.startswith("datetime64[ns,"):
        nchecks = 0
    checks, kinds = [], set()
    for _ in range(nchecks):
        c = gen_check(rng, dtype)
        canon = {"gt": "greater_than", "ge": "greater_than_or_equal_to", "lt": "less_than", "le": "less_than_or_equal_to",
                 "eq": "equal_to", "ne": "not_equal_to"}.get(c["kind"], c["kind"])
        if canon in kinds and rng.random() < 0.85:
            continue
        kinds.add(canon)
        checks.append(c)
    if dtype in ("int64", "float64") and rng.random() < 0.12:
        # coinciding inclusive bounds: a legal single-value range (what infer_schema gives for a constant column)
        v = rng.choice([0, 5, 7])
        checks = [{"kind": "ge", "args": [v], "opts": {}, "ts": False}, {"kind": "le", "args": [v], "opts": {}, "ts": False}]
    if dtype == "datetime64[ns]" and rng.random() < 0.12:
        checks = [{"kind": "ge", "args": ["2020-01-01"], "opts": {}, "ts": True}, {"kind": "le", "args": ["2020-01-01"], "opts": {}, "ts": True}]
    kw = {"dtype": dtype, "checks": checks, "nullable": rng.random() < 0.3, "unique": rng.random() < 0.2,
          "coerce": rng.random() < 0.3, "title": rng.choice(TEXTS), "description": rng.choice(TEXTS)}
    if for_index:
        kw["name"] = name
    else:
        kw["required"] = rng.random() < 0.85
        kw["regex"] = False
    return kw


def gen_schema(rng):
    n = rng.randint(0, 4)
    names = rng.sample(COLNAMES, n)
    cols = {nm: gen_component(rng, nm) for nm in names}
    k = rng.choice([0, 0, 0, 1, 1, 2])
    index = [gen_component(rng, f"i{j}" if rng.random() < 0.8 else rng.choice(["it's", 'q"', "ünï"]) + str(j), True)
             for j in range(k)]
    top = {"strict": rng.choice([False, False, True, "filter"]), "ordered": rng.random() < 0.3, "coerce": rng.random() < 0.2,
           "name": rng.choice(TEXTS), "title": rng.choice(TEXTS), "description": rng.choice(TEXTS),
           "unique_column_names": rng.random() < 0.15, "add_missing_columns": rng.random() < 0.15,
           "report_duplicates": rng.choice(["all", "all", "exclude_first", "exclude_last"]),
           "unique": (rng.sample(names, min(len(names), rng.randint(1, 2))) if names and rng.random() < 0.2 else None),
           "dtype": rng.choice([None, None, None, "int64", "float64", "str"])}
    dfchecks = [gen_check(rng, rng.choice(["int64", "int64", "datetime64[ns]"]))] if rng.random() < 0.2 else []
    share = False
    if len(index) >= 2 and rng.random() < 0.5:
        # the same Check *instance* carried by two components (levels of a MultiIndex are not copied on construction)
        src = index[0]
        if not src["checks"]:
            src["checks"] = [gen_check(rng, src["dtype"])]
        if rng.random() < 0.6:
            src["checks"][0]["opts"] = dict(src["checks"][0]["opts"], ignore_na=False)
        index[1]["dtype"] = src["dtype"]
        index[1]["checks"] = [copy.deepcopy(src["checks"][0])]
        share = True
    return {"columns": cols, "index": index, "top": top, "checks": dfchecks, "share": share}


def build(A):
    import pandera as pa
    cols = {nm: pa.Column(**dict(c, checks=[real_check(x) for x in c["checks"]])) for nm, c in A["columns"].items()}
    memo = {}

    def shared(x):
        if not A.get("share"):
            return real_check(x)
        k = json.dumps(x, sort_keys=True, default=str)
        if k not in memo:
            memo[k] = real_check(x)
        return memo[k]
    lv = [pa.Index(**dict(i, checks=[shared(x) for x in i["checks"]])) for i in A["index"]]
    index = None if not lv else lv[0] if len(lv) == 1 else pa.MultiIndex(lv)
    return pa.DataFrameSchema(cols, index=index, checks=[real_check(x) for x in A["checks"]], **A["top"])


# ---- serialisable fingerprint ------------------------------------------------------------------

def fp_check(c):
    return [c.name, sorted((k, repr(v)) for k, v in (c.statistics or {}).items()), c.raise_warning, c.n_failure_cases,
            c.ignore_na]


def fp_comp(c, is_col):
    out = {"dtype": None if c.dtype is None else str(c.dtype), "checks": [fp_check(x) for x in c.checks],
           "nullable": c.nullable, "unique": c.unique, "coerce": c.coerce, "name": c.name, "title": c.title,
           "description": c.description}
    if is_col:
        out["required"], out["regex"] = c.required, c.regex
    return out


def fp_schema(S):
    ix = S.index
    levels = [] if ix is None else [fp_comp(i, False) for i in (ix.indexes if hasattr(ix, "indexes") else [ix])]
    return {"columns": [[k, fp_comp(c, True)] for k, c in S.columns.items()], "index": levels,
            "checks": [fp_check(x) for x in S.checks],
            "top": {k: (getattr(S, k) if k != "dtype" else (None if S.dtype is None else str(S.dtype)))
                    for k in ("dtype", "coerce", "strict", "name", "ordered", "unique", "report_duplicates",
                              "unique_column_names", "add_missing_columns", "title", "description")}}


def diff(a, b):
    if a["top"] != b["top"]:
        return "top: " + ", ".join(f"{k}: {a['top'][k]!r} -> {b['top'][k]!r}" for k in a["top"] if a["top"][k] != b["top"].get(k))
    if a["checks"] != b["checks"]:
        return f"dataframe checks: {a['checks']} -> {b['checks']}"
    if [k for k, _ in a["columns"]] != [k for k, _ in b["columns"]]:
        return f"column keys {[k for k, _ in a['columns']]} -> {[k for k, _ in b['columns']]}"
    for (k, ca), (_, cb) in zip(a["columns"], b["columns"]):
        if ca != cb:
            return f"column {k!r}: " + ", ".join(f"{x}: {ca[x]!r} -> {cb.get(x)!r}" for x in ca if ca[x] != cb.get(x))
    if a["index"] != b["index"]:
        for ia, ib in zip(a["index"], b["index"]):
            if ia != ib:
                return "index level: " + ", ".join(f"{x}: {ia[x]!r} -> {ib.get(x)!r}" for x in ia if ia[x] != ib.get(x))
        return f"index levels {len(a['index'])} -> {len(b['index'])}"
    return ""


def same_kind(A):
    comps = list(A["columns"].values()) + A["index"] + [{"checks": A["checks"]}]
    canon = {"gt": "greater_than", "ge": "greater_than_or_equal_to", "lt": "less_than", "le": "less_than_or_equal_to",
             "eq": "equal_to", "ne": "not_equal_to"}
    for c in comps:
        ks = [canon.get(x["kind"], x["kind"]) for x in c["checks"]]
        if len(ks) != len(set(ks)):
            return True
    return False


def probe_frames(A):
    cols = {}
    for nm, c in A["columns"].items():
        cols[nm] = pd.Series(DATA[c["dtype"]], dtype=object if c["dtype"] == "str" else None)
    good = pd.DataFrame(cols) if cols else pd.DataFrame(index=range(3))
    if A["index"]:
        arrays = [pd.Series(DATA[i["dtype"]]).values for i in A["index"]]
        names = [i["name"] for i in A["index"]]
        good.index = pd.Index(arrays[0], name=names[0]) if len(arrays) == 1 else pd.MultiIndex.from_arrays(arrays, names=names)
    frames = [good]
    for nm, c in A["columns"].items():
        if c["checks"] and c["dtype"] in BADV:
            bad = good.copy()
            bad[nm] = bad[nm].astype(object)
            bad.loc[bad.index[-1], nm] = BADV[c["dtype"]]
            if c["dtype"] in ("int64", "float64"):
                bad[nm] = bad[nm].astype(c["dtype"])
            frames.append(bad)
            break
    if cols:
        frames.append(good.iloc[:, ::-1])                        # reordered columns (ordered=True)
        extra = good.copy()
        extra["zz_extra"] = 1                                    # an undeclared column (strict)
        frames.append(extra)
    return frames


def verdict(S, df):
    with warnings.catch_warnings():
        warnings.simplefilter("ignore")
        try:
            out = S.validate(df, lazy=True)
            return "ok:" + ",".join(map(str, out.columns))
        except Exception as e:  # noqa: BLE001
            n = type(e).__name__
            if n == "SchemaErrors":
                return "reject:" + ",".join(sorted({str(getattr(x.reason_code, "name", x.reason_code)) for x in e.schema_errors}))
            return "raise:" + n


# ---- model side: the check codec ----------------------------------------------------------------

def atom_ok(v):
    return v is None or isinstance(v, (bool, str)) or (isinstance(v, int) and abs(v) < 2 ** 53)


def sv_of(v):
    if isinstance(v, (list, tuple, frozenset, set)):
        xs = list(v)
        return xs if all(atom_ok(x) for x in xs) else None
    return v if atom_ok(v) else None


def abstract_checks(checks):
    """CheckS list for the driver, or None when a value is outside the modelled atoms (floats, timestamps)"""
    out = []
    for c in checks:
        stats = []
        for k, v in (c.statistics or {}).items():
            if isinstance(v, float) or (sv_of(v) is None and v is not None):
                return None
            stats.append([k, sv_of(v)])
        opts = [[k, v] for k, v in (("raise_warning", c.raise_warning), ("n_failure_cases", c.n_failure_cases),
                                    ("ignore_na", c.ignore_na)) if v is not None]
        out.append({"name": c.name, "stats": stats, "options": opts})
    return out


def norm_json(x):
    if isinstance(x, (tuple, set, frozenset)):
        return [norm_json(v) for v in x]
    if isinstance(x, list):
        return [norm_json(v) for v in x]
    if isinstance(x, dict):
        return {str(k): norm_json(v) for k, v in x.items()}
    return x


def run_cases(rep, cases):
    import pandera as pa  # noqa: F401
    from pandera.io import pandas_io as io
    from extract import checkapi
    from .common import REPO
    first = [[n, p] for n, p in checkapi.first_params(REPO)]
    # -- build, serialise, collect codec cases
    built, dcases, dmeta = [], [], []
    for ci, A in enumerate(cases):
        with warnings.catch_warnings():
            warnings.simplefilter("ignore")
            try:
                S = build(A)
            except Exception as e:  # noqa: BLE001
                built.append(None)
                rep.count("unbuildable:" + type(e).__name__)
                continue
            built.append(S)
            try:
                ser = io.serialize_schema(S)
            except Exception:  # noqa: BLE001
                continue
        comps = [(f"column {k!r}", c.checks, (ser["columns"] or {}).get(k, {}).get("checks")) for k, c in S.columns.items()]
        if S.index is not None:
            lv = S.index.indexes if hasattr(S.index, "indexes") else [S.index]
            comps += [(f"index level {j}", i.checks, ser["index"][j].get("checks")) for j, i in enumerate(lv)]
        comps.append(("dataframe", S.checks, ser["checks"]))
        for where, checks, impl in comps:
            if not checks:
                continue
            ab = abstract_checks(checks)
            if ab is None:
                rep.count("codec:outside-model-values")
                continue
            dcases.append({"mode": "checks", "checks": ab, "first": first})
            dmeta.append((ci, where, impl, len({c.name for c in checks}) != len(checks)))
    answers = run_driver("C12", dcases) if dcases else []
    codec_break = {}
    for (ci, where, impl, dup), a in zip(dmeta, answers):
        if "error" in a:
            codec_break.setdefault(ci, f"driver: {a['error']}")
            continue
        model = {k: v for k, v in a["serialized"]}
        rep.count("codec:compared")
        if norm_json(impl) != model:
            codec_break.setdefault(ci, f"{where}: serialised checks differ: model {model} impl {norm_json(impl)}")
        if not a["same"] and not dup:
            codec_break.setdefault(ci, f"{where}: the model's codec does not round-trip distinct checks")
    # -- the property on the implementation
    for ci, (A, S) in enumerate(zip(cases, built)):
        if S is None:
            continue
        rep.case(A, nontrivial=bool(A["columns"]))
        fp0 = fp_schema(S)
        region = "K_C12_sameKindChecks" if same_kind(A) else None
        frame_ts = any(x.get("ts") for x in A["checks"])
        region_for = lambda fmt_: ("K_C12_frameLevelDatetimeStats" if (frame_ts and fmt_ in ("yaml", "json")) else region)  # noqa: E731
        failed = False
        with warnings.catch_warnings():
            warnings.simplefilter("ignore")
            frames = probe_frames(A)
            v0 = [verdict(S, f) for f in frames]
            for fmt in ("yaml", "json", "script"):
                try:
                    if fmt == "yaml":
                        text = io.to_yaml(S)
                        S2 = io.from_yaml(text)
                        text2 = io.to_yaml(S2)
                    elif fmt == "json":
                        text = io.to_json(S)
                        S2 = io.from_json(text)
                        text2 = io.to_json(S2)
                    else:
                        text = io.to_script(S)
                        ns = {}
                        exec(text, ns)  # noqa: S102
                        S2 = ns["schema"]
                        text2 = io.to_script(S2)
                except Exception as e:  # noqa: BLE001
                    rep.count(f"{fmt}:raise")
                    rep.property_failure(A, f"{fmt}: round trip raises {type(e).__name__}: {str(e)[:100]}", region=region_for(fmt))
                    failed = True
                    continue
                fp2 = fp_schema(S2)
                if fp2 != fp0:
                    rep.count(f"{fmt}:differs")
                    rep.property_failure(A, f"{fmt}: re-read schema differs: {diff(fp0, fp2)}", region=region_for(fmt))
                    failed = True
                elif S2 != S:
                    rep.count(f"{fmt}:not-equal")
                    rep.property_failure(A, f"{fmt}: re-read schema has equal attributes but `==` is False", region=region_for(fmt))
                    failed = True
                elif text2 != text:
                    rep.count(f"{fmt}:text-not-idempotent")
                    rep.property_failure(A, f"{fmt}: serialising the re-read schema gives a different text", region=region_for(fmt))
                    failed = True
                else:
                    v2 = [verdict(S2, f) for f in frames]
                    if v2 != v0:
                        rep.property_failure(A, f"{fmt}: verdicts differ on a probe frame: {v0} vs {v2}", region=region_for(fmt))
                        failed = True
                    else:
                        rep.count(f"{fmt}:ok")
                        if fmt in ("yaml", "json"):
                            # reading has no memory: the same text read again (same string object, then an equal copy)
                            # gives the same schema
                            try:
                                reader = io.from_yaml if fmt == "yaml" else io.from_json
                                again = [reader(text), reader("".join(list(text)))]
                            except Exception as e:  # noqa: BLE001
                                rep.property_failure(A, f"{fmt}: reading the same text again raises {type(e).__name__}: "
                                                        f"{str(e)[:100]}", region=region_for(fmt))
                                failed = True
                                continue
                            for k, S3 in enumerate(again):
                                if fp_schema(S3) != fp0:
                                    rep.property_failure(A, f"{fmt}: the same text read again (read #{k + 2}) gives another "
                                                            f"schema: {diff(fp0, fp_schema(S3))}", region=region_for(fmt))
                                    failed = True
                                    break
            for v in v0:
                rep.count("probe:" + v.split(":")[0])
        if fp_schema(S) != fp0:
            rep.property_failure(A, "serialising modified the schema")
            failed = True
        if ci in codec_break and not failed and region is None:
            rep.correspondence_break(A, codec_break[ci])


def run(tier, replay=None):
    rep = Report(PROP, tier)
    warm_up_backends()
    regenerate(("scriptslots", "checkapi", "columnprops"))
    rep.audit = audit(PROP, MODULES)
    rep.audit["modules"] = MODULES
    if replay:
        case = json.loads(open(replay).read())["case"]
        run_cases(rep, [case])
        return rep.finish(rule="replay")
    rng = rng_for(PROP)
    n = 350 if tier == "quick" else 6000
    cases = corpus_cases(PROP) + [gen_schema(rng) for _ in range(n)]
    run_cases(rep, cases)
    return rep.finish(
        rule="random schemas over the serialisable vocabulary (every component flag, titles/descriptions/names with "
             "quotes, backslashes, non-ASCII and keyword-like texts, strict in {False, True, 'filter'}, joint uniqueness, "
             "report_duplicates, dataframe dtype and checks, Index / MultiIndex, 0-3 built-in checks per component with "
             "options, timestamps); per schema: yaml, json and script round trips compared attribute by attribute and with "
             "`==`, text idempotence, verdicts on four probe frames; the check codec of the Lean model against "
             "serialize_schema for every component whose statistics are integers/strings/bools/lists",
        level_note=["PyYAML, json, black and Python's parser are trusted text layers, exercised by the differential only",
                    "MultiIndex options (strict/ordered/unique/coerce/name) and non-string column names have no place in "
                    "the formats and are outside the serialisable vocabulary"],
    )

"""C18 — configuration is scoped and honoured; validation depth only removes checks."""
from __future__ import annotations

import itertools
import json
import os
import runpy
import subprocess
import warnings

from . import absdata as A
from . import pipeline as P
from .common import REPO, Report, audit, corpus_cases, rng_for, run_driver
from .regen import regenerate

PROP = "C18"
MODULES = ["PanderaModel.Props.C18"]
DEPTHS = {"schemaOnly": "SCHEMA_ONLY", "dataOnly": "DATA_ONLY", "schemaAndData": "SCHEMA_AND_DATA"}
ENV_VARS = ["PANDERA_VALIDATION_ENABLED", "PANDERA_VALIDATION_DEPTH", "PANDERA_CACHE_DATAFRAME",
            "PANDERA_KEEP_CACHED_DATAFRAME"]


class Marker(Exception):
    pass


# ---- config_context nestings --------------------------------------------------

def gen_opts(rng):
    return {"enabled": rng.choice([None, None, True, False]),
            "depth": rng.choice([None, None, "schemaOnly", "dataOnly", "schemaAndData"]),
            "cache": rng.choice([None, None, True, False]),
            "keep": rng.choice([None, None, True, False])}


def gen_prog(rng, depth):
    r = rng.random()
    if depth == 0 or r < 0.15:
        return rng.choice(["skip", "raise", "observe", "observe"])
    if r < 0.45:
        return {"seq": {"a": gen_prog(rng, depth - 1), "b": gen_prog(rng, depth - 1)}}
    if r < 0.9:
        return {"ctx": {"o": gen_opts(rng), "body": gen_prog(rng, depth - 1)}}
    return {"catch": {"body": gen_prog(rng, depth - 1)}}


def enum_progs(depth):
    """all nestings of `with` blocks up to `depth` over a small option alphabet, each with an
    observation and with/without an exception at the innermost level"""
    opts = [{"enabled": e, "depth": d, "cache": None, "keep": None}
            for e in (None, False) for d in (None, "schemaOnly", "dataOnly")]
    opts += [{"enabled": None, "depth": None, "cache": True, "keep": False}]

    def rec(k):
        if k == 0:
            yield "observe"
            yield {"seq": {"a": "observe", "b": "raise"}}
            return
        for o in opts:
            for body in rec(k - 1):
                yield {"ctx": {"o": o, "body": {"seq": {"a": "observe", "b": body}}}}
                yield {"seq": {"a": {"catch": {"body": {"ctx": {"o": o, "body": body}}}}, "b": "observe"}}
    for k in range(1, depth + 1):
        yield from rec(k)


def cfg_to_abs(c):
    rev = {v: k for k, v in DEPTHS.items()}
    return {"enabled": bool(c.validation_enabled),
            "depth": rev[c.validation_depth.value] if c.validation_depth is not None else None,
            "cache": bool(c.cache_dataframe), "keep": bool(c.keep_cached_dataframe)}


def abs_to_cfg(a):
    from pandera.config import PanderaConfig, ValidationDepth
    return PanderaConfig(validation_enabled=a["enabled"],
                         validation_depth=ValidationDepth(DEPTHS[a["depth"]]) if a["depth"] else None,
                         cache_dataframe=a["cache"], keep_cached_dataframe=a["keep"])


class MarkerBase(BaseException):
    """an exception outside the `Exception` hierarchy (like KeyboardInterrupt, SystemExit, pytest's outcomes)"""


EXC_CLASSES = {"Exception": None, "BaseException": MarkerBase, "KeyboardInterrupt": KeyboardInterrupt}


def exec_prog(p, seen, exc=None):
    from pandera.config import ValidationDepth, config_context, get_config_context
    exc = exc or Marker
    if p == "skip":
        return
    if p == "raise":
        raise exc()
    if p == "observe":
        seen.append(cfg_to_abs(get_config_context(validation_depth_default=None)))
        return
    k = next(iter(p))
    x = p[k]
    if k == "seq":
        exec_prog(x["a"], seen, exc)
        exec_prog(x["b"], seen, exc)
    elif k == "ctx":
        o = x["o"]
        with config_context(validation_enabled=o["enabled"],
                            validation_depth=ValidationDepth(DEPTHS[o["depth"]]) if o["depth"] else None,
                            cache_dataframe=o["cache"], keep_cached_dataframe=o["keep"]):
            exec_prog(x["body"], seen, exc)
    elif k == "catch":
        try:
            exec_prog(x["body"], seen, exc)
        except exc:
            pass


def run_progs(rep, cases):
    import copy
    import pandera.config as cfgmod
    ans = run_driver("C18", [dict(c, mode="prog") for c in cases])
    saved = copy.copy(cfgmod.get_config_context(validation_depth_default=None))
    glob_before = copy.copy(cfgmod.CONFIG)
    try:
        for c, a in zip(cases, ans):
            if "error" in a:
                rep.correspondence_break(c, "driver: " + a["error"])
                continue
            rep.case(c, nontrivial="ctx" in json.dumps(c["prog"]))
            # the same program with the exception drawn from three classes (the model does not depend on the class)
            for exc_name in (c.get("exc"),) if c.get("exc") else EXC_CLASSES:
                exc = EXC_CLASSES[exc_name] or Marker
                cfgmod.reset_config_context(abs_to_cfg(c["cfg"]))
                seen = []
                raised = False
                try:
                    exec_prog(c["prog"], seen, exc)
                except exc:
                    raised = True
                after = cfg_to_abs(cfgmod.get_config_context(validation_depth_default=None))
                rep.evaluations += 1
                rep.count(("prog:raised:" if raised else "prog:normal:") + exc_name)
                cc = dict(c, exc=exc_name)
                if after != c["cfg"]:
                    rep.property_failure(cc, f"context configuration not restored after leaving by {exc_name}: "
                                             f"{after} != {c['cfg']}")
                    break
                elif cfgmod.CONFIG != glob_before:
                    rep.property_failure(cc, "the global configuration changed")
                    break
                elif raised != a["raised"] or seen != a["seen"]:
                    rep.property_failure(cc, "configuration in force inside the blocks differs from the documented "
                                             "override/inherit rule", detail={"impl": [raised, seen], "model": a})
                    break
                if "raise" not in json.dumps(c["prog"]):
                    break
    finally:
        cfgmod.reset_config_context(saved)


# ---- environment ---------------------------------------------------------------

def env_configs(tier, rng):
    vals = {"PANDERA_VALIDATION_ENABLED": [None, "True", "False"],
            "PANDERA_VALIDATION_DEPTH": [None, "SCHEMA_ONLY", "DATA_ONLY", "SCHEMA_AND_DATA"],
            "PANDERA_CACHE_DATAFRAME": [None, "True", "False"],
            "PANDERA_KEEP_CACHED_DATAFRAME": [None, "True", "False"]}
    allc = [dict(zip(ENV_VARS, combo)) for combo in itertools.product(*[vals[v] for v in ENV_VARS])]
    return allc


def run_env(rep, envs):
    ans = run_driver("C18", [{"mode": "env", "env": {k: v for k, v in e.items() if v is not None}} for e in envs])
    saved = {k: os.environ.get(k) for k in ENV_VARS}
    try:
        for e, a in zip(envs, ans):
            for k in ENV_VARS:
                os.environ.pop(k, None)
                if e[k] is not None:
                    os.environ[k] = e[k]
            # executes the real module top level (and with it _config_from_env_vars) in a fresh namespace
            ns = runpy.run_path(str(REPO / "pandera" / "config.py"))
            c = ns["CONFIG"]
            impl = {"enabled": c.validation_enabled, "cache": c.cache_dataframe, "keep": c.keep_cached_dataframe,
                    "depth": c.validation_depth.value if c.validation_depth is not None else None}
            doc = {"enabled": e["PANDERA_VALIDATION_ENABLED"] != "False",
                   "cache": e["PANDERA_CACHE_DATAFRAME"] == "True",
                   "keep": e["PANDERA_KEEP_CACHED_DATAFRAME"] == "True",
                   "depth": e["PANDERA_VALIDATION_DEPTH"]}
            rep.case({"env": e}, nontrivial=any(v is not None for v in e.values()))
            rep.count("env")
            if impl != doc:
                rep.property_failure({"env": e}, f"environment not honoured: CONFIG={impl}, documented={doc}")
                continue
            model = {"enabled": a["enabled"], "cache": a["cache"], "keep": a["keep"],
                     "depth": DEPTHS.get(a["depth"]) if a["depth"] else None}
            if model != impl:
                rep.correspondence_break({"env": e}, "generated env expressions differ from the executed module",
                                         detail={"model": model, "impl": impl})
    finally:
        for k, v in saved.items():
            os.environ.pop(k, None)
            if v is not None:
                os.environ[k] = v


def run_fresh_interpreters(rep, n):
    """end to end: a fresh interpreter with the variable set really skips / restricts validation"""
    prog = (
        "import warnings; warnings.simplefilter('ignore')\n"
        "import pandas as pd, pandera as pa\n"
        "s = pa.DataFrameSchema({'a': pa.Column(int, pa.Check.gt(0))})\n"
        "df = pd.DataFrame({'a': [-1.5]})\n"
        "try:\n"
        "    out = s.validate(df, lazy=True); print('ok', out is df)\n"
        "except pa.errors.SchemaErrors as e:\n"
        "    print('errors', sorted(x.reason_code.name for x in e.schema_errors))\n")
    table = [
        ({}, "errors ['DATAFRAME_CHECK', 'WRONG_DATATYPE']"),
        ({"PANDERA_VALIDATION_ENABLED": "False"}, "ok True"),
        ({"PANDERA_VALIDATION_ENABLED": "True"}, "errors ['DATAFRAME_CHECK', 'WRONG_DATATYPE']"),
        ({"PANDERA_VALIDATION_DEPTH": "SCHEMA_ONLY"}, "errors ['WRONG_DATATYPE']"),
        ({"PANDERA_VALIDATION_DEPTH": "DATA_ONLY"}, "errors ['DATAFRAME_CHECK']"),
        ({"PANDERA_VALIDATION_DEPTH": "SCHEMA_AND_DATA"}, "errors ['DATAFRAME_CHECK', 'WRONG_DATATYPE']"),
    ][:n]
    procs = []
    for env, want in table:
        e = {k: v for k, v in os.environ.items() if k not in ENV_VARS}
        e.update(env)
        e["PYTHONPATH"] = str(REPO) + os.pathsep + e.get("PYTHONPATH", "")
        procs.append((env, want, subprocess.Popen(["/venv/bin/python", "-W", "ignore", "-c", prog], env=e,
                                                  stdout=subprocess.PIPE, stderr=subprocess.PIPE, text=True)))
    for env, want, p in procs:
        out, err = p.communicate(timeout=300)
        got = out.strip().splitlines()[-1] if out.strip() else "crash: " + err.strip()[-200:]
        rep.case({"fresh_env": env})
        rep.count("fresh-interpreter")
        if got != want:
            rep.property_failure({"fresh_env": env}, f"fresh interpreter: got {got!r}, documented {want!r}")


# ---- validation disabled ---------------------------------------------------------

def run_disabled(rep):
    import pandas as pd
    import pandera as pa
    from pandera.config import config_context
    bad = pd.DataFrame({"a": ["x", None]}, index=pd.Index(["i", "i"], name="k"))
    entries = {
        "DataFrameSchema": (pa.DataFrameSchema({"a": pa.Column(int, pa.Check.gt(0), coerce=True)}, strict=True), bad),
        "SeriesSchema": (pa.SeriesSchema(int, pa.Check.gt(0), coerce=True), bad["a"]),
        "Column": (pa.Column(int, pa.Check.gt(0), name="a", coerce=True), bad),
        "Index": (pa.Index(int, unique=True, coerce=True), bad),
        "MultiIndex": (pa.MultiIndex([pa.Index(int), pa.Index(int)]), bad),
    }
    try:
        import polars as pl
        import pandera.polars as pap
        pbad = pl.DataFrame({"a": ["x", None]})
        entries["polars.DataFrameSchema"] = (pap.DataFrameSchema({"a": pap.Column(int, pap.Check.gt(0))}), pbad)
        entries["polars.DataFrameSchema(lazy)"] = (pap.DataFrameSchema({"a": pap.Column(int)}), pbad.lazy())
        entries["polars.Column"] = (pap.Column(int, pap.Check.gt(0), name="a"), pbad.lazy())
    except Exception:  # noqa: BLE001
        pass
    for name, (schema, obj) in entries.items():
        case = {"disabled_entry": name}
        rep.case(case)
        rep.count("disabled:" + name)
        with warnings.catch_warnings():
            warnings.simplefilter("ignore")
            with config_context(validation_enabled=False):
                try:
                    out = schema.validate(obj)
                except Exception as e:  # noqa: BLE001
                    rep.property_failure(case, f"validation disabled, but {name}.validate raised {type(e).__name__}",
                                         region="K_C18_disabledNotHonoured:" + name)
                    continue
        if out is not obj:
            rep.property_failure(case, f"validation disabled, but {name}.validate did not return its argument",
                                 region="K_C18_disabledNotHonoured:" + name)


# ---- depth --------------------------------------------------------------------------

def verdict(S, D, depth):
    from pandera.config import ValidationDepth, config_context
    schema = A.schema_of(S)
    df = A.frame_of(D)
    with config_context(validation_depth=ValidationDepth(DEPTHS[depth])):
        kind, out = P.run_validate(schema, df, lazy=True)
    return kind


def run_depth(rep, cases):
    ans = run_driver("C18", cases)
    for c, a in zip(cases, ans):
        if "error" in a:
            rep.correspondence_break(c, "driver: " + a["error"])
            continue
        if not a["wf"]:
            continue
        S, D = c["schema"], c["frame"]
        v = {d: verdict(S, D, d) for d in DEPTHS}
        if "crash" in v.values():
            rep.count("depth:crash")
            continue
        acc = {d: v[d] == "ok" for d in DEPTHS}
        rep.case(c, nontrivial=len(set(acc.values())) > 1)
        rep.count("depth:%s%s%s" % tuple("A" if acc[d] else "r" for d in ("schemaAndData", "schemaOnly", "dataOnly")))
        if acc["schemaAndData"] != (acc["schemaOnly"] and acc["dataOnly"]):
            rep.property_failure(c, f"full depth accepts={acc['schemaAndData']} but SCHEMA_ONLY={acc['schemaOnly']}, "
                                    f"DATA_ONLY={acc['dataOnly']}")
            continue
        sp = verdict(a["schemaPart"], D, "schemaAndData") == "ok"
        if acc["schemaOnly"] != sp:
            rep.property_failure(c, f"SCHEMA_ONLY accepts={acc['schemaOnly']} but the schema-level restriction of the "
                                    f"schema accepts={sp}")
            continue
        dp = verdict(a["dataPart"], D, "schemaAndData") == "ok"
        if acc["dataOnly"] != dp:
            rep.property_failure(c, f"DATA_ONLY accepts={acc['dataOnly']} but the data-level restriction accepts={dp}",
                                 region="K_C18_dataOnlySchemaErrors" if a["inKdo"] else None)
            continue
        model = {"schemaAndData": a["sad"], "schemaOnly": a["so"], "dataOnly": a["do"]}
        if model != acc and P.well_typed(c):
            # (ill-typed cases: a check on values of another kind raises, which the model does not follow)
            rep.correspondence_break(c, "model verdicts per depth differ from the implementation",
                                     detail={"model": model, "impl": acc})


def run_polars_depth(rep):
    try:
        import polars as pl
        import pandera.polars as pap
    except Exception:  # noqa: BLE001
        rep.count("polars:unavailable")
        return
    from pandera.config import ValidationDepth, config_context
    variants = {
        "check": (lambda: pap.Column(int, pap.Check.gt(0), name="a"), pl.DataFrame({"a": [-1]})),
        "nullable": (lambda: pap.Column(int, name="a"), pl.DataFrame({"a": [1, None]})),
        "unique": (lambda: pap.Column(int, unique=True, name="a"), pl.DataFrame({"a": [1, 1]})),
        # a value that cannot be coerced is a data-level violation (DATATYPE_COERCION), whoever asks for the coercion
        "coerce": (lambda: pap.Column(int, coerce=True, nullable=True, name="a"), pl.DataFrame({"a": ["1", "x"]})),
        "frame-coerce": (lambda: pap.Column(int, nullable=True, name="a"), pl.DataFrame({"a": ["1", "x"]})),
    }
    cases = []
    for entry in ("DataFrameSchema", "Column"):
        for vk in variants:
            for is_lazy in (False, True):
                for ctxd in (None, "schemaOnly", "dataOnly", "schemaAndData"):
                    # the process-wide depth (PANDERA_VALIDATION_DEPTH): unset, or set to any of the three
                    for globd in ((None, "schemaOnly", "dataOnly", "schemaAndData") if vk == "check" else (None,)):
                        cases.append({"mode": "polars", "isLazy": is_lazy, "entry": entry, "violation": vk,
                                      "ctx": {"enabled": True, "depth": ctxd, "cache": False, "keep": False},
                                      "glob": {"enabled": True, "depth": globd, "cache": False, "keep": False}})
    ans = run_driver("C18", [{k: v for k, v in c.items() if k not in ("entry", "violation")} for c in cases])
    for c, a in zip(cases, ans):
        mk, bad = variants[c["violation"]]
        if c["violation"] == "frame-coerce" and c["entry"] == "Column":
            continue
        if "coerce" in c["violation"] and not c["isLazy"] and (c["ctx"]["depth"] or c["glob"]["depth"]) == "schemaOnly":
            # an eager frame is collected before it is returned: the unchecked cast of SCHEMA_ONLY is executed there and
            # fails inside polars; only a LazyFrame can defer it (not a question of which checks run)
            continue
        schema = mk() if c["entry"] == "Column" else pap.DataFrameSchema({"a": mk()}, coerce=c["violation"] == "frame-coerce")
        obj = bad.lazy() if c["isLazy"] else bad
        kw = {}
        if c["ctx"]["depth"]:
            kw["validation_depth"] = ValidationDepth(DEPTHS[c["ctx"]["depth"]])
        import pandera.config as cfgmod_
        saved_depth = cfgmod_.CONFIG.validation_depth
        cfgmod_.CONFIG.validation_depth = ValidationDepth(DEPTHS[c["glob"]["depth"]]) if c["glob"]["depth"] else None
        try:
            with warnings.catch_warnings():
                warnings.simplefilter("ignore")
                with config_context(**kw):
                    try:
                        schema.validate(obj)
                        rejected = False
                    except Exception:  # noqa: BLE001
                        rejected = True
        finally:
            cfgmod_.CONFIG.validation_depth = saved_depth
        data_checks_run = a in ("schemaAndData", "dataOnly")
        rep.case(c)
        rep.count("polars-depth")
        # documented precedence: the context's depth, else the process-wide one, else the default of the container kind
        eff = c["ctx"]["depth"] or c["glob"]["depth"]
        documented = (eff in ("schemaAndData", "dataOnly")) or (eff is None and not c["isLazy"])
        if rejected != documented:
            rep.property_failure(c, f"polars {c['entry']} on a {'LazyFrame' if c['isLazy'] else 'DataFrame'} "
                                    f"({c['violation']} violation) with context depth "
                                    f"{c['ctx']['depth']} and process-wide depth {c['glob']['depth']}: data check "
                                    f"ran={rejected}, documented={documented}")
        elif data_checks_run != rejected:
            rep.correspondence_break(c, "polarsDepth model differs from the implementation")


def run(tier, replay=None):
    rep = Report(PROP, tier)
    regenerate(("scopemap", "envconfig", "builtin", "skeletons"))
    rep.audit = audit(PROP, MODULES)
    rep.audit["modules"] = MODULES
    rng = rng_for(PROP)
    if replay:
        case = json.loads(open(replay).read())["case"]
        if "prog" in case:
            run_progs(rep, [case])
        elif "env" in case:
            run_env(rep, [case["env"]])
        elif "schema" in case:
            run_depth(rep, [case])
        else:
            run_disabled(rep)
            run_polars_depth(rep)
        return rep.finish(rule="replay")
    init_cfgs = [{"enabled": True, "depth": None, "cache": False, "keep": False},
                 {"enabled": True, "depth": "dataOnly", "cache": True, "keep": False},
                 {"enabled": False, "depth": "schemaOnly", "cache": False, "keep": True}]
    progs = [{"prog": gen_prog(rng, 4), "cfg": rng.choice(init_cfgs)} for _ in range(400 if tier == "quick" else 6000)]
    enum_depth = 2 if tier == "quick" else 4
    enum = list(enum_progs(enum_depth))
    if tier == "thorough" and len(enum) > 60000:
        enum = enum[:60000]
    progs += [{"prog": p, "cfg": init_cfgs[i % 3]} for i, p in enumerate(enum)]
    rep.extra["nestings_enumerated_to_depth"] = enum_depth
    run_progs(rep, progs)
    run_env(rep, env_configs(tier, rng))
    run_fresh_interpreters(rep, 3 if tier == "quick" else 6)
    run_disabled(rep)
    run_polars_depth(rep)
    dcases = corpus_cases(PROP) + [P.gen_case(rng, conform_bias=0.7) for _ in range(500 if tier == "quick" else 12000)]
    run_depth(rep, [c for c in dcases if "schema" in c])
    return rep.finish(
        rule="(1) random + exhaustively enumerated config_context nestings (with observation points and exceptions) "
             "run on the real module; (2) all 108 documented settings of the four environment variables, executing "
             "config.py in a fresh namespace, plus fresh interpreters; (3) every validate entry point with validation "
             "disabled; (4) C01's generator validated under the three depths and against the restricted schemas; "
             "(5) polars default depth table. non-trivial = nesting contains a block / env sets a variable / verdicts "
             "differ between depths",
        level_note=["junk values of the environment variables are outside the documented domain and not claimed"],
    )

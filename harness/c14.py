"""C14 — an inferred schema accepts the data it was inferred from, with tight bounds, and survives
serialisation with the same verdict.

Tie: (T) Generated/InferStats.lean (which statistics `_get_array_check_statistics` infers, with which
aggregate and conversion) with a `decide` obligation in Props/C14.lean; (D) per array: inferred dtype,
nullable and bounds of the implementation vs Lean's `inferField` (exact, including the float()
rounding of integers beyond 2**53), and the property itself on the implementation for frames inside
and outside the abstract universe (categoricals, timedeltas, extension dtypes, tz-aware and
sub-second timestamps, infinities, empty and all-null columns, Index and MultiIndex, Series).
"""
from __future__ import annotations

import json
import math
import warnings

import numpy as np
import pandas as pd

from . import absdata as A
from .common import Report, audit, corpus_cases, rng_for, run_driver, warm_up_backends
from .regen import regenerate

PROP = "C14"
MODULES = ["PanderaModel.Props.C14"]

BIG = [2 ** 53 - 1, 2 ** 53, 2 ** 53 + 1, 2 ** 53 + 2, 2 ** 53 + 3, 2 ** 53 + 5, 2 ** 54 + 2, 2 ** 54 + 6, 2 ** 60 + 129,
       2 ** 62 + 257, 2 ** 63 - 1, 2 ** 63 - 513, 2 ** 63 - 1025]


def gen_abs_column(rng, name):
    dt = rng.choice(["int64", "int64", "float64", "float64", "str", "bool", "datetime"])
    n = rng.choice([0, 1, 1, 2, 3, 4, 5])
    vals = []
    for _ in range(n):
        if A.can_null(dt) and rng.random() < 0.2:
            vals.append(A.NULL)
            continue
        if dt == "int64":
            r = rng.random()
            if r < 0.35:
                v = rng.choice(BIG) * rng.choice([1, -1])
                v = max(min(v, 2 ** 63 - 1), -2 ** 63)
            else:
                v = rng.randint(-50, 50)
            vals.append(A.vint(v))
        elif dt == "float64":
            r = rng.random()
            if r < 0.2:
                vals.append(A.vflt(4 * int(float(rng.choice(BIG))) * rng.choice([1, -1])))   # an exact double
            else:
                vals.append(A.vflt(rng.randint(-200, 200)))
        elif dt == "str":
            vals.append(A.vstr(rng.choice(["a", "b", "ab", "", "x1", "é"])))
        elif dt == "bool":
            vals.append(A.vbool(rng.random() < 0.5))
        else:
            vals.append(A.vts(rng.randint(-4000, 4000)))
    if A.can_null(dt) and n and rng.random() < 0.1:
        vals = [A.NULL] * n
    return {"name": name, "dtype": dt, "vals": vals}


def gen_abs_frame(rng):
    ncols = rng.choice([0, 1, 1, 2, 3])
    names = rng.sample(A.NAMES, ncols)
    cols = [gen_abs_column(rng, nm) for nm in names]
    n = rng.choice([0, 1, 2, 3, 4])
    for c in cols:
        c["vals"] = (c["vals"] + [c["vals"][-1] if c["vals"] else (A.NULL if A.can_null(c["dtype"]) else
                                                                   {"int64": A.vint(0), "bool": A.vbool(True)}[c["dtype"]])] * n)[:n]
    k = rng.choice([1, 1, 1, 2])
    index = []
    for j in range(k):
        lv = gen_abs_column(rng, f"i{j}" if rng.random() < 0.7 else None)
        if lv["dtype"] == "bool":
            lv["dtype"], lv["vals"] = "int64", []
        fill = {"int64": A.vint(j), "float64": A.vflt(4 * j), "str": A.vstr("k"), "datetime": A.vts(j)}[lv["dtype"]]
        lv["vals"] = (lv["vals"] + [fill] * n)[:n]
        if k > 1 and rng.random() < 0.6:
            lv["vals"] = [fill if v == A.NULL else v for v in lv["vals"]]
        index.append({"name": lv["name"], "dtype": lv["dtype"], "vals": lv["vals"]})
    case = {"kind": "abs", "frame": {"cols": cols, "index": index, "nrows": n}}
    if n >= 3 and rng.random() < 0.3:
        case["slice"] = [1, n - 1]          # validate / infer on df.iloc[1:n-1] (keeps the parent's index levels)
    return case


def wild_frames(rng):
    """frames outside the abstract universe (P_impl only)"""
    n = rng.choice([1, 2, 3, 4, 5])
    pick = lambda xs: [rng.choice(xs) for _ in range(n)]  # noqa: E731
    makers = {
        "category": lambda: pd.Categorical(pick(["x", "y", "z", None])),
        "category-int": lambda: pd.Categorical(pick([1, 2, 3])),
        "timedelta": lambda: pd.to_timedelta(pick(["1D", "2D 03:00:00", None, "0.5s"])),
        "Int64": lambda: pd.array(pick([1, 2 ** 53 + 3, None, -5]), dtype="Int64"),
        "UInt8": lambda: pd.array(pick([0, 255, None]), dtype="UInt8"),
        "Float64": lambda: pd.array(pick([1.5, None, -2.25]), dtype="Float64"),
        "boolean": lambda: pd.array(pick([True, False, None]), dtype="boolean"),
        "string": lambda: pd.array(pick(["a", None, "bc"]), dtype="string"),
        "float-inf": lambda: np.array(pick([np.inf, -np.inf, 1.0, np.nan, 1e308, 5e-324]), dtype="float64"),
        "float32": lambda: np.array(pick([0.1, 16777217.0, -3.5]), dtype="float32"),
        "int8": lambda: np.array(pick([-128, 127, 0]), dtype="int8"),
        "uint64": lambda: np.array(pick([0, 2 ** 64 - 1, 2 ** 53 + 1]), dtype="uint64"),
        "dt-subsecond": lambda: pd.DatetimeIndex(pick([pd.Timestamp("2021-06-01 12:00:00.123456789"),
                                                        pd.Timestamp("1999-12-31 23:59:59.999999999"), pd.NaT,
                                                        pd.Timestamp("2021-06-01 12:00:00.5"),
                                                        pd.Timestamp("2030-03-04 05:06:07.000000123"),
                                                        pd.Timestamp("2030-03-04 05:06:07.000123")])),
        "dt-tz": lambda: pd.DatetimeIndex(pick([pd.Timestamp("2021-06-01 12:00:00"), pd.Timestamp("2020-02-29 01:30:00.25"),
                                                 pd.NaT])).tz_localize(rng.choice(["UTC", "Europe/Berlin", "Asia/Kolkata"])),
        "obj-ints": lambda: pd.Series(pick([1, 2, 3]), dtype=object),
        "obj-int-float": lambda: pd.Series(pick([1, 2.5, 3]), dtype=object),
        "obj-bools": lambda: pd.Series(pick([True, False]), dtype=object),
        "obj-mixed": lambda: pd.Series(pick([1, "x", None, 2.5]), dtype=object),
        # every kind pandas' `infer_dtype` tells apart in an object array (integer-na, floating, boolean with None, bytes,
        # decimal, datetime objects, mixed-integer, ...)
        "obj-int-nan": lambda: pd.Series(pick([1, np.nan, 3]), dtype=object),
        "obj-float-none": lambda: pd.Series(pick([1.5, None, 2.5]), dtype=object),
        "obj-bool-none": lambda: pd.Series(pick([True, None, False]), dtype=object),
        "obj-bytes": lambda: pd.Series(pick([b"a", b"bc"]), dtype=object),
        "obj-int-str": lambda: pd.Series(pick([1, "x", 2]), dtype=object),
        "obj-timestamps": lambda: pd.Series(pick([pd.Timestamp("2020-01-01"), pd.Timestamp("2021-02-03")]), dtype=object),
        "obj-timedeltas": lambda: pd.Series(pick([pd.Timedelta("1D"), pd.Timedelta("2h")]), dtype=object),
        "const-int": lambda: np.array([7] * n, dtype="int64"),
        "const-float": lambda: np.array([2.5] * n, dtype="float64"),
        "const-dt": lambda: pd.DatetimeIndex([pd.Timestamp("2020-05-05 01:02:03")] * n),
        "obj-none": lambda: pd.Series([None] * n, dtype=object),
        "obj-empty": lambda: pd.Series([], dtype=object),
        "float-empty": lambda: pd.Series([], dtype="float64"),
        "str-none": lambda: pd.Series(pick(["a", None]), dtype=object),
        "dates": lambda: pd.Series(pick([pd.Timestamp("2020-01-01").date(), pd.Timestamp("2021-05-05").date()]), dtype=object),
    }
    kinds = rng.sample(sorted(makers), rng.randint(1, 3))
    cols = {}
    for k in kinds:
        v = makers[k]()
        if len(v) != n:
            continue
        cols[k] = v
    df = pd.DataFrame({k: pd.Series(v).values if not isinstance(v, pd.Series) else v.values for k, v in cols.items()}) \
        if cols else pd.DataFrame(index=range(n))
    for k, v in cols.items():
        df[k] = pd.Series(v).values if not hasattr(v, "dtype") or str(getattr(v, "dtype", "")) == "object" else v
    ix = rng.choice(["range", "str", "dt", "multi", "float-nan", "multi-null", "dt-ns"])
    m = len(df)
    if ix == "str":
        df.index = pd.Index([f"r{i}" for i in range(m)], name=rng.choice([None, "key"]))
    elif ix == "dt":
        df.index = pd.DatetimeIndex([pd.Timestamp("2020-01-01") + pd.Timedelta(hours=7 * i + 0.5) for i in range(m)])
    elif ix == "multi" and m:
        df.index = pd.MultiIndex.from_arrays([list(range(m)), [f"k{i % 2}" for i in range(m)]], names=["i", "j"])
    elif ix == "float-nan" and m:
        df.index = pd.Index([1.5 * i if i else np.nan for i in range(m)])
    elif ix == "multi-null" and m:
        df.index = pd.MultiIndex.from_arrays([[float(i) if i else np.nan for i in range(m)],
                                              [f"k{i % 2}" if i != 1 else None for i in range(m)]], names=["i", "j"])
    elif ix == "dt-ns" and m:
        df.index = pd.DatetimeIndex([pd.Timestamp("2020-01-01 00:00:00.000000001") + pd.Timedelta(nanoseconds=7 * i)
                                     for i in range(m)])
    labels = "str"
    if len(df.columns) and rng.random() < 0.15:
        # column labels that are not strings (the default labels of `pd.DataFrame(ndarray)`, float labels)
        labels = rng.choice(["int", "float"])
        df.columns = [i if labels == "int" else i + 0.5 for i in range(len(df.columns))]
        kinds = kinds + [labels + "-labels"]
    if m >= 3 and rng.random() < 0.35:
        # a frame sliced out of a larger one keeps the parent's unused index levels / categories
        df = df.iloc[1:m - 1 if m > 3 else m]
        return {"kind": "wild", "label": "+".join(kinds) + "/" + ix + "-sliced", "df": df}
    return {"kind": "wild", "label": "+".join(kinds) + "/" + ix, "df": df}


def values_equal(a, b) -> bool:
    """element-wise equality of two pandas objects, NaN == NaN, dtype-insensitive"""
    if isinstance(a, pd.Series):
        a, b = a.to_frame("s"), b.to_frame("s")
    if list(map(str, a.columns)) != list(map(str, b.columns)) or len(a) != len(b):
        return False
    if not a.index.equals(b.index) and list(a.index) != list(b.index):
        la, lb = list(a.index), list(b.index)
        if not all((x == y) or (x != x and y != y) for x, y in zip(la, lb)):
            return False
    for ca, cb in zip(a.columns, b.columns):
        xs, ys = a[ca].tolist(), b[cb].tolist()
        for x, y in zip(xs, ys):
            xn = x is None or x is pd.NaT or x is pd.NA or (isinstance(x, float) and math.isnan(x))
            yn = y is None or y is pd.NaT or y is pd.NA or (isinstance(y, float) and math.isnan(y))
            if xn != yn:
                return False
            if not xn and not (x == y):
                return False
    return True


def bound_abs(v):
    """a Check statistic -> abstract value for comparison with the model (None when outside the grid)"""
    try:
        if isinstance(v, float) and not math.isinf(v):
            num, den = v.as_integer_ratio()
            if 4 % den == 0:
                return A.vflt(num * (4 // den))
            return None
        return A.from_py(v)
    except Exception:  # noqa: BLE001
        return None


def components(S):
    import pandera as pa
    if isinstance(S, pa.SeriesSchema):
        return [("series", S)]
    out = [(f"column {k!r}", c) for k, c in S.columns.items()]
    if S.index is not None:
        out += [(f"index {i}", x) for i, x in enumerate(S.index.indexes if hasattr(S.index, "indexes") else [S.index])]
    return out


def p_impl(rep, case, obj, label):
    """the property on the implementation; returns the inferred schema or None"""
    import pandera as pa
    from pandera.io import pandas_io as io
    with warnings.catch_warnings():
        warnings.simplefilter("ignore")
        try:
            S = pa.infer_schema(obj)
        except Exception as e:  # noqa: BLE001
            rep.property_failure(case, f"infer_schema raises {type(e).__name__}: {str(e)[:100]} ({label})")
            return None
        try:
            out = S.validate(obj)
        except Exception as e:  # noqa: BLE001
            rep.property_failure(case, f"the inferred schema rejects its own data: {type(e).__name__}: "
                                       f"{str(e)[:140]} ({label})")
            return S
        if not values_equal(out, obj):
            rep.property_failure(case, f"validation with the inferred schema changed the values ({label})")
            return S
        # tight bounds
        data = {"series": obj} if isinstance(obj, pd.Series) else None
        for where, comp in components(S):
            for chk in comp.checks:
                st = chk.statistics or {}
                if chk.name in ("greater_than_or_equal_to", "less_than_or_equal_to"):
                    if where == "series":
                        arr = obj
                    elif where.startswith("column"):
                        arr = obj[[k for k in obj.columns if repr(k) == where[7:]][0]]
                    else:
                        arr = pd.Series(obj.index.get_level_values(int(where.split()[1])))
                    agg = arr.min() if chk.name.startswith("greater") else arr.max()
                    b = st.get("min_value", st.get("max_value"))
                    try:
                        tight = (float(agg) == b) if isinstance(b, float) else (agg == b)
                    except Exception:  # noqa: BLE001
                        tight = agg == b
                    if not tight:
                        rep.property_failure(case, f"bound of {chk.name} on {where} is {b!r}, the data's extreme is {agg!r} ({label})")
                        return S
        if isinstance(obj, pd.DataFrame):
            for fmt, w, r in (("yaml", io.to_yaml, io.from_yaml), ("json", io.to_json, io.from_json)):
                if fmt == "json" and not all(isinstance(k, str) for k in obj.columns):
                    continue        # the keys of a JSON object are strings: other labels cannot be written (DESIGN §8)
                try:
                    S2 = r(w(S))
                    out2 = S2.validate(obj)
                    if not values_equal(out2, obj):
                        rep.property_failure(case, f"{fmt}: the re-read inferred schema changed the values ({label})")
                except Exception as e:  # noqa: BLE001
                    region = None
                    rep.property_failure(case, f"{fmt}: the re-read inferred schema fails on its data: "
                                               f"{type(e).__name__}: {str(e)[:120]} ({label})", region=region)
                    return S
    return S


def run_abs(rep, cases):
    dcases, meta = [], []
    for ci, c in enumerate(cases):
        fr = c["frame"]
        try:
            df = A.frame_of(fr)
            if c.get("slice"):
                a_, b_ = c["slice"]
                df = df.iloc[a_:b_]
                fr = {"cols": [dict(col, vals=col["vals"][a_:b_]) for col in fr["cols"]],
                      "index": [dict(l, vals=l["vals"][a_:b_]) for l in fr["index"]], "nrows": b_ - a_}
                rep.count("abs:sliced")
        except Exception as e:  # noqa: BLE001
            rep.count("abs:unbuildable:" + type(e).__name__)
            continue
        rep.case(c, nontrivial=fr["nrows"] > 0 and bool(fr["cols"]))
        rep.count("abs:frames")
        S = p_impl(rep, c, df, "abstract frame")
        if S is not None and fr["cols"] and rep_ok(rep, c):
            s0 = df[fr["cols"][0]["name"]]
            p_impl(rep, c, s0, "series")
        if S is None:
            continue
        comps = components(S)
        arrays = [(col["dtype"], col["vals"]) for col in fr["cols"]] + [(l["dtype"], l["vals"]) for l in fr["index"]]
        for (where, comp), (dt, vals) in zip(comps, arrays):
            if where.startswith("index") and len(fr["index"]) > 1 and all(v == A.NULL for v in vals):
                continue        # an all-null MultiIndex level has no dtype of its own (pandas stores float NaN)
            dcases.append({"dtype": dt, "vals": vals})
            meta.append((ci, where, comp, dt))
    ans = run_driver("C14", dcases) if dcases else []
    for (ci, where, comp, dt), a in zip(meta, ans):
        c = cases[ci]
        if "error" in a:
            rep.correspondence_break(c, "driver: " + a["error"])
            continue
        rep.count("abs:components")
        impl_dt = A.abs_dtype_of(str(comp.dtype)) if str(comp.dtype) != "str" else "str"
        impl_dt = {"str": "str"}.get(str(comp.dtype), impl_dt)
        impl_checks = []
        for chk in comp.checks:
            st = chk.statistics or {}
            kind = {"greater_than_or_equal_to": "ge", "less_than_or_equal_to": "le"}.get(chk.name, "other")
            impl_checks.append({"kind": kind, "bound": bound_abs(st.get("min_value", st.get("max_value")))})
        model_checks = [{"kind": x["kind"], "bound": x.get("bound")} for x in a["checks"]]
        # an all-null / empty object column is inferred as `object`; the abstract `str` dtype stands for it
        if impl_dt != dt and not (dt == "str" and str(comp.dtype) in ("object", "str")):
            rep.correspondence_break(c, f"{where}: inferred dtype {comp.dtype}, model {dt}")
        elif bool(comp.nullable) != a["nullable"]:
            rep.correspondence_break(c, f"{where}: nullable {comp.nullable}, model {a['nullable']}")
        elif impl_checks != model_checks:
            rep.correspondence_break(c, f"{where}: inferred checks {impl_checks}, model {model_checks}")
        if any(abs(v["int"]["i"]) >= 2 ** 53 for v in c["frame"]["cols"][0]["vals"] if isinstance(v, dict) and "int" in v) \
                if c["frame"]["cols"] else False:
            rep.count("abs:beyond-2^53")


def rep_ok(rep, case):
    return not rep.violations or rep.violations[-1]["case"] is not case


def run_wild(rep, cases):
    for c in cases:
        df = c["df"]
        case = {"kind": "wild", "label": c["label"], "frame": json.loads(df.reset_index().astype(str).to_json(orient="split"))}
        rep.case(case)
        rep.count("wild:" + c["label"].split("/")[1])
        for k in c["label"].split("/")[0].split("+"):
            rep.count("wild-col:" + k)
        p_impl(rep, case, df, c["label"])
        if len(df.columns) and rep_ok(rep, case):
            p_impl(rep, case, df[df.columns[0]], c["label"] + " (first column as Series)")


def run(tier, replay=None):
    rep = Report(PROP, tier)
    warm_up_backends()
    regenerate(("inferstats",))
    rep.audit = audit(PROP, MODULES)
    rep.audit["modules"] = MODULES
    if replay:
        case = json.loads(open(replay).read())["case"]
        if case.get("kind") == "abs":
            run_abs(rep, [case])
        else:
            fr = case["frame"]
            rep.notes.append("wild replays are re-generated from the seed; the frame in the file is a rendering")
        return rep.finish(rule="replay")
    rng = rng_for(PROP)
    n = 600 if tier == "quick" else 15000
    run_abs(rep, [c for c in corpus_cases(PROP) if c.get("kind") == "abs"] + [gen_abs_frame(rng) for _ in range(n)])
    run_wild(rep, [wild_frames(rng) for _ in range(n // 2)])
    return rep.finish(
        rule="abstract frames (int64 incl. +-2^53..2^63 neighbours, floats, strings, bools, timestamps, nulls, empty and "
             "all-null columns, Index / MultiIndex): infer, validate, values unchanged, bounds attained, yaml/json round "
             "trip with the same verdict, first column as Series, and per component dtype / nullable / bounds vs the "
             "Lean model; wild frames (categoricals, timedeltas, extension dtypes, tz-aware and sub-second timestamps, "
             "infinities, object columns of ints / mixed / dates) for the property on the implementation only",
        level_note=["numpy's int64 -> float64 conversion is modelled by roundF64 (ties to even); its agreement with "
                    "float() is checked by the differential on 2^53..2^63 neighbours; monotonicity of the conversion is the "
                    "hypothesis of float_bounds_accept"],
    )

"""C02 — lazy and eager validation agree; the error report is exact."""
from __future__ import annotations

import json
import warnings
from collections import Counter

from . import absdata as A
from . import pipeline as P
from .common import Report, audit, corpus_cases, rng_for, run_driver
from .regen import regenerate

PROP = "C02"
MODULES = ["PanderaModel.Props.C02"]


def normval(v):
    if isinstance(v, dict) and "int" in v:
        return {"num": 4 * v["int"]["i"]}
    if isinstance(v, dict) and "flt" in v:
        return {"num": v["flt"]["q"]}
    return v


def key(e):
    e = dict(e, cells=[[c[0], c[1], normval(c[2])] for c in e["cells"]])
    return json.dumps([e["reason"], e["ctx"], e["label"], e["checkIx"],
                       sorted(json.dumps(c, sort_keys=True) for c in e["cells"])], sort_keys=True)


def model_errors_canon(errs, D):
    labels = [A.to_py(v) for v in D["index"][0]["vals"]] if len(D["index"]) == 1 else None
    out = []
    for e in errs:
        cells = []
        for c in e["cells"]:
            lab = c["pos"] if e["ctx"] == "index" or labels is None else labels[c["pos"]]
            cells.append([c["col"], lab, c["val"]])
        out.append({"reason": e["reason"], "ctx": e["ctx"], "label": e["label"],
                    "checkIx": e["checkIx"], "cells": cells})
    return out


def impl_observe(case):
    S, D = case["schema"], case["frame"]
    df = A.frame_of(D)
    ek, eo = P.run_validate(A.schema_of(S), df.copy(), lazy=False)
    lk, lo = P.run_validate(A.schema_of(S), df.copy(), lazy=True)
    obs = {"eager": ek, "lazy": lk}
    if ek == "error":
        ce = P.canon_error(eo, df)
        obs["eager_err"] = {k: ce[k] for k in ("reason", "ctx", "label", "checkIx")} | {
            "cells": [list(c) for c in ce["cells"]]}
    if ek == "crash":
        obs["eager_exc"] = type(eo).__name__ + ": " + str(eo)[:150]
    if lk == "crash":
        obs["lazy_exc"] = type(lo).__name__ + ": " + str(lo)[:150]
    if lk == "errors":
        errs = []
        for err in lo.schema_errors:
            ce = P.canon_error(err, df)
            errs.append({k: ce[k] for k in ("reason", "ctx", "label", "checkIx")} | {
                "cells": [list(c) for c in ce["cells"]]})
        obs["lazy_errs"] = errs
        obs["error_counts"] = dict(lo.error_counts)
        try:
            fc = lo.failure_cases
            obs["report_rows"] = int(len(fc))
        except Exception as ex:  # noqa: BLE001
            obs["report_exc"] = type(ex).__name__
    return obs


def only_null_duplicates_missing(model_errs, impl_errs):
    """K_C02_nullDuplicates, exactly: the two reports differ only in uniqueness errors, and there only by
    null-valued (or null-containing-row) cells the implementation left out"""
    core = lambda e: json.dumps([e["reason"], e["ctx"], e["label"], e["checkIx"]])
    norm = lambda e: Counter(json.dumps([c[0], c[1], normval(c[2])], sort_keys=True) for c in e["cells"])
    m = {}
    for e in model_errs:
        m.setdefault(core(e), []).append(e)
    i = {}
    for e in impl_errs:
        i.setdefault(core(e), []).append(e)
    if set(m) != set(i):
        return False
    for k in m:
        if len(m[k]) != len(i[k]):
            return False
        for em, ei in zip(m[k], i[k]):
            cm, ci = norm(em), norm(ei)
            if cm == ci:
                continue
            if em["reason"] not in ("seriesContainsDuplicates", "duplicates"):
                return False
            if ci - cm:
                return False
            missing = list((cm - ci).elements())
            if em["reason"] == "seriesContainsDuplicates":
                if not all(json.loads(x)[2] == "null" for x in missing):
                    return False
            else:
                # joint uniqueness: a dropped row contains a null somewhere; its non-null cells survive
                # only if the reshaped frame keeps them, so accept missing null cells only
                if not all(json.loads(x)[2] == "null" for x in missing):
                    return False
    return True


def label_sweep(rep, rng, n):
    """column labels that are not ordinary strings (integers from numpy-built frames, 0 and '' in particular) matched
    by a regex column: the lazy report must name exactly the violating cells, under the frame's own labels"""
    import warnings
    import numpy as np
    import pandas as pd
    import pandera as pa
    for _ in range(n):
        labels = rng.choice([[0, 1, 2], [0, 1], ["", "a"], [0, "a"], [1, 2], ["0", "x"], [0]])
        m = rng.randint(1, 4)
        data = [[rng.choice([-2, -1, 1, 2, 3]) for _ in labels] for _ in range(m)]
        df = pd.DataFrame(np.array(data).reshape(m, len(labels)), columns=labels)
        regex = rng.random() < 0.8
        cols = {r".*": pa.Column(int, pa.Check.gt(0), regex=True)} if regex else \
            {l: pa.Column(int, pa.Check.gt(0)) for l in labels}
        case = {"mode": "labels", "labels": [repr(l) for l in labels], "data": data, "regex": regex}
        want = sorted((repr(l), i, data[i][j]) for j, l in enumerate(labels) for i in range(m) if data[i][j] <= 0)
        with warnings.catch_warnings():
            warnings.simplefilter("ignore")
            try:
                pa.DataFrameSchema(cols).validate(df.copy(), lazy=True)
                got = []
            except pa.errors.SchemaErrors as e:
                fc = e.failure_cases
                got = sorted((repr(c), int(i), int(v)) for c, i, v in
                             zip(fc["column"].tolist(), fc["index"].tolist(), fc["failure_case"].tolist()))
            except Exception as e:  # noqa: BLE001
                rep.count("labels:crash:" + type(e).__name__)
                continue
        rep.case(case, nontrivial=bool(want))
        rep.evaluations += 1
        rep.count("labels:" + ("regex" if regex else "named") + (":violations" if want else ":clean"))
        if got != want:
            rep.property_failure(case, f"the lazy report {got[:4]} differs from the violating cells {want[:4]}")


def depth_counts_sweep(rep, rng, n):
    """`error_counts` equals the number of collected errors per reason at every validation depth (parsers raise their
    errors at any depth: coercion failures, strict / ordered), on schemas with parsing options"""
    from collections import Counter as C_
    from pandera.config import ValidationDepth, config_context
    from . import c03
    import pandera as pa
    for _ in range(n):
        c = c03.gen_case(rng, drop_rate=0.0)
        S, D = c["schema"], c["frame"]
        if rng.random() < 0.5:
            S["strict"] = "yes"
        for depth in (ValidationDepth.SCHEMA_ONLY, ValidationDepth.DATA_ONLY, ValidationDepth.SCHEMA_AND_DATA):
            try:
                schema, df = A.schema_of(S), A.frame_of(D)
            except Exception:  # noqa: BLE001
                break
            with config_context(validation_depth=depth):
                kind, out = P.run_validate(schema, df, lazy=True)
            rep.evaluations += 1
            rep.count(f"depth-counts:{depth.name}:{kind}")
            if kind != "errors":
                continue
            collected = C_(e.reason_code.name for e in out.schema_errors)
            try:
                reported = dict(out.error_counts)
                rows = len(out.failure_cases)
            except Exception as e:  # noqa: BLE001
                rep.property_failure({"mode": "depth-counts", "schema": S, "frame": D, "depth": depth.name},
                                     f"the lazy report could not be built under {depth.name}: {type(e).__name__}")
                continue
            if reported != dict(collected):
                rep.property_failure({"mode": "depth-counts", "schema": S, "frame": D, "depth": depth.name},
                                     f"under {depth.name} error_counts {reported} differ from the collected errors per reason "
                                     f"{dict(collected)}")


def multiindex_report_sweep(rep, rng, n):
    """violations on the levels of a MultiIndex: the lazy report names them by the row's label (the tuple of level values),
    like every other row-level failure case, and names every violating cell the Lean model lists"""
    import pandas as pd
    import pandera as pa
    cases, metas = [], []
    for _ in range(n):
        c = P.gen_case(rng, regex_rate=0.0, index_schema_rate=0.0, conform_bias=0.55, max_rows=4)
        S, D = c["schema"], c["frame"]
        if len(D["cols"]) < 2 or not D["nrows"]:
            continue
        levels = rng.sample(D["cols"], 2)
        names = ["i0", "i1"]
        specs = []
        for j, lv in enumerate(levels):
            sp = next((x for x in S["columns"] if x["name"] == lv["name"] and x["regex"] is None), None)
            sp = dict(sp) if sp else {"dtype": lv["dtype"], "nullable": True, "unique": False, "checks": [], "reportDup": "first"}
            sp.update(name=names[j], regex=None, required=True, coerce=False, default=None)
            for ck in sp["checks"]:
                ck["ignoreNa"] = True
            specs.append(sp)
        model_schema = {"columns": specs, "index": None, "strict": "no", "ordered": False, "unique": [], "reportDup": "first",
                        "coerce": False, "addMissing": False, "dropInvalid": False}
        model_frame = {"cols": [dict(lv, name=names[j]) for j, lv in enumerate(levels)], "index": A.default_index(D["nrows"]),
                       "nrows": D["nrows"]}
        cases.append({"schema": model_schema, "frame": model_frame, "depth": "schemaAndData"})
        metas.append({"mode": "multiindex-report", "specs": specs, "levels": levels, "nrows": D["nrows"]})
    ans = run_driver("C01", cases)
    for mc, m, a in zip(cases, metas, ans):
        if "error" in a or not a["wf"] or not P.checks_typed(mc) or not P.well_typed(mc) or a.get("outOfScope"):
            continue
        try:
            arrays = [A.series_of(lv["vals"], lv["dtype"]).values for lv in m["levels"]]
            idx = pd.MultiIndex.from_arrays(arrays, names=["i0", "i1"])
            df = pd.DataFrame({"v": pd.Series(range(m["nrows"]), dtype="int64").values}, index=idx)
            schema = pa.DataFrameSchema({"v": pa.Column(int)}, index=pa.MultiIndex([A.index_schema_of(sp) for sp in m["specs"]]))
        except Exception:  # noqa: BLE001
            continue
        kind, out = P.run_validate(schema, df.copy(), lazy=True)
        rep.evaluations += 1
        rep.count("multiindex-report:" + kind)
        if kind != "errors":
            continue
        # a row's label is the tuple of its level values; the report prints it, with integers next to floats upcast
        def spellings(t):
            up = tuple(float(x) if isinstance(x, (int, float)) and not isinstance(x, bool) else x for x in t)
            return {str(t), str(up)}
        labels = [spellings(t) for t in df.index.tolist()]
        known = set().union(*labels) if labels else set()
        canon = lambda lab: next((str(sorted(sp)) for sp in labels if lab in sp), lab)
        try:
            fc = out.failure_cases
            rowlevel = fc[fc["index"].notna()]
            got = sorted((str(col), canon(str(ix))) for col, ix in zip(rowlevel["column"].tolist(), rowlevel["index"].tolist()))
            foreign = [(str(col), str(ix)) for col, ix in zip(rowlevel["column"].tolist(), rowlevel["index"].tolist())
                       if str(ix) not in known]
        except Exception as e:  # noqa: BLE001
            rep.property_failure(m, f"MultiIndex: the lazy report could not be read: {type(e).__name__}")
            continue
        # (null-valued duplicates are the recorded region of the uniqueness report)
        want = sorted((str(x["col"]), str(sorted(labels[x["pos"]]))) for e in a["errors"] for x in e["cells"]
                      if not (e["reason"] == "seriesContainsDuplicates" and x["val"] == "null"))
        if foreign:
            rep.property_failure(m, f"MultiIndex: the lazy report names rows {foreign[:3]} that are not labels of the data "
                                    f"(labels: {[sorted(sp)[0] for sp in labels]})")
        elif got != want:
            rep.property_failure(m, f"MultiIndex: the lazy report names {got[:4]}, the violating cells are {want[:4]}")


def frame_checks_sweep(rep, rng, n):
    """several dataframe-level checks on one schema, some of which raise (a column that is not there): every check is
    evaluated and reported on its own — the raising ones as CHECK_ERROR, the failing ones with their row-level failure cases —
    and `error_counts` equals the collected errors per reason; pandas and polars"""
    from collections import Counter as C_
    import pandas as pd
    import pandera as pa
    for _ in range(n):
        m = rng.randint(1, 5)
        a = [rng.choice([-2, -1, 1, 2]) for _ in range(m)]
        b = [rng.choice([-1, 3, 4]) for _ in range(m)]
        labels = rng.sample(range(10, 40), m)
        df = pd.DataFrame({"a": a, "b": b}, index=labels)
        kinds = [rng.choice(["raise", "fail-a", "fail-b", "pass"]) for _ in range(rng.randint(2, 4))]
        mk = {"raise": lambda: pa.Check(lambda d: d["not_there"] > 0), "fail-a": lambda: pa.Check(lambda d: d["a"] > 0),
              "fail-b": lambda: pa.Check(lambda d: d["b"] > 0), "pass": lambda: pa.Check(lambda d: d["a"] > -5)}
        schema = pa.DataFrameSchema({"a": pa.Column(int), "b": pa.Column(int)}, checks=[mk[k]() for k in kinds])
        case = {"mode": "frame-checks", "a": a, "b": b, "labels": labels, "checks": kinds}
        kind, out = P.run_validate(schema, df.copy(), lazy=True)
        ekind, eout = P.run_validate(schema, df.copy(), lazy=False)
        rep.case(case, nontrivial=True)
        rep.evaluations += 1
        rep.count("frame-checks:" + kind)
        want = []
        for ci, k in enumerate(kinds):
            if k == "raise":
                want.append(("CHECK_ERROR", ci, None))
            elif k in ("fail-a", "fail-b"):
                col = a if k == "fail-a" else b
                bad = sorted(labels[i] for i, x in enumerate(col) if not x > 0)
                if bad:
                    want.append(("DATAFRAME_CHECK", ci, bad))
        if (kind == "errors") != bool(want) or (ekind == "error") != bool(want):
            rep.property_failure(case, f"dataframe-level checks {kinds}: lazy {kind}, eager {ekind}, violations expected: {bool(want)}")
            continue
        if not want:
            continue
        got = []
        for e in out.schema_errors:
            fc = e.failure_cases
            # (a failing row is listed once per column of the frame: rows, not cells, are compared)
            rows = sorted(set(fc["index"].tolist())) if hasattr(fc, "columns") and "index" in fc.columns else None
            got.append((e.reason_code.name, e.check_index, rows))
        if sorted(got, key=str) != sorted(want, key=str):
            rep.property_failure(case, f"dataframe-level checks {kinds}: the lazy run collected {sorted(got, key=str)}, the violated "
                                       f"checks are {sorted(want, key=str)}")
            continue
        if dict(out.error_counts) != dict(C_(w[0] for w in want)):
            rep.property_failure(case, f"error_counts {dict(out.error_counts)} differ from the collected errors per reason")
            continue
        if (eout.reason_code.name, eout.check_index) not in {(w[0], w[1]) for w in want}:
            rep.property_failure(case, "the eager error is not among the errors the lazy run collected")
    # polars: error_counts are keyed like the pandas ones (reason names) and count the collected errors
    try:
        import polars as pl
        import pandera.polars as pap
    except Exception:  # noqa: BLE001
        return
    for _ in range(max(10, n // 4)):
        m = rng.randint(1, 4)
        a = [rng.choice([-1, 1, 2, None]) for _ in range(m)]
        schema = pap.DataFrameSchema({"a": pap.Column(int, [pap.Check.gt(0), pap.Check.lt(2)], unique=rng.random() < 0.3),
                                      "zz": pap.Column(int, required=rng.random() < 0.5)}, strict=rng.random() < 0.5)
        df = pl.DataFrame({"a": a, "extra": list(range(m))}, schema={"a": pl.Int64, "extra": pl.Int64})
        case = {"mode": "frame-checks", "backend": "polars", "a": a}
        try:
            schema.validate(df, lazy=True)
            continue
        except pap.errors.SchemaErrors as e:
            collected = dict(C_(x.reason_code.name for x in e.schema_errors))
            reported = {getattr(k, "name", k): v for k, v in dict(e.error_counts).items()}
            rep.evaluations += 1
            rep.count("frame-checks:polars:errors")
            if dict(e.error_counts) != collected:
                rep.property_failure(case, f"polars: error_counts {dict(e.error_counts)} differ from the collected errors per reason "
                                           f"{collected} (same numbers under other keys: {reported == collected})")
        except Exception as e:  # noqa: BLE001
            rep.count("frame-checks:polars:crash:" + type(e).__name__)


def polars_report_sweep(rep, rng, n):
    """polars: eager raises exactly when lazy raises, the eager error is among the lazy errors, and the failure cases of
    every check name every offending value (columns longer than the five values quoted in the error message)"""
    try:
        import polars as pl
        import pandera.polars as pap
    except Exception:  # noqa: BLE001
        return
    for _ in range(n):
        m = rng.randint(1, 12)
        a = [rng.choice([-3, -2, -1, 1, 2, 3, None]) for _ in range(m)]
        thr = rng.choice([0, 1])
        level = rng.choice(["column", "frame"])
        nullable = rng.random() < 0.5
        col = pap.Column(pl.Int64, [pap.Check.gt(thr)] if level == "column" else [], nullable=nullable)
        schema = pap.DataFrameSchema({"a": col}, checks=[pap.Check(lambda d, t=thr: d.lazyframe.select(pl.col("a") > t))]
                                     if level == "frame" else [])
        df = pl.DataFrame({"a": a}, schema={"a": pl.Int64})
        case = {"mode": "polars-report", "a": a, "thr": thr, "level": level, "nullable": nullable}
        out = {}
        for lazy in (False, True):
            with warnings.catch_warnings():
                warnings.simplefilter("ignore")
                try:
                    schema.validate(df, lazy=lazy)
                    out[lazy] = ("ok", None)
                except pap.errors.SchemaErrors as e:
                    out[lazy] = ("errors", e)
                except pap.errors.SchemaError as e:
                    out[lazy] = ("error", e)
                except Exception as e:  # noqa: BLE001
                    out[lazy] = ("crash:" + type(e).__name__, e)
        rep.case(case, nontrivial=out[True][0] != "ok")
        rep.evaluations += 1
        rep.count(f"polars-report:{out[False][0]}/{out[True][0]}")
        if (out[False][0] == "ok") != (out[True][0] == "ok") or out[False][0].startswith("crash") or out[True][0].startswith("crash"):
            rep.property_failure(case, f"polars: eager gives {out[False][0]}, lazy gives {out[True][0]} "
                                       f"({str(out[True][1])[:80] if out[True][0].startswith('crash') else ''})")
            continue
        if out[True][0] == "ok":
            continue
        lazy_errs = out[True][1].schema_errors
        eager = out[False][1]
        if eager.reason_code.name not in {x.reason_code.name for x in lazy_errs}:
            rep.property_failure(case, f"polars: the eager error ({eager.reason_code.name}) is not among the lazy errors")
            continue
        failing = sorted(v for v in a if v is not None and not v > thr)
        nulls = [v for v in a if v is None]
        for src, errs in (("lazy", lazy_errs), ("eager", [eager])):
            for x in errs:
                if x.reason_code.name != "DATAFRAME_CHECK":
                    continue
                fc = x.failure_cases
                vals = fc["a"].to_list() if hasattr(fc, "columns") and "a" in fc.columns else \
                    (fc[fc.columns[0]].to_list() if hasattr(fc, "columns") else list(fc))
                got = sorted(v for v in vals if v is not None)
                if got != failing:
                    rep.property_failure(case, f"polars ({src}): the failure cases of the check are {got}, the offending values are "
                                               f"{failing}")
                    break
        _ = nulls


def coercion_report_sweep(rep, rng, n):
    """coercing schemas with an index component: the lazy report has one DATATYPE_COERCION error per component that holds a
    value it cannot coerce (columns and index alike), naming exactly those values; eager raises iff lazy raises"""
    import pandas as pd
    import pandera as pa
    for _ in range(n):
        m = rng.randint(1, 5)
        mk = lambda: [rng.choice(["1", "2", "3", "x", "y"]) for _ in range(m)]  # noqa: E731
        cols = {k: mk() for k in rng.sample(["a", "b", "c"], rng.randint(1, 3))}
        idx = mk() if rng.random() < 0.7 else None
        frame_level = rng.random() < 0.4
        case = {"mode": "coercion-report", "cols": cols, "index": idx, "frame_level": frame_level}
        schema = pa.DataFrameSchema({k: pa.Column(int, coerce=not frame_level) for k in cols},
                                    index=pa.Index(int, coerce=not frame_level, name="ix") if idx is not None else None,
                                    coerce=frame_level)
        df = pd.DataFrame(cols, index=pd.Index(idx, name="ix") if idx is not None else None)
        out = {}
        for lazy in (False, True):
            with warnings.catch_warnings():
                warnings.simplefilter("ignore")
                try:
                    schema.validate(df.copy(), lazy=lazy)
                    out[lazy] = ("ok", None)
                except pa.errors.SchemaErrors as e:
                    out[lazy] = ("errors", e)
                except pa.errors.SchemaError as e:
                    out[lazy] = ("error", e)
                except Exception as e:  # noqa: BLE001
                    out[lazy] = ("crash:" + type(e).__name__, e)
        bad = {k: sorted(v for v in vs if not v.isdigit()) for k, vs in cols.items()}
        if idx is not None:
            bad["ix"] = sorted(v for v in idx if not v.isdigit())
        bad = {k: v for k, v in bad.items() if v}
        rep.case(case, nontrivial=bool(bad))
        rep.evaluations += 1
        rep.count(f"coercion-report:{len(bad)}-components:{out[False][0]}/{out[True][0]}")
        if any(o[0].startswith("crash") for o in out.values()):
            rep.property_failure(case, f"coercion: eager gives {out[False][0]}, lazy gives {out[True][0]}")
            continue
        if (out[False][0] == "ok") != (not bad) or (out[True][0] == "ok") != (not bad):
            rep.property_failure(case, f"coercion: uncoercible values {bad}; eager gives {out[False][0]}, lazy gives {out[True][0]}")
            continue
        if not bad:
            continue
        e = out[True][1]
        got = {}
        for x in e.schema_errors:
            if x.reason_code.name == "DATATYPE_COERCION":
                fc = x.failure_cases
                vals = sorted(str(v) for v in (fc["failure_case"].tolist() if hasattr(fc, "columns") else [fc]))
                got[str(x.schema.name)] = vals
        if got != bad:
            rep.property_failure(case, f"coercion: the lazy report names {got}, the values that cannot be coerced are {bad}")
        elif dict(e.error_counts).get("DATATYPE_COERCION") != len(bad):
            rep.property_failure(case, f"coercion: error_counts {dict(e.error_counts)} for {len(bad)} components with uncoercible values")
        elif out[False][1].reason_code.name != "DATATYPE_COERCION":
            rep.property_failure(case, f"coercion: the eager error is {out[False][1].reason_code.name}")


def n_cases(tier):
    return 1200 if tier == "quick" else 30000


def run(tier, replay=None):
    rep = Report(PROP, tier)
    regenerate(("scopemap", "builtin"))
    rep.audit = audit(PROP, MODULES)
    rep.audit["modules"] = MODULES
    if replay:
        cases = [json.loads(open(replay).read())["case"]]
        if cases[0].get("mode") == "coercion-report":
            coercion_report_sweep(rep, rng_for(PROP, "coercion-report"), 150)
            return rep.finish(rule="replay of the coercion report sweep (deterministic under VERIF_SEED)")
        if cases[0].get("mode") == "polars-report":
            polars_report_sweep(rep, rng_for(PROP, "polars-report"), 150)
            return rep.finish(rule="replay of the polars report sweep (deterministic under VERIF_SEED)")
        if cases[0].get("mode") == "frame-checks":
            frame_checks_sweep(rep, rng_for(PROP, "frame-checks"), 150)
            return rep.finish(rule="replay of the dataframe-level check sweep (deterministic under VERIF_SEED)")
        if cases[0].get("mode") in ("depth-counts", "multiindex-report"):
            depth_counts_sweep(rep, rng_for(PROP, "depth-counts"), 150)
            multiindex_report_sweep(rep, rng_for(PROP, "mi-report"), 200)
            return rep.finish(rule="replay of the depth-count and MultiIndex report sweeps (deterministic under VERIF_SEED)")
        if cases[0].get("mode") == "labels":
            label_sweep(rep, rng_for(PROP, "labels"), 120)
            return rep.finish(rule="replay of the label sweep (deterministic under VERIF_SEED)")
    else:
        rng = rng_for(PROP)
        cases = corpus_cases(PROP) + [P.gen_case(rng, conform_bias=0.55) for _ in range(n_cases(tier))]
        label_sweep(rep, rng_for(PROP, "labels"), 120 if tier == "quick" else 3000)
        depth_counts_sweep(rep, rng_for(PROP, "depth-counts"), 150 if tier == "quick" else 3000)
        multiindex_report_sweep(rep, rng_for(PROP, "mi-report"), 200 if tier == "quick" else 5000)
        frame_checks_sweep(rep, rng_for(PROP, "frame-checks"), 150 if tier == "quick" else 3000)
        polars_report_sweep(rep, rng_for(PROP, "polars-report"), 150 if tier == "quick" else 3000)
        coercion_report_sweep(rep, rng_for(PROP, "coercion-report"), 150 if tier == "quick" else 3000)
    impl = [impl_observe(c) for c in cases]
    ans = run_driver("C01", [dict(c, depth="schemaAndData") for c in cases])
    for c, o, a in zip(cases, impl, ans):
        if "error" in a:
            rep.correspondence_break(c, "driver rejected the case: " + a["error"])
            continue
        if not a["wf"]:
            rep.count("skipped:not-wellformed")
            continue
        if not P.checks_typed(c):
            rep.count("skipped:check-of-another-kind-than-the-column")
            continue
        if a.get("outOfScope"):
            # an ordering/string check on an empty or all-null column of another kind: pandas raises for the
            # column as a whole, the element-wise model has no element to look at (DESIGN.md §8)
            rep.count("skipped:ill-typed-check-on-vacuous-column")
            continue
        rep.count(f"eager:{o['eager']}/lazy:{o['lazy']}")
        nerr = len(o.get("lazy_errs", []))
        rep.count("lazy_errors:%s" % (nerr if nerr < 4 else "4+"))
        rep.case(c, nontrivial=nerr >= 1)
        if "crash" in (o["eager"], o["lazy"]):
            # an internal exception: C06's business; here only recorded
            rep.count("crash:" + (o.get("eager_exc") or o.get("lazy_exc") or "")[:40])
            continue
        eager_raises = o["eager"] == "error"
        lazy_raises = o["lazy"] == "errors"
        if eager_raises != lazy_raises:
            rep.property_failure(c, f"eager raises={eager_raises} but lazy raises={lazy_raises}", detail=o)
            continue
        if not lazy_raises:
            if a["errors"] and not a["inK"]:
                rep.correspondence_break(c, "model reports errors, implementation accepts", detail=a["errors"][:2])
            continue
        lazy_keys = Counter(key(e) for e in o["lazy_errs"])
        if key(o["eager_err"]) not in lazy_keys:
            # tolerate a differing cell list only when the reason/ctx/label/check agree
            core = lambda e: (e["reason"], e["ctx"], e["label"], e["checkIx"])
            if core(o["eager_err"]) not in {core(e) for e in o["lazy_errs"]}:
                rep.property_failure(c, "the eager error is not among the errors the lazy run collected",
                                     detail={"eager": o["eager_err"], "lazy": o["lazy_errs"]})
                continue
        counts = Counter(e["reason"] for e in o["lazy_errs"])
        impl_counts = {P.REASON.get(k, k): v for k, v in o["error_counts"].items()}
        if dict(counts) != impl_counts:
            rep.property_failure(c, "error_counts differ from the number of collected errors per reason",
                                 detail={"counts": impl_counts, "errors": dict(counts)})
            continue
        if "report_exc" in o:
            rep.property_failure(c, "SchemaErrors.failure_cases could not be built: " + o["report_exc"], detail=o)
            continue
        if not P.well_typed(c):
            rep.count("cells-not-compared:ill-typed")
            continue
        model = Counter(key(e) for e in model_errors_canon(a["errors"], c["frame"]))
        if model != lazy_keys:
            only_model = list((model - lazy_keys).elements())[:3]
            only_impl = list((lazy_keys - model).elements())[:3]
            # which side is right?  the model's cells are proved equal to the violating cells
            # (Props/C02), so a difference is a property failure unless the model itself is off
            if only_null_duplicates_missing(model_errors_canon(a["errors"], c["frame"]), o["lazy_errs"]):
                rep.property_failure(c, "duplicate null values are missing from the reported failure cases",
                                     region="K_C02_nullDuplicates",
                                     detail={"only_model": only_model, "only_impl": only_impl})
            else:
                rep.property_failure(c, "the lazy report differs from the violating cells",
                                     detail={"only_model": only_model, "only_impl": only_impl})
    return rep.finish(
        rule="C01's generator biased to several simultaneous violations; every case is validated eagerly and lazily; "
             "distinct by JSON; non-trivial = the lazy run collected at least one error",
        level_note=["cell-level comparison only for well-typed cases (declared dtype = physical dtype); for ill-typed "
                    "cases only raise/raise agreement, membership of the eager error and error_counts are compared"],
    )

"""Entry point: ./check Cxx [--tier quick|thorough] [--replay file]"""
from __future__ import annotations

import argparse
import importlib
import os
import sys
import traceback


def main():
    ap = argparse.ArgumentParser()
    ap.add_argument("prop")
    ap.add_argument("--tier", default=os.environ.get("VERIF_TIER", "quick"), choices=["quick", "thorough"])
    ap.add_argument("--replay", default=None)
    a = ap.parse_args()
    prop = a.prop.upper()
    os.environ["VERIF_TIER_ACTIVE"] = a.tier
    try:
        mod = importlib.import_module(f"harness.{prop.lower()}")
    except ImportError:
        traceback.print_exc()
        print(f"no harness for {prop}", file=sys.stderr)
        sys.exit(2)
    try:
        rc = mod.run(a.tier, a.replay)
    except SystemExit:
        raise
    except Exception:  # infrastructure failure: never exit 1
        traceback.print_exc()
        sys.exit(2)
    sys.exit(rc)


if __name__ == "__main__":
    main()

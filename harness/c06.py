"""C06 — errors use the documented channel; failures leave no trace (exception safety)."""
from __future__ import annotations

import copy
import itertools
import json
import traceback
import warnings

import numpy as np
import pandas as pd

from . import absdata as A
from . import pipeline as P
from . import c03, c05
from .common import Report, audit, corpus_cases, rng_for
from .regen import regenerate

PROP = "C06"
MODULES = ["PanderaModel.Props.C06"]


class Marker(Exception):
    pass


class Faults:
    """counts invocations of user callbacks and raises at the k-th one"""

    def __init__(self):
        self.n = 0
        self.at = None
        self.kinds = []
        self.exc_kind = "Marker"

    def hit(self, kind):
        self.n += 1
        self.kinds.append(kind)
        if self.at is not None and self.n == self.at:
            msg = f"injected at callback #{self.n} ({kind})"
            if self.exc_kind == "SchemaError":
                # a callback that validates with another schema raises pandera's own error class
                import pandera as pa
                raise pa.errors.SchemaError(schema=None, data=None, message=msg)
            if self.exc_kind == "SchemaErrors":
                import pandera as pa
                try:
                    pa.DataFrameSchema({"zz": pa.Column(int)}).validate(pd.DataFrame({"yy": [1]}), lazy=True)
                except pa.errors.SchemaErrors as e:
                    raise e
            if self.exc_kind == "IndexError":
                raise IndexError("list index out of range")
            if self.exc_kind == "KeyError":
                raise KeyError("index")
            if self.exc_kind == "NoArgs":
                raise Marker()              # an exception without arguments (a bare `assert`, `raise ValueError`)
            raise Marker(msg)


# ---- pandas schemas with user callbacks --------------------------------------------------

def build_pandas(c, F, rng_seed):
    import pandera as pa
    S = c["schema"]
    cols = {}
    for i, spec in enumerate(S["columns"]):
        checks = [A.check_of(cs) for cs in spec["checks"]]
        kind = c["callbacks"][i]
        if kind == "elem":
            checks.append(pa.Check(lambda x, F=F: (F.hit("check-elem"), True)[1], element_wise=True))
        elif kind == "vec":
            checks.append(pa.Check(lambda s, F=F: (F.hit("check-vec"), s == s)[1]))
        elif kind == "agg":
            checks.append(pa.Check(lambda s, F=F: (F.hit("check-agg"), True)[1]))
        elif kind == "agg-false":
            checks.append(pa.Check(lambda s, F=F: (F.hit("check-agg-false"), False)[1]))
        elif kind == "groupby":
            # the function receives the dict of groups of another column (named, or through a callable)
            others = [sp["name"] for j, sp in enumerate(S["columns"]) if j != i and sp["regex"] is None
                      and any(fc["name"] == sp["name"] for fc in c["frame"]["cols"])]
            if others:
                key = others[0]
                gb = key if (c.get("groupby_callable") is not True) else (lambda df, key=key: df.groupby(key))
                checks.append(pa.Check(lambda d, F=F: (F.hit("check-groupby"), True)[1], groupby=gb))
        parsers = []
        if c["parsers"][i]:
            parsers.append(pa.Parser(lambda s, F=F: (F.hit("parser"), s)[1]))
        name = spec["name"]
        if spec["regex"] is not None:
            name = A.pat_render(spec["regex"])
        kw = A.component_kwargs(spec)
        kw["checks"] = checks
        cols[name] = pa.Column(name=name, regex=spec["regex"] is not None, required=spec["required"],
                               parsers=parsers or None, **kw)
    frame_checks = []
    if c["frame_callback"] == "frame":
        frame_checks.append(pa.Check(lambda df, F=F: (F.hit("check-frame"), True)[1]))
    elif c["frame_callback"] == "groupby" and S["columns"]:
        pass
    strict = {"no": False, "yes": True, "filter": "filter"}[S["strict"]]
    return pa.DataFrameSchema(columns=cols, checks=frame_checks or None,
                              index=A.index_schema_of(S["index"]) if S["index"] is not None else None,
                              strict=strict, ordered=S["ordered"], coerce=S["coerce"],
                              add_missing_columns=S["addMissing"], drop_invalid_rows=S["dropInvalid"],
                              parsers=[pa.Parser(lambda df, F=F: (F.hit("parser-frame"), df)[1])] if c["frame_parser"] else None)


def gen_fault_case(rng):
    c = c03.gen_case(rng, drop_rate=0.15)
    S = c["schema"]
    S["unique"] = []
    n = len(S["columns"])
    c["callbacks"] = [rng.choice([None, "elem", "vec", "agg", "groupby", "agg-false"]) for _ in range(n)]
    c["groupby_callable"] = rng.random() < 0.3
    c["parsers"] = [rng.random() < 0.2 for _ in range(n)]
    c["frame_callback"] = rng.choice([None, "frame"])
    c["frame_parser"] = rng.random() < 0.15
    c["lazy"] = True if S["dropInvalid"] else rng.random() < 0.5
    c["entry"] = "Column" if rng.random() < 0.25 else "DataFrameSchema"
    return c


def snapshot_df(df):
    return (df.copy(deep=True), list(df.columns), df.index.copy(), [str(t) for t in df.dtypes])


def same_df(df, snap):
    d0, cols, idx, dts = snap
    try:
        return (list(df.columns) == cols and df.index.equals(idx) and [str(t) for t in df.dtypes] == dts
                and df.equals(d0) and list(df.index.names) == list(idx.names))
    except Exception:  # noqa: BLE001
        return False


def classify(exc):
    import pandera as pa
    if exc is None:
        return "return"
    if isinstance(exc, pa.errors.SchemaErrors):
        return "SchemaErrors"
    if isinstance(exc, pa.errors.SchemaError):
        return "SchemaError"
    if isinstance(exc, (pa.errors.SchemaDefinitionError, pa.errors.SchemaInitError)):
        return "usage:" + type(exc).__name__
    if isinstance(exc, Marker):
        return "Marker"
    return "leak:" + type(exc).__name__


def leak_site(exc):
    tb = traceback.extract_tb(exc.__traceback__)
    sites = [f for f in tb if "/pandera/" in f.filename]
    s = sites[-1] if sites else tb[-1]
    return f"{s.filename.split('/pandera/')[-1]}:{s.name}"


LEAK_REGIONS = [
    # (exception class, site substring, region)
    ("ValueError", "reshape_failure_cases", "K_C06_duplicateLabelsReshape"),
    ("NotImplementedError", "failure_cases_metadata", "K_C06_polarsLazyFailureCases"),
    ("ColumnNotFoundError", "", "K_C06_polarsMissingColumn"),
    ("AttributeError", "_coerce_dtype_helper", "K_C06_polarsNoDtype"),
    ("AttributeError", "add_missing_columns", "K_C06_polarsNoDtype"),
    ("AttributeError", "subsample", "K_C20_polarsSampleCrash"),
]


def leak_region(exc):
    name, site = type(exc).__name__, leak_site(exc)
    for n, s, r in LEAK_REGIONS:
        if n == name and s in site:
            return r
    return None


def run_one(c, at=None, exc_kind="Marker"):
    from pandera.config import get_config_context
    F = Faults()
    F.at = at
    F.exc_kind = exc_kind
    schema = build_pandas(c, F, 0)
    if c.get("entry") == "Column":
        # one column of the schema validated on its own (it keeps its callbacks, default, coercion)
        names = [n_ for n_, col_ in schema.columns.items() if not col_.regex and n_ in {x["name"] for x in c["frame"]["cols"]}]
        if names:
            schema = schema.columns[names[0]]
    df = A.frame_of(c["frame"])
    snap = snapshot_df(df)
    fp0 = c05.fp(schema)
    cfg0 = get_config_context(validation_depth_default=None)
    exc = None
    with warnings.catch_warnings():
        warnings.simplefilter("ignore")
        try:
            schema.validate(df, lazy=c["lazy"])
        except Exception as e:  # noqa: BLE001
            exc = e
    return {"outcome": classify(exc), "exc": exc, "calls": F.n, "kinds": list(F.kinds),
            "schema_same": c05.fp(schema) == fp0,
            "schema_diff": None if c05.fp(schema) == fp0 else c05.diff_paths(json.loads(fp0), json.loads(c05.fp(schema))),
            "config_same": get_config_context(validation_depth_default=None) == cfg0,
            "data_same": same_df(df, snap)}


def run_faults(rep, cases):
    for c in cases:
        try:
            base = run_one(c, None)
        except Exception as e:  # noqa: BLE001
            rep.count("harness-exception:" + type(e).__name__)
            continue
        ncalls = base["calls"]
        rep.count("faultfree:" + base["outcome"].split(":")[0])
        rep.case({k: c.get(k) for k in ("schema", "frame", "callbacks", "parsers", "frame_callback", "frame_parser", "lazy", "entry")},
                 nontrivial=ncalls > 0)
        judge(rep, c, None, base)
        for k in range(1, ncalls + 1):
            try:
                r = run_one(c, k)
            except Exception as e:  # noqa: BLE001
                rep.count("harness-exception:" + type(e).__name__)
                continue
            rep.evaluations += 1
            kind = r["kinds"][k - 1] if len(r["kinds"]) >= k else "?"
            rep.count("fault@" + kind + ":" + r["outcome"].split(":")[0])
            judge(rep, c, k, r, kind)
            if kind.startswith("check"):
                # the same fault raised as pandera's own error classes (a check that validates with another schema)
                for ek in ("SchemaError", "SchemaErrors", "IndexError", "KeyError", "NoArgs"):
                    try:
                        r = run_one(c, k, ek)
                    except Exception as e:  # noqa: BLE001
                        rep.count("harness-exception:" + type(e).__name__)
                        continue
                    rep.evaluations += 1
                    rep.count(f"fault[{ek}]@" + kind + ":" + r["outcome"].split(":")[0])
                    judge(rep, c, k, r, kind, ek)


def judge(rep, c, k, r, kind=None, exc_kind="Marker"):
    case = {kk: c.get(kk) for kk in ("schema", "frame", "callbacks", "parsers", "frame_callback", "frame_parser", "lazy",
                                     "groupby_callable", "entry")}
    case["fault_at"] = k
    case["fault_class"] = exc_kind
    o = r["outcome"]
    if o.startswith("leak:"):
        rep.property_failure(case, f"internal exception escapes validate: {type(r['exc']).__name__}: "
                                   f"{str(r['exc'])[:100]} at {leak_site(r['exc'])}", region=leak_region(r["exc"]))
        return
    if k is not None and kind is not None and kind.startswith("check") and o == "Marker":
        rep.property_failure(case, f"an exception raised by a user check ({kind}, call #{k}) escaped instead of being "
                                   "reported as a failed check")
        return
    if kind == "check-agg-false":
        kind = "checkfalse"     # this callback never raises by itself; only the generic clauses below apply
    if k is not None and kind is not None and kind.startswith("check") and o == "return":
        rep.property_failure(case, f"a user check raised ({kind}, call #{k}) but validation returned normally")
        return
    if not r["schema_same"]:
        rep.property_failure(case, f"the schema is not as before the call (outcome {o}): {r['schema_diff']}")
        return
    if not r["config_same"]:
        rep.property_failure(case, f"the configuration context is not as before the call (outcome {o})")
        return
    if not r["data_same"]:
        rep.property_failure(case, f"the caller's data was modified (outcome {o})", region=None)


def run_multiindex_faults(rep):
    """MultiIndex components whose data levels carry other (also repeated) names than the schema's keys, coercing or not,
    stand-alone and inside a DataFrameSchema: a fault at every callback invocation, and no fault at all — the schema is as
    before, the configuration is as before, the error (if any) is a schema error"""
    import pandera as pa
    from pandera.config import get_config_context
    for names, level_names, coerce, inside, lazy in itertools.product(
            ([None, None], ["i", "j"]), (["k", "k"], ["i", "j"], [None, None], ["j", "i"]), (False, True), (False, True),
            (False, True)):
        F = Faults()
        mk = lambda F=F: pa.MultiIndex([  # noqa: E731
            pa.Index(int, pa.Check(lambda s_, F=F: (F.hit("check-vec"), s_ == s_)[1]), name=names[0]),
            pa.Index(str, pa.Check(lambda x, F=F: (F.hit("check-elem"), True)[1], element_wise=True), name=names[1])], coerce=coerce)
        frame = pd.DataFrame({"v": [1, 2]}, index=pd.MultiIndex.from_arrays([[1, 2], ["x", "y"]], names=level_names))
        # fault-free run first (counts the callbacks), then one run per callback
        k = None
        ncalls = None
        while True:
            F.n, F.kinds, F.at = 0, [], k
            schema = pa.DataFrameSchema({"v": pa.Column(int)}, index=mk()) if inside else mk()
            fp0 = c05.fp(schema)
            cfg0 = get_config_context(validation_depth_default=None)
            exc = None
            with warnings.catch_warnings():
                warnings.simplefilter("ignore")
                try:
                    schema.validate(frame.copy(), lazy=lazy)
                except Exception as e:  # noqa: BLE001
                    exc = e
            case = {"entry": "MultiIndex" + ("-in-frame" if inside else ""), "schema_names": names, "level_names": level_names,
                    "coerce": coerce, "lazy": lazy, "fault_at": k}
            rep.case(case, nontrivial=k is not None)
            rep.evaluations += 1
            o = classify(exc)
            rep.count(f"multiindex-fault:{'fault' if k else 'faultfree'}:{o.split(':')[0]}")
            if o.startswith("leak:") or o == "Marker":
                rep.property_failure(case, f"MultiIndex validation: {type(exc).__name__} escapes validate: {str(exc)[:100]}",
                                     region=leak_region(exc) if o.startswith("leak:") else None)
            elif c05.fp(schema) != fp0:
                rep.property_failure(case, f"MultiIndex validation changed the schema (outcome {o}): "
                                           f"{c05.diff_paths(json.loads(fp0), json.loads(c05.fp(schema)))}")
            elif get_config_context(validation_depth_default=None) != cfg0:
                rep.property_failure(case, f"MultiIndex validation left the configuration context changed (outcome {o})")
            if ncalls is None:
                ncalls = F.n
                k = 0
            k += 1
            if k > ncalls:
                break


# ---- fault-free leak scan, pandas and polars ------------------------------------------------

def run_leak_scan(rep, rng, n):
    import pandera as pa
    for i in range(n):
        c = c03.gen_case(rng) if i % 2 else P.gen_case(rng, allow_dup_labels=True)
        for lazy in (False, True):
            if c["schema"]["dropInvalid"] and not lazy:
                continue
            k, o = P.run_validate(A.schema_of(c["schema"]), A.frame_of(c["frame"]), lazy=lazy)
            rep.evaluations += 1
            rep.count("scan:pandas:" + k)
            if k == "crash":
                case = {"schema": c["schema"], "frame": c["frame"], "lazy": lazy, "backend": "pandas"}
                rep.property_failure(case, f"internal exception escapes validate: {type(o).__name__}: {str(o)[:100]} "
                                           f"at {leak_site(o)}", region=leak_region(o))
    # a non-dataframe argument is a documented TypeError
    try:
        pa.DataFrameSchema({"a": pa.Column(int)}).validate([1, 2, 3])
        rep.property_failure({"arg": "list"}, "a non-dataframe argument did not raise")
    except (TypeError, pa.errors.BackendNotFoundError) as e:
        rep.count("non-dataframe:" + type(e).__name__)
    except Exception as e:  # noqa: BLE001
        rep.property_failure({"arg": "list"}, f"a non-dataframe argument raised {type(e).__name__}")


def run_polars_scan(rep, rng, n):
    try:
        import polars as pl  # noqa: F401
        import pandera.polars as pap
        from . import polars_abs as PA
    except Exception:  # noqa: BLE001
        rep.count("polars:unavailable")
        return
    from pandera.config import get_config_context
    # the recorded crash of `sample=` on the polars backend (K_C20_polarsSampleCrash), demonstrated on every run
    from pandera.config import reset_config_context
    reset_config_context()
    cfg_before = get_config_context(validation_depth_default=None)
    try:
        pap.DataFrameSchema({"a": pap.Column(int)}).validate(pl.DataFrame({"a": [1, 2, 3]}), sample=1)
        rep.count("scan:polars:sample:ok")
    except (pap.errors.SchemaError, pap.errors.SchemaErrors):
        rep.count("scan:polars:sample:schema-error")
    except Exception as e:  # noqa: BLE001
        rep.property_failure({"backend": "polars", "call": "validate(sample=1)"},
                             f"polars: internal exception escapes validate: {type(e).__name__}: {str(e)[:80]} at {leak_site(e)}",
                             region=leak_region(e))
    if get_config_context(validation_depth_default=None) != cfg_before:
        rep.property_failure({"backend": "polars", "call": "validate(sample=1)"},
                             "polars: the configuration context is not as before the call (an internal exception left it)")
        from pandera.config import reset_config_context
        reset_config_context(cfg_before)
    for i in range(n):
        c = c03.gen_case(rng, drop_rate=0.2) if i % 2 else P.gen_case(rng)
        S, D = c["schema"], c["frame"]
        if any(s["regex"] is not None for s in S["columns"]):
            continue
        S["index"] = None
        try:
            df = PA.frame_of(D)
            schema = PA.schema_of(S, coerce=S["coerce"], add_missing_columns=S["addMissing"],
                                  drop_invalid_rows=S["dropInvalid"])
        except Exception:  # noqa: BLE001
            rep.count("polars:unbuildable")
            continue
        for lazy in (False, True):
            for obj in (df, df.lazy()):
                if S["dropInvalid"] and not lazy:
                    continue
                # every call starts from the pristine context (a leaked override is sticky: the polars entry points read
                # their depth from the context they are called in, so after one leak later calls would look unchanged)
                from pandera.config import reset_config_context
                reset_config_context()
                cfg0 = get_config_context(validation_depth_default=None)
                exc = None
                with warnings.catch_warnings():
                    warnings.simplefilter("ignore")
                    try:
                        schema.validate(obj, lazy=lazy)
                    except Exception as e:  # noqa: BLE001
                        exc = e
                o = classify(exc)
                rep.evaluations += 1
                rep.count("scan:polars:" + o.split(":")[0])
                case = {"schema": S, "frame": D, "lazy": lazy, "backend": "polars", "container": type(obj).__name__}
                if o.startswith("leak:"):
                    rep.property_failure(case, f"polars: internal exception escapes validate: {type(exc).__name__}: "
                                               f"{str(exc)[:80]} at {leak_site(exc)}", region=leak_region(exc))
                # (whatever the outcome, also an internal exception of a recorded region)
                if get_config_context(validation_depth_default=None) != cfg0:
                    rep.property_failure(case, f"polars: the configuration context is not as before the call (outcome {o})")
                    from pandera.config import reset_config_context
                    reset_config_context(cfg0)      # keep later cases independent of this one


def replay_scan_case(rep, case):
    rep.case(case)
    if case.get("backend") == "pandas":
        k, o = P.run_validate(A.schema_of(case["schema"]), A.frame_of(case["frame"]), lazy=case["lazy"])
        if k == "crash":
            rep.property_failure(case, f"internal exception escapes validate: {type(o).__name__}: {str(o)[:100]} "
                                       f"at {leak_site(o)}", region=leak_region(o))
        return
    try:
        import pandera.polars as pap
        from . import polars_abs as PA
    except Exception:  # noqa: BLE001
        return
    S = case["schema"]
    df = PA.frame_of(case["frame"])
    schema = PA.schema_of(S, coerce=S["coerce"], add_missing_columns=S["addMissing"], drop_invalid_rows=S["dropInvalid"])
    obj = df.lazy() if case.get("container") == "LazyFrame" else df
    exc = None
    with warnings.catch_warnings():
        warnings.simplefilter("ignore")
        try:
            schema.validate(obj, lazy=case["lazy"])
        except Exception as e:  # noqa: BLE001
            exc = e
    if classify(exc).startswith("leak:"):
        rep.property_failure(case, f"polars: internal exception escapes validate: {type(exc).__name__}: "
                                   f"{str(exc)[:80]} at {leak_site(exc)}", region=leak_region(exc))


def run(tier, replay=None):
    rep = Report(PROP, tier)
    regenerate(("skeletons", "scopemap", "builtin"))
    rep.audit = audit(PROP, MODULES)
    rep.audit["modules"] = MODULES
    rng = rng_for(PROP)
    if replay:
        case = json.loads(open(replay).read())["case"]
        if str(case.get("entry", "")).startswith("MultiIndex"):
            run_multiindex_faults(rep)
        elif "callbacks" in case:
            r = run_one(case, case.get("fault_at"), case.get("fault_class", "Marker"))
            kind = r["kinds"][case["fault_at"] - 1] if case.get("fault_at") and len(r["kinds"]) >= case["fault_at"] else None
            judge(rep, case, case.get("fault_at"), r, kind, case.get("fault_class", "Marker"))
        else:
            replay_scan_case(rep, case)
        return rep.finish(rule="replay")
    n = 150 if tier == "quick" else 3000
    run_faults(rep, [c for c in corpus_cases(PROP) if "callbacks" in c] + [gen_fault_case(rng) for _ in range(n)])
    for case in corpus_cases(PROP):
        if "callbacks" not in case:
            replay_scan_case(rep, case)
    run_multiindex_faults(rep)
    run_leak_scan(rep, rng, 4 * n)
    run_polars_scan(rep, rng, 2 * n)
    return rep.finish(
        rule="(1) fault injection: schemas from C03's generator with user callbacks (element-wise / vectorised / aggregate "
             "checks, column and frame parsers, frame checks); a fault-free run counts the callback invocations, then "
             "every k-th invocation raises once (exhaustive over fault positions per case); outcome class, schema "
             "fingerprint, configuration context and input snapshot are compared. (2) fault-free scan of C01/C03 cases, "
             "eager and lazy, pandas and polars (DataFrame and LazyFrame), for exception classes outside the documented "
             "channel. non-trivial = at least one callback invocation",
        level_note=["a raising parser function propagates as the user's own exception (no handler exists); only the "
                    "restoration of state is claimed for it"],
    )

"""C11 — drop_invalid_rows removes exactly the rows that violate a row-level constraint."""
from __future__ import annotations

import json
import warnings

import pandas as pd

from . import absdata as A
from . import pipeline as P
from . import c03
from .common import Report, audit, corpus_cases, rng_for, run_driver
from .regen import regenerate

PROP = "C11"
MODULES = ["PanderaModel.Props.C11"]


def gen_case(rng):
    c = c03.gen_case(rng, drop_rate=1.0)
    S, D = c["schema"], c["frame"]
    S["dropInvalid"] = True
    c03.unique_labels(D)     # C11 quantifies over frames with a unique index
    # components written for stand-alone use carry the flag themselves; inside the dataframe schema that changes nothing
    for sp in S["columns"] + ([S["index"]] if S["index"] is not None else []):
        if rng.random() < 0.25:
            sp["componentDrop"] = True
    # a slice / chunk of a larger frame: a RangeIndex that does not start at 0 or has a step
    if rng.random() < 0.3 and len(D["index"]) == 1 and D["index"][0]["dtype"] == "int64":
        start, step = rng.choice([(1, 1), (3, 1), (0, 2), (2, 3), (5, 1)])
        D["index"] = [dict(D["index"][0], vals=[A.vint(start + i * step) for i in range(D["nrows"])])]
        c["rangeIndex"] = [start, step]
    # one column failing nullability and uniqueness in the same validation
    if rng.random() < 0.25 and D["nrows"] >= 3:
        by = {col["name"]: col for col in D["cols"]}
        cand = [sp for sp in S["columns"] if sp["regex"] is None and sp["name"] in by and sp["dtype"] == by[sp["name"]]["dtype"]
                and A.can_null(sp["dtype"]) and not sp["coerce"] and not S["coerce"]]
        if cand:
            sp = rng.choice(cand)
            sp["unique"], sp["nullable"] = True, False
            vals = by[sp["name"]]["vals"]
            i, j, k = rng.sample(range(D["nrows"]), 3)
            vals[i] = A.NULL
            if vals[j] == A.NULL:
                vals[j] = rng.choice(A.POOL[sp["dtype"]])
            vals[k] = vals[j]
    return c


def real_frame(c):
    df = A.frame_of(c["frame"])
    if c.get("rangeIndex") and len(df):
        start, step = c["rangeIndex"]
        df.index = pd.RangeIndex(start, start + step * len(df), step, name=df.index.name)
    return df


def label_key(x):
    return str(x)


def run_cases(rep, cases):
    ans = run_driver("C11", [{"schema": c["schema"], "frame": c["frame"]} for c in cases])
    for c, a in zip(cases, ans):
        if "error" in a:
            rep.correspondence_break(c, "driver: " + a["error"])
            continue
        if not a["wf"]:
            rep.count("skipped:not-wellformed")
            continue
        S, D = c["schema"], c["frame"]
        df = real_frame(c)
        # hidden position of every input row, recovered through the (unique) labels
        pos_of = {label_key(A.to_py(v)): i for i, v in enumerate(D["index"][0]["vals"])}
        kind, out = P.run_validate(A.schema_of(S), df.copy(), lazy=True)
        rep.count("impl:" + kind)
        model_kind = a["out"]["kind"]
        rep.case(c, nontrivial=kind == "ok" and len(out) < len(df))
        if a["parseCrash"]:
            # the model predicts an internal exception inside a parser (C06's subject, recorded there)
            rep.count("parser-crash-predicted")
            continue
        if not P.well_typed({"schema": S, "frame": dict(a["parsed"], nrows=D["nrows"])}):
            # a check applied to values of another kind than it was written for (e.g. through a regex column):
            # pandas raises per column, the element-wise model cannot say when; C01/C02 cover the verdict
            rep.count("skipped:ill-typed-after-parsing")
            continue
        if a["nonRowErrors"]:
            # violations not attributable to rows must still be raised
            rep.count("non-row-errors")
            if kind == "errors":
                continue
            if kind == "crash":
                rep.property_failure(c, f"a violation that is not attributable to rows is not raised as SchemaErrors: "
                                        f"{type(out).__name__}: {str(out)[:80]}",
                                     region="K_C11_nonRowErrorNotRaised")
            elif model_kind != "ok":
                rep.property_failure(c, "a violation that is not attributable to rows was swallowed: validate returned",
                                     region="K_C11_nonRowErrorNotRaised")
            continue
        if kind != "ok":
            if kind == "crash":
                rep.property_failure(c, f"drop_invalid_rows crashed on row-level errors only: {type(out).__name__}: "
                                        f"{str(out)[:100]}", region=None)
            elif model_kind == "ok":
                rep.correspondence_break(c, "implementation raises, model returns", detail={
                    "reasons": [e.reason_code.name for e in out.schema_errors][:5]})
            continue
        try:
            survivors = [pos_of[label_key(x)] for x in out.index.tolist()]
        except KeyError:
            # labels changed by index coercion: map through the coerced labels of the model's parsed frame
            parsed_labels = [label_key(A.to_py(v)) for v in a["parsed"]["index"][0]["vals"]]
            m = {k: i for i, k in enumerate(parsed_labels)}
            try:
                survivors = [m[label_key(x)] for x in out.index.tolist()]
            except KeyError:
                rep.correspondence_break(c, "cannot map surviving labels back to positions")
                continue
        expected = a["specKeep"]
        rep.count("dropped:%d" % min(len(df) - len(survivors), 4))
        if survivors != expected:
            missing = [i for i in expected if i not in survivors]
            extra = [i for i in survivors if i not in expected]
            rep.property_failure(
                c, f"surviving rows {survivors} differ from the rows satisfying every row-level constraint {expected}",
                region=region_of(c, a, missing, extra), detail={"valid_rows_dropped": missing, "invalid_rows_kept": extra})
            continue
        # values changed only by the requested coercion: equal to the model's parsed rows
        if model_kind == "ok":
            impl_fr = c03.safe_abs(out)
            if impl_fr is None or json.dumps(c03.strip_nrows(impl_fr), sort_keys=True) != \
                    json.dumps(c03.strip_nrows(a["out"]["frame"]), sort_keys=True):
                rep.correspondence_break(c, "values of the surviving rows differ from the model",
                                         detail={"impl": impl_fr, "model": a["out"]["frame"]})
        else:
            rep.correspondence_break(c, f"model says {model_kind}, implementation returns")


def region_of(c, a, missing, extra):
    """K_C11_indexErrorsByPosition: failure cases of Index checks carry positions, rows are dropped by label;
    K_C11_nullDuplicates: only rows whose duplicated value is null are wrongly kept"""
    P_ = a["parsed"]
    S = c["schema"]
    if S["index"] is not None:
        labels = [A.to_py(v) for v in P_["index"][0]["vals"]]
        if labels != list(range(len(labels))):
            # does the index schema flag any row?
            ixbad = index_bad_rows(S["index"], P_["index"][0])
            if ixbad and set(missing + extra) <= set(ixbad) | {labels.index(i) for i in ixbad if i in labels}:
                return "K_C11_indexErrorsByPosition"
    if missing or not extra:
        return None
    for i in extra:
        ok = False
        for col in P_["cols"] + P_["index"]:
            vals = col["vals"]
            if vals[i] == A.NULL and sum(1 for v in vals if v == A.NULL) >= 2:
                ok = True
        if S["unique"]:
            sub = [col["vals"] for col in P_["cols"] if col["name"] in S["unique"]]
            if any(v[i] == A.NULL for v in sub):
                ok = True
        if not ok:
            return None
    return "K_C11_nullDuplicates"


def index_bad_rows(ix, level):
    """positions flagged by the index schema (nullability, uniqueness, checks), evaluated with pandera itself"""
    import pandera as pa
    s = A.series_of(level["vals"], level["dtype"])
    spec = dict(ix, name=None, coerce=False, componentDrop=False)
    schema = A.series_schema_of(spec)
    try:
        with warnings.catch_warnings():
            warnings.simplefilter("ignore")
            schema.validate(s, lazy=True)
        return []
    except pa.errors.SchemaErrors as e:
        out = set()
        for err in e.schema_errors:
            fc = err.failure_cases
            if isinstance(fc, pd.DataFrame) and "index" in fc:
                out |= set(int(i) for i in fc["index"].tolist())
        return sorted(out)
    except Exception:  # noqa: BLE001
        return []


def run_polars(rep, rng, n):
    try:
        import polars as pl  # noqa: F401
        import pandera.polars as pap
        from . import polars_abs as PA
    except Exception:  # noqa: BLE001
        rep.count("polars:unavailable")
        return
    cases = []
    for _ in range(n):
        c = P.gen_case(rng, regex_rate=0.0, index_schema_rate=0.0, conform_bias=0.75, max_rows=5)
        S, D = c["schema"], c["frame"]
        S["index"] = None
        S["ordered"] = False
        S["strict"] = "no"
        S["unique"] = []
        S["dropInvalid"] = True
        for s in S["columns"]:
            s["reportDup"] = "none"
            for ck in s["checks"]:
                ck["ignoreNa"] = True      # (ignore_na=False on nulls is C08's recorded pandas/polars divergence)
        S["reportDup"] = "none"
        D["index"] = A.default_index(D["nrows"])
        # keep physical dtypes right: row-level problems only
        by = {col["name"]: col for col in D["cols"]}
        for s in S["columns"]:
            if s["name"] in by and s["dtype"] is not None and by[s["name"]]["dtype"] != s["dtype"]:
                s["dtype"] = by[s["name"]]["dtype"]
                s["checks"] = []
        if rng.random() < 0.3 and D["nrows"] >= 3 and D["cols"]:
            cand = [sp for sp in S["columns"] if sp["name"] in by and sp["dtype"] == by[sp["name"]]["dtype"]]
            if cand:
                sp = rng.choice(cand)
                sp["unique"], sp["nullable"] = True, False
                vals = by[sp["name"]]["vals"]
                i, j, k = rng.sample(range(D["nrows"]), 3)
                vals[i] = A.NULL
                if vals[j] == A.NULL:
                    vals[j] = rng.choice(A.POOL[sp["dtype"]])
                vals[k] = vals[j]
        if D["cols"]:
            cases.append(dict(c, backend="polars"))
    ans = run_driver("C11", [{"schema": c["schema"], "frame": c["frame"]} for c in cases])
    for c, a in zip(cases, ans):
        S, D = c["schema"], c["frame"]
        if "error" in a or not a["wf"] or a["nonRowErrors"] or not P.well_typed(c):
            continue
        try:
            df = PA.frame_of(D).with_row_index("__pos")
            schema = PA.schema_of(S, drop_invalid_rows=True)
        except Exception:  # noqa: BLE001
            rep.count("polars:unbuildable")
            continue
        with warnings.catch_warnings():
            warnings.simplefilter("ignore")
            try:
                out = schema.validate(df, lazy=True)
            except (pap.errors.SchemaErrors, pap.errors.SchemaError) as e:
                rep.count("polars:raised")
                continue
            except Exception as e:  # noqa: BLE001
                rep.count("polars:crash:" + type(e).__name__)
                continue
        survivors = out["__pos"].to_list()
        rep.case(c, nontrivial=len(survivors) < D["nrows"])
        rep.count("polars:ok")
        if survivors != a["specKeep"]:
            missing = [i for i in a["specKeep"] if i not in survivors]
            extra = [i for i in survivors if i not in a["specKeep"]]
            rep.property_failure(c, f"polars: surviving rows {survivors} differ from the valid rows {a['specKeep']}",
                                 region=polars_region(c, a, missing, extra),
                                 detail={"valid_rows_dropped": missing, "invalid_rows_kept": extra})


FIELD_KW = {"eq": lambda x: {"eq": A.to_py(x["v"])}, "ne": lambda x: {"ne": A.to_py(x["v"])},
            "gt": lambda x: {"gt": A.to_py(x["v"])}, "ge": lambda x: {"ge": A.to_py(x["v"])},
            "lt": lambda x: {"lt": A.to_py(x["v"])}, "le": lambda x: {"le": A.to_py(x["v"])},
            "inRange": lambda x: {"in_range": {"min_value": A.to_py(x["lo"]), "max_value": A.to_py(x["hi"]),
                                               "include_min": x["incLo"], "include_max": x["incHi"]}},
            "isin": lambda x: {"isin": [A.to_py(v) for v in x["vs"]]}, "notin": lambda x: {"notin": [A.to_py(v) for v in x["vs"]]},
            "strStartswith": lambda x: {"str_startswith": x["s"]}, "strEndswith": lambda x: {"str_endswith": x["s"]},
            "strLength": lambda x: {"str_length": {"min_value": x["lo"], "max_value": x["hi"]}},
            "strMatches": lambda x: {"str_matches": A.pat_render(x["p"])}, "strContains": lambda x: {"str_contains": A.pat_render(x["p"])}}
PYTYPE = {"int64": int, "float64": float, "str": str, "bool": bool}


def run_entries(rep, rng, n):
    """the other entry points the property names: a stand-alone Column, a SeriesSchema and a model whose Config sets
    drop_invalid_rows — one field, row-level violations only, survivors against the Lean specification"""
    import pandera as pa
    cases = []
    for _ in range(n):
        c = P.gen_case(rng, regex_rate=0.0, index_schema_rate=0.0, conform_bias=0.7, max_rows=6)
        S, D = c["schema"], c["frame"]
        specs = [sp for sp in S["columns"] if sp["dtype"] in PYTYPE and any(col["name"] == sp["name"] and col["dtype"] == sp["dtype"]
                                                                         for col in D["cols"])]
        if not specs or not D["nrows"]:
            continue
        sp = dict(rng.choice(specs), coerce=False, default=None, required=True)
        if rng.random() < 0.4:
            sp["unique"] = True
        sp["reportDup"] = rng.choice(["first", "last", "none", "none", "none"])
        for ck in sp["checks"]:
            ck["ignoreNa"] = True
        col = dict(next(col for col in D["cols"] if col["name"] == sp["name"]))
        col["vals"] = list(col["vals"])
        if A.can_null(sp["dtype"]) and rng.random() < 0.4:
            col["vals"][rng.randrange(D["nrows"])] = A.NULL
        labels = rng.sample(range(10, 40), D["nrows"])
        fr = {"cols": [col], "index": [{"name": None, "dtype": "int64", "vals": [A.vint(i) for i in labels]}], "nrows": D["nrows"]}
        sch = {"columns": [sp], "index": None, "strict": "no", "ordered": False, "unique": [], "reportDup": "first",
               "coerce": False, "addMissing": False, "dropInvalid": True}
        cases.append({"schema": sch, "frame": fr, "entries": True})
    ans = run_driver("C11", [{"schema": c["schema"], "frame": c["frame"]} for c in cases])
    for c, a in zip(cases, ans):
        if "error" in a or not a["wf"] or a["nonRowErrors"] or a["parseCrash"] or not P.well_typed(c):
            continue
        sp, fr = c["schema"]["columns"][0], c["frame"]
        df = A.frame_of(fr)
        labels = df.index.tolist()
        kw = A.component_kwargs(sp)
        entries = {
            "Column": lambda: pa.Column(name=sp["name"], drop_invalid_rows=True, **kw).validate(df.copy(), lazy=True),
            "SeriesSchema": lambda: pa.SeriesSchema(name=sp["name"], drop_invalid_rows=True, **kw).validate(df[sp["name"]].copy(), lazy=True),
        }
        if sp["reportDup"] == "none" and all(next(iter(ck["b"])) in FIELD_KW for ck in sp["checks"]) and len({next(iter(ck["b"])) for ck in sp["checks"]}) == len(sp["checks"]):
            fkw = {}
            for ck in sp["checks"]:
                k = next(iter(ck["b"]))
                fkw.update(FIELD_KW[k](ck["b"][k]))

            def model_entry():
                M = type("M", (pa.DataFrameModel,), {
                    "__annotations__": {sp["name"]: PYTYPE[sp["dtype"]]},
                    sp["name"]: pa.Field(nullable=sp["nullable"], unique=sp["unique"], **fkw),
                    "Config": type("Config", (), {"drop_invalid_rows": True})})
                return M.validate(df.copy(), lazy=True)
            entries["model Config"] = model_entry
        for entry, fn in entries.items():
            case = dict(c, entry=entry)
            with warnings.catch_warnings():
                warnings.simplefilter("ignore")
                try:
                    out = fn()
                except (pa.errors.SchemaErrors, pa.errors.SchemaError) as e:
                    rep.count(f"entry:{entry}:raised")
                    rep.property_failure(case, f"{entry} with drop_invalid_rows raised on row-level violations only: "
                                               f"{type(e).__name__}", region=entry_region(c, a, [], []))
                    continue
                except Exception as e:  # noqa: BLE001
                    rep.count(f"entry:{entry}:crash:{type(e).__name__}")
                    rep.property_failure(case, f"{entry} with drop_invalid_rows crashed: {type(e).__name__}: {str(e)[:80]}")
                    continue
            survivors = [labels.index(x) for x in out.index.tolist()]
            rep.case(case, nontrivial=len(survivors) < len(labels))
            rep.evaluations += 1
            rep.count(f"entry:{entry}:ok")
            if survivors != a["specKeep"]:
                missing = [i for i in a["specKeep"] if i not in survivors]
                extra = [i for i in survivors if i not in a["specKeep"]]
                rep.property_failure(case, f"{entry}: surviving rows {survivors} differ from the rows satisfying every row-level "
                                           f"constraint {a['specKeep']}", region=entry_region(c, a, missing, extra),
                                     detail={"valid_rows_dropped": missing, "invalid_rows_kept": extra})


def extension_sweep(rep):
    """nullable extension dtypes: a missing value in a non-nullable column is a row-level violation like any other"""
    import pandera as pa
    for dt, vals in (("Int64", [1, None, 3, None]), ("Int8", [None, 2, 3]), ("UInt16", [1, 2, None]),
                     ("boolean", [True, None, False]), ("Float64", [1.5, None]), ("string", ["x", None, "y"]),
                     ("float64", [1.0, float("nan"), 2.0]), ("int64[pyarrow]", [1, None])):
        try:
            ser = pd.Series(vals, dtype=dt, name="a", index=[f"r{i}" for i in range(len(vals))])
        except Exception:  # noqa: BLE001
            continue
        want = [i for i, v in enumerate(ser.isna().tolist()) if not v]
        df = pd.DataFrame({"a": ser})
        entries = {
            "DataFrameSchema": lambda: pa.DataFrameSchema({"a": pa.Column(None)}, drop_invalid_rows=True).validate(df.copy(), lazy=True),
            "Column": lambda: pa.Column(None, name="a", drop_invalid_rows=True).validate(df.copy(), lazy=True),
            "SeriesSchema": lambda: pa.SeriesSchema(None, name="a", drop_invalid_rows=True).validate(ser.copy(), lazy=True),
        }
        for entry, fn in entries.items():
            case = {"entries": True, "extension": dt, "entry": entry}
            with warnings.catch_warnings():
                warnings.simplefilter("ignore")
                try:
                    out = fn()
                except Exception as e:  # noqa: BLE001
                    rep.count(f"extension:{entry}:{type(e).__name__}")
                    rep.property_failure(case, f"{entry} over {dt} with a missing value and drop_invalid_rows raised "
                                               f"{type(e).__name__}: {str(e)[:80]}")
                    continue
            got = [ser.index.tolist().index(x) for x in out.index.tolist()]
            rep.evaluations += 1
            rep.count(f"extension:{entry}:ok")
            if got != want:
                rep.property_failure(case, f"{entry} over {dt}: surviving rows {got}, the rows without a missing value are {want}")


def frame_check_sweep(rep, rng, n):
    """constraints whose failure cases are whole rows (a dataframe-level check returning one boolean per row) and
    element-wise checks that are shown the nulls (`ignore_na=False`): the violating rows are dropped whatever the other
    columns hold (nulls in particular), on any unique index"""
    import numpy as np
    import pandera as pa
    for _ in range(n):
        m = rng.randint(1, 6)
        v = [rng.choice([-1.0, 1.0, 2.0, np.nan]) for _ in range(m)]
        w = [rng.choice([5.0, np.nan, np.nan, 7.0]) for _ in range(m)]
        labels = rng.choice([list(range(m)), [f"r{i}" for i in range(m)], rng.sample(range(10, 40), m)])
        df = pd.DataFrame({"v": v, "w": w}, index=labels)
        kind = rng.choice(["frame-rowwise", "frame-rowwise", "elementwise-not-ignoring-na", "vectorised-not-ignoring-na"])
        if kind == "frame-rowwise":
            schema = pa.DataFrameSchema({"v": pa.Column(float, nullable=True), "w": pa.Column(float, nullable=True)},
                                        checks=pa.Check(lambda d: d["v"].fillna(1) > 0), drop_invalid_rows=True)
            want = [i for i, x in enumerate(v) if not (x == x and x <= 0)]
        elif kind == "elementwise-not-ignoring-na":
            schema = pa.DataFrameSchema({"v": pa.Column(float, pa.Check(lambda x: x > 0, element_wise=True, ignore_na=False),
                                                        nullable=True), "w": pa.Column(float, nullable=True)},
                                        drop_invalid_rows=True)
            want = [i for i, x in enumerate(v) if x == x and x > 0]
        else:
            schema = pa.DataFrameSchema({"v": pa.Column(float, pa.Check(lambda s_: s_ > 0, ignore_na=False), nullable=True),
                                         "w": pa.Column(float, nullable=True)}, drop_invalid_rows=True)
            want = [i for i, x in enumerate(v) if x == x and x > 0]
        case = {"entries": True, "sweep": "frame-checks", "kind": kind, "v": [None if x != x else x for x in v],
                "w": [None if x != x else x for x in w], "labels": [str(x) for x in labels]}
        with warnings.catch_warnings():
            warnings.simplefilter("ignore")
            try:
                out = schema.validate(df.copy(), lazy=True)
            except Exception as e:  # noqa: BLE001
                rep.count(f"frame-checks:{kind}:{type(e).__name__}")
                rep.property_failure(case, f"{kind}: drop_invalid_rows raised {type(e).__name__} on row-level violations only: "
                                           f"{str(e)[:80]}")
                continue
        got = [labels.index(x) for x in out.index.tolist()]
        rep.case(case, nontrivial=len(got) < m)
        rep.evaluations += 1
        rep.count(f"frame-checks:{kind}:ok")
        if got != want:
            rep.property_failure(case, f"{kind}: surviving rows {got}, the rows satisfying the constraint are {want}",
                                 detail={"valid_rows_dropped": [i for i in want if i not in got],
                                         "invalid_rows_kept": [i for i in got if i not in want]})


def unique_groups_sweep(rep, rng, n):
    """several joint-uniqueness groups under drop_invalid_rows, together with columns that are unique themselves (their
    own `report_duplicates`, nulls): the survivors are the rows outside every violated group (Lean `dupGroups`, driver
    C01) and outside the duplicates of every unique column, in their original order, and satisfy the schema"""
    import warnings
    import pandera as pa
    names = ["a", "b", "c", "d"]
    cases = []
    for _ in range(n):
        nrows = rng.randint(1, 6)
        cols, colopts = [], {}
        for x in names:
            if rng.random() >= 0.8:
                continue
            dtype = rng.choice(["int64", "int64", "float64"])
            pool = A.POOL[dtype][:3] + ([A.NULL, A.NULL] if dtype == "float64" else [])
            cols.append({"name": x, "dtype": dtype, "vals": [rng.choice(pool) for _ in range(nrows)]})
            colopts[x] = {"unique": rng.random() < 0.3, "keep": rng.choice(["first", "last", "none"])}
        groups = [rng.sample(names, rng.randint(1, 2)) for _ in range(rng.randint(1, 3))]
        fr = {"cols": cols, "index": A.default_index(nrows), "nrows": nrows}
        cases.append({"entries": "unique-groups", "groups": groups, "keep": rng.choice(["first", "last", "none"]), "frame": fr,
                      "colopts": colopts})
    dcases, owner = [], []
    for i, c in enumerate(cases):
        dcases.append({"mode": "uniqueGroups", "groups": c["groups"], "keep": c["keep"], "frame": c["frame"]})
        owner.append((i, None))
        for col in c["frame"]["cols"]:
            if c["colopts"][col["name"]]["unique"]:
                dcases.append({"mode": "uniqueGroups", "groups": [[col["name"]]], "keep": c["colopts"][col["name"]]["keep"],
                               "frame": c["frame"]})
                owner.append((i, col["name"]))
    ans = run_driver("C01", dcases)
    bad_of = {i: set() for i in range(len(cases))}
    nulldup = {i: set() for i in range(len(cases))}
    broken = set()
    for (i, colname), a in zip(owner, ans):
        if "error" in a:
            broken.add(i)
            rep.correspondence_break(cases[i], "driver: " + a["error"])
            continue
        colvals = {col["name"]: col["vals"] for col in cases[i]["frame"]["cols"]}
        for subset, rs in a["dups"]:
            for r in rs:
                # a duplicated row all of whose cells (over the group) are null has no failure case left in the report
                # (listed region K_C11_nullDuplicates): it survives
                if all(colvals[x][r] == A.NULL for x in subset):
                    nulldup[i].add(r)
                else:
                    bad_of[i].add(r)
    for i, c in enumerate(cases):
        if i in broken:
            continue
        bad = sorted(bad_of[i] | nulldup[i])
        want = [r for r in range(c["frame"]["nrows"]) if r not in bad]
        df = A.frame_of(c["frame"])
        present = [col["name"] for col in c["frame"]["cols"]]
        mk = lambda **kw: pa.DataFrameSchema(  # noqa: E731
            {x: pa.Column(None, required=False, nullable=True, unique=c["colopts"].get(x, {}).get("unique", False),
                          report_duplicates=A.KEEP[c["colopts"].get(x, {}).get("keep", "none")]) for x in names},
            unique=c["groups"], report_duplicates=A.KEEP[c["keep"]], **kw)
        with warnings.catch_warnings():
            warnings.simplefilter("ignore")
            try:
                out = mk(drop_invalid_rows=True).validate(df.copy(), lazy=True)
            except Exception as e:  # noqa: BLE001
                rep.property_failure(c, f"unique groups under drop_invalid_rows: {type(e).__name__}: {str(e)[:100]} "
                                        f"(every violation is attributable to rows)")
                continue
        rep.evaluations += 1
        rep.count(f"unique-groups:{'dropped' if bad else 'nothing-to-drop'}:{sum(1 for x in present if c['colopts'][x]['unique'])}-unique-columns")
        got = [int(r) for r in out.index]
        if got != want:
            extra = [r for r in got if r not in want]
            missing = [r for r in want if r not in got]
            # duplicated nulls of a unique column are not reported (listed region): those rows survive
            region = "K_C11_nullDuplicates" if (not missing and extra and all(r in nulldup[i] and r not in bad_of[i] for r in extra)) else None
            rep.property_failure(c, f"unique={c['groups']} with unique columns "
                                    f"{[x for x in present if c['colopts'][x]['unique']]}: surviving rows {got}, the rows outside "
                                    f"every violated constraint are {want}", region=region)


def model_history_sweep(rep):
    """a model whose Config sets drop_invalid_rows, used after other operations on the same class (`empty()`, `to_schema()`,
    an earlier validation): the survivors and their values are the same at every point of the history — in particular no
    coercion that nobody requested"""
    import pandera as pa
    frames = {"mixed-str": pd.DataFrame({"label": ["x", 3, "y", 4.5], "n": [1, 2, 3, 4]}, index=[10, 11, 12, 13]),
              "all-str": pd.DataFrame({"label": ["x", "y"], "n": [1, -2]}, index=[5, 6])}
    for hist in ((), ("empty",), ("to_schema",), ("validate-ok",), ("empty", "validate-ok", "empty")):
        for fname, df in frames.items():
            M = type("M", (pa.DataFrameModel,), {
                "__annotations__": {"label": str, "n": int}, "n": pa.Field(ge=0),
                "Config": type("Config", (), {"drop_invalid_rows": True})})
            case = {"entries": "model-history", "history": list(hist), "frame": fname}
            with warnings.catch_warnings():
                warnings.simplefilter("ignore")
                try:
                    for h in hist:
                        if h == "empty":
                            M.empty()
                        elif h == "to_schema":
                            M.to_schema()
                        else:
                            M.validate(pd.DataFrame({"label": ["q"], "n": [1]}), lazy=True)
                    out = M.validate(df.copy(), lazy=True)
                except Exception as e:  # noqa: BLE001
                    rep.property_failure(case, f"model with drop_invalid_rows after {list(hist)}: {type(e).__name__}: {str(e)[:100]}")
                    continue
            want = [i for i, (lab, n) in zip(df.index, zip(df["label"], df["n"])) if isinstance(lab, str) and n >= 0]
            rep.case(case, nontrivial=len(want) < len(df))
            rep.evaluations += 1
            rep.count("model-history:" + ("+".join(hist) or "fresh"))
            if out.index.tolist() != want:
                rep.property_failure(case, f"model after {list(hist)}: surviving rows {out.index.tolist()}, the rows satisfying "
                                           f"every row-level constraint are {want}")
            elif out["label"].tolist() != df.loc[want, "label"].tolist() or out["n"].tolist() != df.loc[want, "n"].tolist():
                rep.property_failure(case, f"model after {list(hist)}: the surviving rows were changed "
                                           f"({out['label'].tolist()} vs {df.loc[want, 'label'].tolist()})")


def entry_region(c, a, missing, extra):
    """K_C11_nullDuplicates only: a kept row whose duplicated value is null"""
    if missing or not extra:
        return None
    vals = c["frame"]["cols"][0]["vals"]
    if all(vals[i] == A.NULL and sum(1 for v in vals if v == A.NULL) >= 2 for i in extra):
        return "K_C11_nullDuplicates"
    return None


def polars_region(c, a, missing, extra):
    return None


def run(tier, replay=None):
    rep = Report(PROP, tier)
    regenerate(("scopemap", "builtin"))
    rep.audit = audit(PROP, MODULES)
    rep.audit["modules"] = MODULES
    rng = rng_for(PROP)
    if replay:
        case = json.loads(open(replay).read())["case"]
        if case.get("backend") == "polars":
            pass
        elif case.get("entries"):
            run_entries(rep, rng_for(PROP, "entries"), 300)
            extension_sweep(rep)
            frame_check_sweep(rep, rng_for(PROP, "frame-checks"), 200)
            unique_groups_sweep(rep, rng_for(PROP, "unique-groups"), 200)
            model_history_sweep(rep)
        else:
            run_cases(rep, [case])
        return rep.finish(rule="replay")
    n = 800 if tier == "quick" else 20000
    run_cases(rep, [c for c in corpus_cases(PROP) if c.get("backend") != "polars"] + [gen_case(rng) for _ in range(n)])
    run_polars(rep, rng, n // 4)
    run_entries(rep, rng_for(PROP, "entries"), 300 if tier == "quick" else 6000)
    extension_sweep(rep)
    frame_check_sweep(rep, rng_for(PROP, "frame-checks"), 200 if tier == "quick" else 4000)
    unique_groups_sweep(rep, rng_for(PROP, "unique-groups"), 200 if tier == "quick" else 4000)
    model_history_sweep(rep)
    return rep.finish(
        rule="C03's generator with drop_invalid_rows=True, lazy validation and a unique index (int and str labels, "
             "labels with quotes): surviving positions (recovered through the labels) vs the positions on which every "
             "row-level constraint of the schema holds (Lean spec), values of the survivors vs the parsed frame; "
             "cases with non-row violations must raise; polars with a hidden position column. non-trivial = a row was "
             "dropped",
        level_note=["MultiIndex label round-tripping through str/eval is not modelled"],
    )

"""C20 — head/tail/sample validate exactly the requested rows and return the whole object."""
from __future__ import annotations

import json
import warnings

import pandas as pd

from . import absdata as A
from . import pipeline as P
from .common import Report, audit, corpus_cases, rng_for, run_driver
from .regen import regenerate

PROP = "C20"
MODULES = ["PanderaModel.Props.C20"]


def gen_case(rng):
    c = P.gen_case(rng, regex_rate=0.05, index_schema_rate=0.1, conform_bias=0.9, max_rows=6,
                   allow_dup_labels=True)
    n = c["frame"]["nrows"]
    # duplicate some rows (values), keeping labels
    if n >= 2 and rng.random() < 0.4:
        i, j = rng.sample(range(n), 2)
        for col in c["frame"]["cols"]:
            col["vals"][j] = col["vals"][i]
    # make a row invalid now and then so that the selection matters
    opt = lambda: rng.choice([None, None, 0, 1, 2, n, max(n - 1, 0)]) if n else rng.choice([None, 0])
    h, t, s = opt(), opt(), opt()
    if s is not None and s > n:
        s = n
    if h is None and t is None and s is None and rng.random() < 0.8:
        h = rng.randint(0, n)
    c["opts"] = {"head": h, "tail": t, "sample": s, "random_state": rng.choice([0, 1, 7])}
    c["backend"] = "pandas"
    frame_check(rng, c)
    return c


def gen_polars_case(rng):
    c = P.gen_case(rng, regex_rate=0.0, index_schema_rate=0.0, conform_bias=0.85, max_rows=6)
    c["schema"]["index"] = None
    c["schema"]["ordered"] = False
    c["frame"]["index"] = A.default_index(c["frame"]["nrows"])
    # polars columns cannot be datetime-with-nulls trouble free here; keep to simple dtypes
    n = c["frame"]["nrows"]
    if n >= 2 and rng.random() < 0.5:
        i, j = rng.sample(range(n), 2)
        for col in c["frame"]["cols"]:
            col["vals"][j] = col["vals"][i]
    h = rng.choice([None, 0, 1, 2, n])
    t = rng.choice([None, None, 1, 2, n])
    if h is None and t is None:
        h = rng.randint(0, n)
    c["opts"] = {"head": h, "tail": t, "sample": rng.choice([None, None, None, 1]), "random_state": 0}
    c["backend"] = "polars"
    frame_check(rng, c)
    return c


def frame_check(rng, c):
    """now and then a dataframe-level check (row-wise, or an aggregate) on a numeric column: it sees the selected rows only"""
    num = [col for col in c["frame"]["cols"] if col["dtype"] in ("int64", "float64") and all(v != A.NULL for v in col["vals"])]
    if num and rng.random() < 0.3:
        col = rng.choice(num)
        c["frameCheck"] = {"col": col["name"], "kind": rng.choice(["rowwise", "sum"]), "thr": rng.choice([0, 1, 2, 4])}


def frame_checks_of(c, backend):
    fc = c.get("frameCheck")
    if not fc:
        return {}
    name, thr = fc["col"], fc["thr"]
    if backend == "pandas":
        import pandera as pa
        fn = (lambda df: df[name] >= thr) if fc["kind"] == "rowwise" else (lambda df: bool(df[name].sum() < 3 * thr + 4))
        return {"checks": [pa.Check(fn)]}
    import polars as pl
    import pandera.polars as pap
    fn = (lambda d: d.lazyframe.select(pl.col(name) >= thr)) if fc["kind"] == "rowwise" else \
        (lambda d: d.lazyframe.select(pl.col(name).sum() < 3 * thr + 4))
    return {"checks": [pap.Check(fn)]}


def sample_positions(n, k, r):
    if k is None:
        return None
    return pd.DataFrame({"p": range(n)}).sample(k, random_state=r)["p"].tolist()


def pandas_verdict(schema, df, **kw):
    kind, out = P.run_validate(schema, df, lazy=True, **kw)
    return kind, out


def run_pandas(rep, cases):
    dcases = []
    for c in cases:
        D, o = c["frame"], c["opts"]
        n = D["nrows"]
        sp = sample_positions(n, o["sample"], o["random_state"])
        keys = [json.dumps(v) for v in D["index"][0]["vals"]]
        dcases.append({"n": n, "head": o["head"], "tail": o["tail"], "samplePos": sp, "keys": keys})
    ans = run_driver("C20", dcases)
    for c, d, a in zip(cases, dcases, ans):
        if "error" in a:
            rep.correspondence_break(c, "driver: " + a["error"])
            continue
        S, D, o = c["schema"], c["frame"], c["opts"]
        fck = frame_checks_of(c, "pandas")
        if fck and not any(col["name"] == c["frameCheck"]["col"] for col in D["cols"]):
            fck = {}
        schema = A.schema_of(S, **fck)
        df = A.frame_of(D)
        kw = {k: v for k, v in o.items() if not (k == "random_state" and o["sample"] is None)}
        k1, out1 = pandas_verdict(schema, df.copy(), **kw)
        k2, _ = pandas_verdict(A.schema_of(S, **fck), df.copy(), **kw)
        kreq, _ = pandas_verdict(A.schema_of(S, **fck), df.iloc[a["requested"]].copy())
        kkept, _ = pandas_verdict(A.schema_of(S, **fck), df.iloc[a["kept"]].copy())
        if "crash" in (k1, kreq, kkept):
            rep.count("pandas:crash")
            continue
        distinct = a["keysDistinct"]
        rep.case(c, nontrivial=a["requested"] != list(range(D["nrows"])))
        rep.count(f"pandas:{'labels-distinct' if distinct else 'labels-repeated'}:{k1}")
        rep.count("pandas:selection:%s" % ("all" if len(a["requested"]) == D["nrows"] else
                                            "none" if not a["requested"] else "some"))
        if k1 != k2:
            rep.property_failure(c, f"non-deterministic outcome for a fixed random_state: {k1} vs {k2}")
            continue
        if k1 != kreq:
            rep.property_failure(
                c, f"verdict with options is {k1}, verdict on the requested rows {a['requested']} is {kreq}",
                region="K_C20_duplicateLabels" if (not distinct and a["kept"] != a["requested"]) else None,
                detail={"kept": a["kept"], "requested": a["requested"]})
        elif k1 == "ok" and not P.frames_equal(out1, df):
            rep.property_failure(c, "the returned object is not the whole input")
        if k1 != kkept:
            rep.correspondence_break(c, f"model of the code's selection {a['kept']} gives {kkept}, implementation {k1}")
        if o["head"] == D["nrows"] and o["tail"] is None and o["sample"] is None:
            kall, _ = pandas_verdict(A.schema_of(S, **fck), df.copy())
            if kall != kreq:
                rep.correspondence_break(c, "head=len(D) differs from no option on the positional frame")


def run_index_entries(rep, rng, n):
    """stand-alone index validation with the options (`Index.validate(obj, head=...)`, and a SeriesSchema whose only
    constraints are on its index): the index is validated by position, so repeated labels are not de-duplicated here
    and the verdict must equal that on the requested rows"""
    import pandera as pa
    for _ in range(n):
        m = rng.randint(2, 6)
        as_str = rng.random() < 0.4
        labs = [rng.choice([1, 2, 3, 4]) for _ in range(m)]
        labels = [str(x) for x in labs] if as_str else labs
        h = rng.choice([None, 0, 1, 2, m])
        t = rng.choice([None, None, 1, 2, m])
        k = rng.choice([None, None, 1, 2])
        if h is None and t is None and k is None:
            h = rng.randint(0, m)
        r = rng.choice([0, 1, 7])
        kw = {kk: v for kk, v in (("head", h), ("tail", t), ("sample", k)) if v is not None}
        if k is not None:
            kw["random_state"] = r
        req = sorted(set((list(range(min(h, m))) if h is not None else []) +
                         (list(range(max(m - t, 0), m)) if t else []) +
                         (sample_positions(m, k, r) if k is not None else [])))
        ck = rng.choice(["unique", "unique", "lt3", "unique+lt3"])
        mk_ix = lambda: pa.Index(str if as_str else int, unique="unique" in ck,
                                 checks=[pa.Check(lambda s: s.astype(int) < 3, name="lt3")] if "lt3" in ck else None)
        df = pd.DataFrame({"v": list(range(m))}, index=pd.Index(labels))
        for entry in ("Index", "SeriesSchema"):
            case = {"entry": entry, "labels": labels, "opts": kw, "constraint": ck, "requested": req}
            if entry == "Index":
                run_ = lambda obj, **o: P.run_validate(mk_ix(), obj, lazy=True, **o)
                obj = df
            else:
                run_ = lambda obj, **o: P.run_validate(pa.SeriesSchema(int, index=mk_ix()), obj, lazy=True, **o)
                obj = df["v"]
            k1, out1 = run_(obj.copy(), **kw)
            kreq, _ = run_(obj.iloc[req].copy())
            rep.case(case, nontrivial=len(req) < m)
            rep.evaluations += 1
            rep.count(f"index-entry:{entry}:{k1}")
            if "crash" in (k1, kreq):
                continue
            if k1 != kreq:
                rep.property_failure(case, f"{entry}.validate with {kw} on labels {labels} is {k1}, on the requested rows "
                                           f"{req} it is {kreq}")
            elif k1 == "ok" and len(out1) != m:
                rep.property_failure(case, f"{entry}.validate with {kw} returned {len(out1)} of {m} rows")
        # value constraints through a SeriesSchema and a stand-alone Column, distinct labels (repeated labels are the
        # recorded region of the de-duplicating subsample)
        ulabels = rng.sample(range(10, 40), m)
        vals = [rng.choice([1, 1, 2, 5]) for _ in range(m)]
        vk = rng.choice(["lt3", "unique"])
        mkw = dict(unique=vk == "unique", checks=[pa.Check.lt(3)] if vk == "lt3" else None)
        udf = pd.DataFrame({"v": vals}, index=pd.Index(ulabels))
        for entry in ("SeriesSchema-values", "Column"):
            case = {"entry": entry, "labels": ulabels, "values": vals, "opts": kw, "constraint": vk, "requested": req}
            if entry == "Column":
                run_ = lambda obj, **o: P.run_validate(pa.Column(int, name="v", **mkw), obj, lazy=True, **o)
                obj = udf
            else:
                run_ = lambda obj, **o: P.run_validate(pa.SeriesSchema(int, **mkw), obj, lazy=True, **o)
                obj = udf["v"]
            k1, out1 = run_(obj.copy(), **kw)
            kreq, _ = run_(obj.iloc[req].copy())
            rep.case(case, nontrivial=len(req) < m)
            rep.evaluations += 1
            rep.count(f"index-entry:{entry}:{k1}")
            if "crash" in (k1, kreq):
                continue
            if k1 != kreq:
                rep.property_failure(case, f"{entry}.validate with {kw} on values {vals} is {k1}, on the requested rows "
                                           f"{req} it is {kreq}")
            elif k1 == "ok" and len(out1) != m:
                rep.property_failure(case, f"{entry}.validate with {kw} returned {len(out1)} of {m} rows")


def run_polars(rep, cases):
    try:
        import polars as pl  # noqa: F401
        import pandera.polars as pap
        from . import polars_abs as PA
    except Exception:  # noqa: BLE001
        rep.count("polars:unavailable")
        return
    dcases = []
    for c in cases:
        D, o = c["frame"], c["opts"]
        n = D["nrows"]
        keys = [json.dumps([col["vals"][i] for col in D["cols"]]) for i in range(n)]
        dcases.append({"n": n, "head": o["head"], "tail": o["tail"], "samplePos": None, "keys": keys, "backend": "polars"})
    ans = run_driver("C20", dcases)

    def verdict(S, df, _fck=None, **kw):
        with warnings.catch_warnings():
            warnings.simplefilter("ignore")
            try:
                out = PA.schema_of(S, **(_fck or {})).validate(df, lazy=True, **kw)
                return "ok", out
            except pap.errors.SchemaErrors as e:
                return "errors", e
            except pap.errors.SchemaError as e:
                return "error", e
            except Exception as e:  # noqa: BLE001
                return "crash:" + type(e).__name__, e

    for c, d, a in zip(cases, dcases, ans):
        S, D, o = c["schema"], c["frame"], c["opts"]
        try:
            df = PA.frame_of(D)
        except Exception:  # noqa: BLE001
            rep.count("polars:unbuildable")
            continue
        if o["sample"] is not None:
            k, e = verdict(S, df, head=o["head"], tail=o["tail"], sample=o["sample"], random_state=0)
            rep.case(c)
            rep.count("polars:sample:" + k)
            if k.startswith("crash"):
                rep.property_failure(c, f"polars validate(sample=...) raises {k[6:]}: {str(e)[:80]}",
                                     region="K_C20_polarsSampleCrash")
            continue
        kw = {k: v for k, v in o.items() if k in ("head", "tail")}
        fck = frame_checks_of(c, "polars")
        k1, out1 = verdict(S, df, fck, **kw)
        if df.width == 0 or df.height != D["nrows"]:
            rep.count("polars:no-columns")
            continue
        kreq, _ = verdict(S, df[a["requested"]] if a["requested"] else df.head(0), fck)
        kkept, _ = verdict(S, df[a["kept"]] if a["kept"] else df.head(0), fck)
        if any(x.startswith("crash") for x in (k1, kreq, kkept)):
            rep.count("polars:" + k1)
            continue
        distinct = a["keysDistinct"]
        rep.case(c, nontrivial=a["requested"] != list(range(D["nrows"])))
        rep.count(f"polars:{'rows-distinct' if distinct else 'rows-repeated'}:{k1}")
        if k1 != kreq:
            rep.property_failure(
                c, f"polars verdict with options is {k1}, verdict on the requested rows is {kreq}",
                region="K_C20_duplicateRows" if (not distinct and sorted(a["kept"]) != sorted(a["requested"])) else None,
                detail={"kept": a["kept"], "requested": a["requested"]})
        elif k1 == "ok" and out1.height != df.height:
            rep.property_failure(c, "polars: the returned object is not the whole input")
        if k1 != kkept:
            rep.correspondence_break(c, f"polars: model of the code's selection gives {kkept}, implementation {k1}")
        # the stand-alone polars Column entry: same options, same rows
        for spec in S["columns"]:
            if spec.get("regex") is not None or spec["name"] not in df.columns:
                continue

            def cverdict(frame, **kw2):
                with warnings.catch_warnings():
                    warnings.simplefilter("ignore")
                    try:
                        PA.column_of(dict(spec, coerce=False, default=None))[1].validate(frame, lazy=True, **kw2)
                        return "ok"
                    except (pap.errors.SchemaErrors, pap.errors.SchemaError):
                        return "errors"
                    except Exception as e:  # noqa: BLE001
                        return "crash:" + type(e).__name__
            c1 = cverdict(df, **kw)
            creq = cverdict(df[a["requested"]] if a["requested"] else df.head(0))
            if c1.startswith("crash") or creq.startswith("crash"):
                rep.count("polars-column:" + c1)
                continue
            rep.evaluations += 1
            rep.count(f"polars-column:{c1}")
            if c1 != creq:
                rep.property_failure(
                    dict(c, entry="polars-Column", column=spec["name"]),
                    f"polars Column {spec['name']!r}: verdict with options is {c1}, verdict on the requested rows is {creq}",
                    region="K_C20_duplicateRows" if (not distinct and sorted(a["kept"]) != sorted(a["requested"])) else None)


def run(tier, replay=None):
    rep = Report(PROP, tier)
    regenerate(("subsamplerules",))
    rep.audit = audit(PROP, MODULES)
    rep.audit["modules"] = MODULES
    if replay and json.loads(open(replay).read())["case"].get("entry") in ("Index", "SeriesSchema", "SeriesSchema-values", "Column"):
        run_index_entries(rep, rng_for(PROP, "index-entries"), 150)
        return rep.finish(rule="replay of the index-entry sweep (deterministic under VERIF_SEED)")
    if replay:
        case = json.loads(open(replay).read())["case"]
        (run_polars if case.get("backend") == "polars" else run_pandas)(rep, [case])
        return rep.finish(rule="replay")
    rng = rng_for(PROP)
    n = 800 if tier == "quick" else 20000
    corpus = corpus_cases(PROP)
    run_pandas(rep, [c for c in corpus if c.get("backend") != "polars"] + [gen_case(rng) for _ in range(n)])
    run_polars(rep, [c for c in corpus if c.get("backend") == "polars"] +
               [gen_polars_case(rng) for _ in range(n // 4)])
    run_index_entries(rep, rng_for(PROP, "index-entries"), 150 if tier == "quick" else 4000)
    return rep.finish(
        rule="C01's generator with repeated index labels and repeated rows; h, t, n <= len(D), fixed random_state; "
             "the sampled positions are read from pandas' own sample(); verdict with options vs verdict on the "
             "positional frame (requested rows) and on the model of the code's selection (kept rows); non-trivial = "
             "the selection is a proper subset",
        level_note=["`sample`'s draw is a parameter of the theorem (an arbitrary position list) and is read from "
                    "pandas at run time"],
    )

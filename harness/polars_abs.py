"""Abstract universe <-> polars / pandera.polars objects."""
from __future__ import annotations

import datetime as dt

from . import absdata as A

T0 = dt.datetime(2020, 1, 1)


def pl_dtype(d):
    import polars as pl
    return {"int64": pl.Int64, "float64": pl.Float64, "str": pl.Utf8, "bool": pl.Boolean,
            "datetime": pl.Datetime("us")}[d]


def to_pl(v):
    if v == A.NULL:
        return None
    k = next(iter(v))
    x = v[k]
    if k == "nan":
        return float("nan")
    if k == "ts":
        return T0 + dt.timedelta(days=int(x["n"]))
    return A.to_py(v)


def frame_of(fr):
    import polars as pl
    data = {}
    schema = {}
    for c in fr["cols"]:
        data[c["name"]] = [to_pl(v) for v in c["vals"]]
        schema[c["name"]] = pl_dtype(c["dtype"])
    return pl.DataFrame(data, schema=schema)


def from_pl(x):
    import math
    if x is None:
        return A.NULL
    if isinstance(x, bool):
        return A.vbool(x)
    if isinstance(x, int):
        return A.vint(x)
    if isinstance(x, float):
        if math.isnan(x):
            return {"nan": True}
        q = x * 4
        if q != int(q):
            raise ValueError(x)
        return A.vflt(int(q))
    if isinstance(x, str):
        return A.vstr(x)
    if isinstance(x, dt.datetime):
        d = x - T0
        return A.vts(d.days)
    raise ValueError(repr(x))


def abs_dtype(pldt):
    import polars as pl
    if pldt == pl.Int64: return "int64"
    if pldt == pl.Float64: return "float64"
    if pldt in (pl.Utf8, pl.String): return "str"
    if pldt == pl.Boolean: return "bool"
    if isinstance(pldt, pl.Datetime) or pldt == pl.Datetime: return "datetime"
    return None


def abs_frame(df):
    cols = []
    for name in df.columns:
        s = df[name]
        cols.append({"name": name, "dtype": abs_dtype(s.dtype), "vals": [from_pl(x) for x in s.to_list()]})
    return {"cols": cols, "nrows": df.height}


def check_of(cs):
    import pandera.polars as pap
    b = cs["b"]
    k = next(iter(b))
    x = b[k]
    kw = {"ignore_na": cs["ignoreNa"]}
    C = pap.Check
    p = to_pl
    if k == "eq": return C.equal_to(p(x["v"]), **kw)
    if k == "ne": return C.not_equal_to(p(x["v"]), **kw)
    if k == "gt": return C.greater_than(p(x["v"]), **kw)
    if k == "ge": return C.greater_than_or_equal_to(p(x["v"]), **kw)
    if k == "lt": return C.less_than(p(x["v"]), **kw)
    if k == "le": return C.less_than_or_equal_to(p(x["v"]), **kw)
    if k == "inRange":
        return C.in_range(p(x["lo"]), p(x["hi"]), include_min=x["incLo"], include_max=x["incHi"], **kw)
    if k == "isin": return C.isin([p(v) for v in x["vs"]], **kw)
    if k == "notin": return C.notin([p(v) for v in x["vs"]], **kw)
    if k == "strMatches": return C.str_matches(A.pat_render(x["p"]), **kw)
    if k == "strContains": return C.str_contains(A.pat_render(x["p"]), **kw)
    if k == "strStartswith": return C.str_startswith(x["s"], **kw)
    if k == "strEndswith": return C.str_endswith(x["s"], **kw)
    if k == "strLength": return C.str_length(x["lo"], x["hi"], **kw)
    raise ValueError(b)


def column_of(spec, **extra):
    import pandera.polars as pap
    name = spec["name"]
    if spec["regex"] is not None:
        name = "^" + A.pat_render(spec["regex"]) + "$"
    return name, pap.Column(
        dtype=pl_dtype(spec["dtype"]) if spec["dtype"] is not None else None,
        checks=[check_of(c) for c in spec["checks"]],
        nullable=spec["nullable"], unique=spec["unique"], coerce=spec["coerce"],
        required=spec["required"], name=name, regex=spec["regex"] is not None, **extra)


def schema_of(S, with_defaults=False, **extra):
    import pandera.polars as pap
    cols = {}
    for spec in S["columns"]:
        kw = {}
        if with_defaults and spec.get("default") is not None:
            kw["default"] = to_pl(spec["default"])
        n, c = column_of(spec, **kw)
        cols[n] = c
    strict = {"no": False, "yes": True, "filter": "filter"}[S["strict"]]
    return pap.DataFrameSchema(columns=cols, strict=strict, ordered=S["ordered"],
                               unique=S["unique"] or None, report_duplicates="all", **extra)

"""C05 — schemas are observationally immutable: no operation leaves hidden state."""
from __future__ import annotations

import copy
import functools
import io
import json
import types
import warnings

import numpy as np
import pandas as pd

from . import absdata as A
from . import pipeline as P
from .common import Report, audit, corpus_cases, rng_for
from .regen import regenerate

PROP = "C05"
MODULES = ["PanderaModel.Props.C05"]


# ---- structural fingerprint of an object graph ----------------------------------------------

def fingerprint(obj, _seen=None, _depth=0):
    if _seen is None:
        _seen = set()
    if obj is None or isinstance(obj, (bool, int, str, bytes)):
        return repr(obj)
    if isinstance(obj, float):
        return "nan" if obj != obj else repr(obj)
    if isinstance(obj, (np.generic,)):
        return repr(obj.item()) if hasattr(obj, "item") else repr(obj)
    if isinstance(obj, (pd.Timestamp, pd.Timedelta)):
        return repr(obj)
    if isinstance(obj, (list, tuple)):
        return [type(obj).__name__] + [fingerprint(x, _seen, _depth + 1) for x in obj]
    if isinstance(obj, (set, frozenset)):
        return ["set"] + sorted(json.dumps(fingerprint(x, _seen, _depth + 1), sort_keys=True, default=str) for x in obj)
    if isinstance(obj, dict):
        return {"dict": [[fingerprint(k, _seen, _depth + 1), fingerprint(v, _seen, _depth + 1)]
                         for k, v in obj.items()]}
    if isinstance(obj, functools.partial):
        return ["partial", fingerprint(obj.func, _seen, _depth + 1), fingerprint(obj.keywords, _seen, _depth + 1)]
    if isinstance(obj, (types.FunctionType, types.BuiltinFunctionType, types.MethodType)):
        return ["fn", getattr(obj, "__module__", ""), getattr(obj, "__qualname__", repr(obj))]
    if isinstance(obj, type):
        return ["type", obj.__module__, obj.__qualname__]
    if isinstance(obj, (np.dtype,)) or type(obj).__module__.startswith("pandas"):
        return ["pd", type(obj).__name__, str(obj)]
    if id(obj) in _seen or _depth > 12:
        return ["ref", type(obj).__name__]
    _seen = _seen | {id(obj)}
    d = getattr(obj, "__dict__", None)
    if d is None:
        slots = getattr(type(obj), "__slots__", None)
        if slots:
            d = {s: getattr(obj, s, None) for s in slots}
        else:
            return ["obj", type(obj).__name__, repr(obj)]
    return ["obj", type(obj).__module__ + "." + type(obj).__qualname__,
            {k: fingerprint(v, _seen, _depth + 1) for k, v in sorted(d.items(), key=lambda kv: str(kv[0]))}]


def class_state():
    """mutable class-level attributes of the engine data type classes and the configuration module: state that no schema
    object owns, but that a schema's verdict can depend on"""
    import importlib
    out = {}
    for modname in ("pandera.engines.pandas_engine", "pandera.engines.numpy_engine", "pandera.dtypes", "pandera.engines.engine"):
        try:
            mod = importlib.import_module(modname)
        except Exception:  # noqa: BLE001
            continue
        for nm, cls in sorted(vars(mod).items()):
            if isinstance(cls, type) and cls.__module__ == modname:
                for k, v in sorted(vars(cls).items()):
                    if isinstance(v, (dict, list, set)) and not k.startswith("__") and k not in ("_registry", "_registered_dtypes", "_base_pandera_dtypes"):
                        out[f"{modname}.{nm}.{k}"] = fingerprint(v)
    return json.dumps(out, sort_keys=True, default=str)


def fp(obj):
    return json.dumps(fingerprint(obj), sort_keys=True, default=str)


def diff_paths(a, b, path=""):
    """first few paths at which two fingerprints differ"""
    out = []
    if type(a) != type(b):
        return [path or "/"]
    if isinstance(a, dict):
        for k in sorted(set(a) | set(b), key=str):
            if k not in a or k not in b:
                out.append(f"{path}/{k}")
            else:
                out += diff_paths(a[k], b[k], f"{path}/{k}")
    elif isinstance(a, list):
        if len(a) != len(b):
            return [path + f"[len {len(a)}!={len(b)}]"]
        for i, (x, y) in enumerate(zip(a, b)):
            out += diff_paths(x, y, f"{path}[{i}]")
    elif a != b:
        out.append(path)
    return out[:4]


# ---- schemas and probes --------------------------------------------------------------------------

def gen_schema_case(rng):
    c = P.gen_case(rng, regex_rate=0.35, index_schema_rate=0.3, conform_bias=0.9, max_rows=4)
    S = c["schema"]
    declared = [s_["name"] for s_ in S["columns"] if s_["regex"] is None]
    # joint uniqueness over declared columns (read by the strategies and the uniqueness check)
    S["unique"] = rng.sample(declared, rng.randint(1, min(2, len(declared)))) if declared and rng.random() < 0.4 else []
    kind = rng.random()
    c["extras"] = {"tz_agnostic": kind < 0.12, "coerce": rng.random() < 0.3, "raising_parser": rng.random() < 0.3,
                   "tz_kwargs": rng.random() < 0.15}
    return c


RAISE = {"on": False}


def _toggle_parser(s):
    """a user parser that raises (an exception outside pandera's own classes) when switched on"""
    if RAISE["on"]:
        raise ValueError("parser switched on to raise")
    return s


def build_schema(c):
    import pandera as pa
    from pandera.engines import pandas_engine
    S = copy.deepcopy(c["schema"])
    if c["extras"]["coerce"]:
        for s in S["columns"]:
            if s["dtype"] in ("int64", "float64", "str"):
                s["coerce"] = True
    schema = A.schema_of(S)
    if c["extras"].get("raising_parser"):
        # a second coercing column carrying the switchable parser, behind the generated ones
        schema = schema.add_columns({"zz_parsed": pa.Column(int, parsers=pa.Parser(_toggle_parser), coerce=True,
                                                            required=False)})
    if c["extras"]["tz_agnostic"]:
        schema = schema.add_columns({"tzcol": pa.Column(pandas_engine.DateTime(time_zone_agnostic=True),
                                                         required=False)})
    if c["extras"].get("tz_kwargs"):
        # a coercing tz-aware column with its own localisation options next to one with the default options
        schema = schema.add_columns({
            "tzk": pa.Column(pandas_engine.DateTime(tz="Europe/Berlin", tz_localize_kwargs={"nonexistent": "shift_forward"}),
                             coerce=True, required=False),
            "tzd": pa.Column(pandas_engine.DateTime(tz="Europe/Berlin"), coerce=True, required=False)})
    return schema


def probes(c, rng):
    """a frame meant to pass and a frame meant to fail, plus (for the tz column) tz-aware data"""
    D = c["frame"]
    good = A.frame_of(D)
    bad = good.copy()
    if len(bad.columns):
        col = bad.columns[0]
        bad[col] = [object()] * len(bad) if len(bad) else bad[col]
        if not len(bad):
            bad = pd.DataFrame({"__unexpected__": [1]})
    else:
        bad = pd.DataFrame({"__unexpected__": ["x"]})
    if c["extras"].get("raising_parser"):
        good = good.copy()
        good["zz_parsed"] = [str(i) for i in range(len(good))]
    out = [good, bad]
    if c["extras"].get("tz_kwargs") and len(good):
        # naive timestamps inside the daylight-saving gap: only the column with `nonexistent=` can localise them
        gap = good.copy()
        gap["tzk"] = pd.Series(pd.to_datetime(["2021-03-28 02:30"] * len(gap)), index=gap.index)
        out.append(gap)
        gap2 = good.copy()
        gap2["tzd"] = pd.Series(pd.to_datetime(["2021-03-28 02:30"] * len(gap2)), index=gap2.index)
        out.append(gap2)
    if c["extras"]["tz_agnostic"]:
        tz = good.copy()
        tz["tzcol"] = pd.Series(pd.date_range("2020-01-01", periods=len(tz), tz="Europe/Berlin"), index=tz.index)
        out.append(tz)
    return out


def verdict(schema, df, lazy=False):
    k, o = P.run_validate(schema, df.copy(), lazy=lazy)
    if k == "crash":
        return "crash:" + type(o).__name__
    return k


OPS = ["validate_probe0", "validate_probe1", "validate_probe0_lazy", "validate_probe1_lazy", "validate_probe2",
       "validate_probe3", "validate_probe2_lazy",
       "to_yaml", "to_json", "to_script", "statistics", "repr", "str", "eq", "copy", "deepcopy",
       "add_columns", "remove_columns", "update_column", "rename_columns", "select_columns", "set_index",
       "reset_index", "coerce_dtype", "strategy", "hash_checks", "column_validate", "get_dtypes", "example", "validate_raising_parser",
       "validate_raising_parser_lazy"]


def apply_op(op, schema, prs, rng):
    import pandera as pa
    with warnings.catch_warnings():
        warnings.simplefilter("ignore")
        try:
            if op.startswith("validate_probe"):
                i = int(op[len("validate_probe")])
                if i < len(prs):
                    P.run_validate(schema, prs[i].copy(), lazy=op.endswith("lazy"))
            elif op == "to_yaml":
                schema.to_yaml()
            elif op == "to_json":
                schema.to_json()
            elif op == "to_script":
                schema.to_script()
            elif op == "statistics":
                from pandera.schema_statistics import get_dataframe_schema_statistics
                get_dataframe_schema_statistics(schema)
            elif op == "repr":
                repr(schema)
            elif op == "str":
                str(schema)
            elif op == "eq":
                schema == copy.deepcopy(schema)
            elif op == "copy":
                copy.copy(schema)
            elif op == "deepcopy":
                copy.deepcopy(schema)
            elif op == "add_columns":
                schema.add_columns({"zz_new": pa.Column(int)})
            elif op == "remove_columns":
                names = [k for k in schema.columns]
                if names:
                    schema.remove_columns([names[0]])
            elif op == "update_column":
                names = [k for k in schema.columns]
                if names:
                    schema.update_column(names[0], nullable=True)
            elif op == "rename_columns":
                names = [k for k in schema.columns]
                if names:
                    schema.rename_columns({names[0]: "zz_renamed"})
            elif op == "select_columns":
                names = [k for k in schema.columns]
                if names:
                    schema.select_columns(names[:1])
            elif op == "set_index":
                names = [k for k, v in schema.columns.items() if not v.regex]
                if names:
                    schema.set_index([names[0]])
            elif op == "reset_index":
                if schema.index is not None and schema.index.name is not None:
                    schema.reset_index()
            elif op == "coerce_dtype":
                if prs:
                    schema.coerce_dtype(prs[0].copy())
            elif op == "strategy":
                names = [k for k, v in schema.columns.items() if not v.regex]
                if names and rng.random() < 0.3:
                    schema.columns[names[0]].strategy(size=2)
            elif op.startswith("validate_raising_parser"):
                # an exception that is neither SchemaError nor SchemaErrors propagates out of a component
                RAISE["on"] = True
                try:
                    P.run_validate(schema, prs[0].copy(), lazy=op.endswith("lazy"))
                finally:
                    RAISE["on"] = False
            elif op == "example":
                # a strategy only reads the schema when an example is drawn
                if rng.random() < 0.5:
                    # one derandomised draw with a bounded effort (`.example()` itself may search for minutes)
                    from .c13 import draws_of
                    draws_of(schema.strategy(size=rng.choice([0, 1, 2])), 1)
            elif op == "hash_checks":
                for col in schema.columns.values():
                    for chk in col.checks:
                        hash(chk)
                        chk.statistics
            elif op == "column_validate":
                names = [k for k, v in schema.columns.items() if not v.regex]
                if names and prs and names[0] in prs[0].columns:
                    schema.columns[names[0]].validate(prs[0].copy())
            elif op == "get_dtypes":
                if prs:
                    schema.get_dtypes(prs[0])
                schema.dtypes
        except Exception:  # noqa: BLE001  (failures of the operation itself are C06's / C12's subject)
            pass


def region_of(paths, op, c=None):
    joined = " ".join(paths)
    if c is not None and c.get("extras", {}).get("tz_agnostic") and paths and all("_dtype" in p for p in paths):
        return "K_C05_tzAgnosticDatetime"
    if "statistics" in joined and "options" in joined:
        return "K_C05_statisticsOptionsKey"
    if "tzcol" in joined or "/tz" in joined or "DateTime" in joined:
        return "K_C05_tzAgnosticDatetime"
    return None


def run_history(rep, c, rng, length):
    schema = build_schema(c)
    prs = probes(c, rng)
    base = fingerprint(schema)
    base_s = json.dumps(base, sort_keys=True, default=str)
    base_cls = class_state()
    base_verdicts = [verdict(schema, p) for p in prs]
    # the baseline verdict run must itself leave the schema alone
    after0 = fingerprint(schema)
    hist = []
    if json.dumps(after0, sort_keys=True, default=str) != base_s:
        paths = diff_paths(base, after0)
        rep.property_failure({"case": c, "history": ["validate_probes"]},
                             f"the schema changed after validating probe frames: {paths}",
                             region=region_of(paths, "validate", c))
        return
    for _ in range(length):
        op = rng.choice(OPS)
        hist.append(op)
        apply_op(op, schema, prs, rng)
        now = fingerprint(schema)
        if json.dumps(now, sort_keys=True, default=str) != base_s:
            paths = diff_paths(base, now)
            rep.property_failure({"case": c, "history": list(hist)},
                                 f"after {op} the schema differs from its snapshot at {paths}",
                                 region=region_of(paths, op, c))
            return
        rep.count("op:" + op)
    if class_state() != base_cls:
        a_, b_ = json.loads(base_cls), json.loads(class_state())
        changed = [k for k in sorted(set(a_) | set(b_)) if a_.get(k) != b_.get(k)]
        rep.property_failure({"case": c, "history": list(hist)},
                             f"class-level state of the data type classes changed over the history: {changed[:4]}")
        return
    verdicts = [verdict(schema, p) for p in prs]
    if verdicts != base_verdicts:
        rep.property_failure({"case": c, "history": list(hist)},
                             f"verdicts on the probe frames changed over the history: {base_verdicts} -> {verdicts}")
    rep.case({"history": hist, "ncols": len(c["schema"]["columns"])}, nontrivial=len(hist) >= 2)


def replay_one(rep, r, rng):
    c = r["case"]
    schema = build_schema(c)
    prs = probes(c, rng)
    base = fingerprint(schema)
    for op in r["history"]:
        if op == "validate_probes":
            [verdict(schema, p) for p in prs]
        else:
            apply_op(op, schema, prs, rng)
    now = fingerprint(schema)
    rep.case({"history": r["history"]})
    if now != base:
        paths = diff_paths(base, now)
        rep.property_failure(r, f"schema differs from its snapshot at {paths}", region=region_of(paths, "", c))


def run_models(rep, rng, n):
    """class-based models: no operation of the public API changes the schema a model compiles to (it is cached per class and
    shared by every later use)"""
    import pandera as pa
    ops = ["empty", "validate_good", "validate_bad", "validate_bad_lazy", "to_schema", "to_yaml", "to_json_schema", "strategy",
           "example", "repr", "get_metadata", "subclass"]
    for i in range(n):
        coerce = rng.random() < 0.3
        body = {"__annotations__": {"a": int, "b": float}, "a": pa.Field(ge=0), "b": pa.Field(nullable=True),
                "Config": type("Config", (), {"coerce": coerce, "strict": rng.random() < 0.5})}
        M = type(f"M{i}", (pa.DataFrameModel,), body)
        good = pd.DataFrame({"a": [1, 2], "b": [1.5, None]})
        coercible = pd.DataFrame({"a": ["1", "2"], "b": [1, 2]})
        bad = pd.DataFrame({"a": [-1, 2], "b": [1.5, 2.5]})
        probes = [good, coercible, bad]
        base = fp(M.to_schema())
        base_v = [verdict(M.to_schema(), p) for p in probes]
        hist = []
        for _ in range(rng.randint(1, 6)):
            op = rng.choice(ops)
            hist.append(op)
            with warnings.catch_warnings():
                warnings.simplefilter("ignore")
                try:
                    if op == "empty":
                        M.empty()
                    elif op == "validate_good":
                        M.validate(good.copy())
                    elif op == "validate_bad":
                        M.validate(bad.copy())
                    elif op == "validate_bad_lazy":
                        M.validate(bad.copy(), lazy=True)
                    elif op == "to_schema":
                        M.to_schema()
                    elif op == "to_yaml":
                        M.to_yaml()
                    elif op == "to_json_schema":
                        M.to_json_schema()
                    elif op == "strategy":
                        M.strategy(size=2)
                    elif op == "example":
                        from .c13 import draws_of
                        draws_of(M.strategy(size=1), 1)
                    elif op == "repr":
                        repr(M.to_schema())
                    elif op == "get_metadata":
                        M.get_metadata()
                    elif op == "subclass":
                        type(f"Sub{i}", (M,), {"__annotations__": {"c": str}, "Config": type("Config", (), {"coerce": True})}).to_schema()
                except Exception:  # noqa: BLE001
                    pass
            now = fp(M.to_schema())
            rep.count("model-op:" + op)
            if now != base:
                paths = diff_paths(json.loads(base), json.loads(now))
                rep.property_failure({"mode": "model", "coerce": coerce, "history": list(hist)},
                                     f"after {op} the schema of the model differs from its snapshot at {paths}")
                break
        else:
            v = [verdict(M.to_schema(), p) for p in probes]
            if v != base_v:
                rep.property_failure({"mode": "model", "coerce": coerce, "history": list(hist)},
                                     f"verdicts of the model's schema changed over the history: {base_v} -> {v}")
        rep.case({"mode": "model", "history": hist}, nontrivial=len(hist) >= 2)
        rep.evaluations += 1


def run_polars_histories(rep, rng, n):
    """polars schemas: validating (passing or failing, eager or lazy, DataFrame or LazyFrame) leaves the schema as it was —
    with a dataframe-level dtype, coercion and add_missing_columns in particular"""
    try:
        import polars as pl
        import pandera.polars as pap
    except Exception:  # noqa: BLE001
        return
    for _ in range(n):
        frame_dtype = rng.choice([None, pl.Float64, pl.Int64])
        mk = lambda: pap.DataFrameSchema(  # noqa: E731
            {"a": pap.Column(pl.Int64, pap.Check.ge(0), coerce=rng.random() < 0.5),
             "b": pap.Column(pl.Float64, nullable=True, required=rng.random() < 0.7)},
            dtype=frame_dtype, coerce=rng.random() < 0.3, add_missing_columns=rng.random() < 0.3, strict=rng.random() < 0.3)
        schema = mk()
        frames = [pl.DataFrame({"a": [1, 2], "b": [1.5, None]}), pl.DataFrame({"a": [-1, 2], "b": [1.0, 2.0]}),
                  pl.DataFrame({"a": ["1", "x"]}), pl.DataFrame({"a": [1.5, 2.5], "b": [1, 2], "zz": [0, 0]})]
        base = fp(schema)
        hist = []
        for _ in range(rng.randint(1, 5)):
            fi = rng.randrange(len(frames))
            f = frames[fi]
            lazy = rng.random() < 0.5
            as_lazy = rng.random() < 0.5
            hist.append([fi, lazy, as_lazy])
            with warnings.catch_warnings():
                warnings.simplefilter("ignore")
                try:
                    schema.validate(f.lazy() if as_lazy else f, lazy=lazy)
                except Exception:  # noqa: BLE001
                    pass
            now = fp(schema)
            rep.count("polars-history:validate")
            if now != base:
                paths = diff_paths(json.loads(base), json.loads(now))
                rep.property_failure({"mode": "polars-history", "frame_dtype": str(frame_dtype), "history": hist},
                                     f"polars: after validating, the schema differs from its snapshot at {paths}")
                break
        rep.case({"mode": "polars-history", "history": hist}, nontrivial=len(hist) >= 2)
        rep.evaluations += 1


def run_multiindex_histories(rep, rng, n):
    """MultiIndex schemas (coercion per level, on the MultiIndex, on the frame; stand-alone, inside a DataFrameSchema, inside
    a SeriesSchema; component-level transformations): repeated validations leave the schema and its verdicts as they were"""
    import pandera as pa
    for _ in range(n):
        lvl_coerce = [rng.random() < 0.6, rng.random() < 0.6]
        mi_coerce = rng.random() < 0.4
        mk_mi = lambda: pa.MultiIndex([pa.Index(int, coerce=lvl_coerce[0], name="i"),  # noqa: E731
                                       pa.Index(str, pa.Check.isin(["x", "y", "7"]), coerce=lvl_coerce[1], name="j")],
                                      coerce=mi_coerce)
        entry = rng.choice(["DataFrameSchema", "SeriesSchema", "MultiIndex"])
        if entry == "DataFrameSchema":
            schema = pa.DataFrameSchema({"v": pa.Column(int)}, index=mk_mi(), coerce=rng.random() < 0.3)
        elif entry == "SeriesSchema":
            schema = pa.SeriesSchema(int, index=mk_mi(), name="v")
        else:
            schema = mk_mi()
        ixs = [pd.MultiIndex.from_arrays([[1, 2], ["x", "y"]], names=["i", "j"]),
               pd.MultiIndex.from_arrays([["1", "2"], ["x", "y"]], names=["i", "j"]),        # needs coercion of level i
               pd.MultiIndex.from_arrays([[1, 2], ["x", 7]], names=["i", "j"]),             # needs coercion of level j
               pd.MultiIndex.from_arrays([[1, 2], ["x", "bad"]], names=["i", "j"])]         # fails the check
        frames = [pd.DataFrame({"v": [1, 2]}, index=ix) for ix in ixs]
        obj = (lambda f: f) if entry != "SeriesSchema" else (lambda f: f["v"])

        def vd(f):
            with warnings.catch_warnings():
                warnings.simplefilter("ignore")
                try:
                    schema.validate(obj(f.copy()))
                    return "ok"
                except (pa.errors.SchemaError, pa.errors.SchemaErrors):
                    return "reject"
                except Exception as e:  # noqa: BLE001
                    return "crash:" + type(e).__name__
        base = fp(schema)
        snap = copy.deepcopy(schema)
        v0 = None
        hist = []
        for step in range(rng.randint(2, 5)):
            fi = rng.randrange(len(frames))
            lazy = rng.random() < 0.5
            hist.append([fi, lazy])
            with warnings.catch_warnings():
                warnings.simplefilter("ignore")
                try:
                    schema.validate(obj(frames[fi].copy()), lazy=lazy)
                except Exception:  # noqa: BLE001
                    pass
            vs = [vd(f) for f in frames]
            v0 = v0 or vs
            now = fp(schema)
            rep.count(f"multiindex-history:{entry}")
            case = {"mode": "multiindex-history", "entry": entry, "level_coerce": lvl_coerce, "mi_coerce": mi_coerce, "history": hist}
            if now != base or schema != snap:
                paths = diff_paths(json.loads(base), json.loads(now))
                rep.property_failure(case, f"{entry} with a MultiIndex: after validating, the schema differs from its snapshot at {paths}")
                break
            if vs != v0:
                rep.property_failure(case, f"{entry} with a MultiIndex: verdicts on the probe frames changed over the history: "
                                           f"{v0} then {vs}")
                break
        rep.case({"mode": "multiindex-history", "entry": entry, "history": hist}, nontrivial=True)
        rep.evaluations += 1


def run(tier, replay=None):
    rep = Report(PROP, tier)
    regenerate(("skeletons", "schemamutation"))
    rep.audit = audit(PROP, MODULES)
    rep.audit["modules"] = MODULES
    rng = rng_for(PROP)
    if replay:
        rc_ = json.loads(open(replay).read())["case"]
        if rc_.get("mode") in ("model", "polars-history", "multiindex-history"):
            run_models(rep, rng_for(PROP, "models"), 60)
            run_polars_histories(rep, rng_for(PROP, "polars"), 80)
            run_multiindex_histories(rep, rng_for(PROP, "multiindex"), 80)
            return rep.finish(rule="replay of the model / polars history sweeps (deterministic under VERIF_SEED)")
        replay_one(rep, rc_, rng)
        return rep.finish(rule="replay")
    n = 400 if tier == "quick" else 10000
    for r in corpus_cases(PROP):
        if "history" in r:
            replay_one(rep, r, rng)
    for i in range(n):
        c = gen_schema_case(rng)
        try:
            run_history(rep, c, rng, rng.randint(1, 8))
        except Exception as e:  # noqa: BLE001
            rep.count("harness-exception:" + type(e).__name__)
    run_models(rep, rng_for(PROP, "models"), 60 if tier == "quick" else 1500)
    run_polars_histories(rep, rng_for(PROP, "polars"), 80 if tier == "quick" else 2000)
    run_multiindex_histories(rep, rng_for(PROP, "multiindex"), 80 if tier == "quick" else 2000)
    return rep.finish(
        rule="random operation histories (1-8 operations out of validate passing/failing/eager/lazy, to_yaml, to_json, "
             "to_script, statistics, repr/str/==, copy/deepcopy, every transforming method, coerce_dtype, strategy, "
             "Column.validate) on schemas with regex columns, index schemas, coercion and a tz-agnostic DateTime; after "
             "every operation a structural fingerprint of the whole object graph is compared with the snapshot, and "
             "verdicts on probe frames at the end; non-trivial = history of length >= 2",
        level_note=["the Effects skeletons cover the save/override/restore sites; aliasing of plain containers "
                    "(e.g. a statistics dict shared with a serialiser) is covered only by the differential"],
    )

"""C07 — validation outcomes do not depend on thread interleaving.

A deterministic scheduler built on `sys.settrace`: every worker thread is gated at `call` events of a
whitelist of pandera functions (the places where shared state is read, overridden or restored); a
schedule is a list of thread names, each entry lets that thread run to its next gate.
"""
from __future__ import annotations

import copy
import itertools
import json
import sys
import threading
import warnings

import pandas as pd

from . import c05
from .common import Report, audit, rng_for
from .regen import regenerate

PROP = "C07"
MODULES = ["PanderaModel.Props.C07"]

POINTS = {
    ("pandera/config.py", "config_context"), ("pandera/config.py", "reset_config_context"),
    ("pandera/config.py", "get_config_context"),
    ("pandera/api/polars/utils.py", "get_validation_depth"),
    ("pandera/backends/pandas/container.py", "run_schema_component_checks"),
    ("pandera/backends/pandas/container.py", "collect_schema_components"),
    ("pandera/backends/pandas/container.py", "_coerce_dtype_helper"),
    ("pandera/backends/pandas/components.py", "validate"),
    ("pandera/backends/pandas/components.py", "validate_column"),
    ("pandera/backends/pandas/array.py", "validate"),
    ("pandera/backends/pandas/array.py", "run_checks_and_handle_errors"),
    ("pandera/backends/polars/container.py", "validate"),
    ("pandera/backends/polars/components.py", "validate"),
    ("pandera/api/dataframe/components.py", "validate"),
    ("pandera/api/dataframe/components.py", "set_name"),
    ("pandera/validation_depth.py", "wrapper"),
    # every place a component's flags are read for coercion
    ("pandera/api/dataframe/components.py", "coerce_dtype"), ("pandera/api/pandas/array.py", "coerce_dtype"),
    ("pandera/api/dataframe/container.py", "coerce_dtype"),
    ("pandera/backends/pandas/array.py", "coerce_dtype"), ("pandera/backends/pandas/components.py", "coerce_dtype"),
    ("pandera/backends/pandas/container.py", "_coerce_column"), ("pandera/backends/pandas/container.py", "_try_coercion"),
    ("pandera/backends/polars/container.py", "run_schema_component_checks"),
    ("pandera/backends/polars/container.py", "collect_schema_components"),
    ("pandera/backends/polars/container.py", "_coerce_dtype_helper"),
    ("pandera/backends/polars/components.py", "coerce_dtype"), ("pandera/backends/polars/components.py", "run_checks"),
    ("pandera/backends/polars/base.py", "run_check"),
    # lazy registration of the backends at the first validation of a process
    ("pandera/api/base/schema.py", "get_backend"), ("pandera/api/base/schema.py", "register_backend"),
    ("pandera/api/pandas/container.py", "register_default_backends"), ("pandera/api/pandas/array.py", "register_default_backends"),
    ("pandera/api/pandas/components.py", "register_default_backends"),
    ("pandera/api/dataframe/container.py", "register_default_backends"),
}
# files in which *every* function call is a gate (process-global registries shared by all schemas and backends)
POINT_FILES = ("pandera/api/function_dispatch.py", "pandera/backends/pandas/register.py", "pandera/backends/polars/register.py",
               # the lazy, lock-free compilation of a model class into its schema
               "pandera/api/dataframe/model.py", "pandera/api/pandas/model.py")


class Sched:
    def __init__(self, schedule, patience=10):
        self.patience = patience
        self.schedule = list(schedule)
        self.pos = 0
        self.cv = threading.Condition()
        self.done = set()

    def turn(self):
        while self.pos < len(self.schedule) and self.schedule[self.pos] in self.done:
            self.pos += 1
        return self.schedule[self.pos] if self.pos < len(self.schedule) else None

    def wait_turn(self, name):
        with self.cv:
            while True:
                t = self.turn()
                if t is None or t == name:
                    if t is not None:
                        self.pos += 1
                    self.cv.notify_all()
                    return
                if not self.cv.wait(timeout=self.patience):
                    return  # safety valve: never deadlock the check

    def tracer(self, name):
        def tr(frame, event, arg):
            if event == "call":
                fn = frame.f_code.co_filename
                nm = frame.f_code.co_name
                for f, n in POINTS:
                    if nm == n and fn.endswith(f):
                        self.wait_turn(name)
                        break
                else:
                    if fn.endswith(POINT_FILES) and nm not in ("_is_field", "<genexpr>", "<listcomp>", "<dictcomp>", "__name__"):
                        self.wait_turn(name)
            return None
        return tr

    def run(self, jobs, copy_context=False):
        res = {}
        import contextvars

        def worker(name, fn):
            sys.settrace(self.tracer(name))
            self.wait_turn(name)
            try:
                res[name] = fn()
            except BaseException as e:  # noqa: BLE001
                res[name] = ("harness-exc", type(e).__name__)
            finally:
                sys.settrace(None)
                with self.cv:
                    self.done.add(name)
                    self.cv.notify_all()
        if copy_context:
            # workers that inherit the caller's context (asyncio.to_thread, copy_context().run): context copies are shallow
            ctxs = {n: contextvars.copy_context() for n in jobs}
            ths = [threading.Thread(target=lambda n=n, f=f: ctxs[n].run(worker, n, f)) for n, f in jobs.items()]
        else:
            ths = [threading.Thread(target=worker, args=(n, f)) for n, f in jobs.items()]
        for t in ths:
            t.start()
        for t in ths:
            t.join(60)
        return res


def outcome_of(fn):
    """canonical outcome of a validate call"""
    import pandera as pa
    with warnings.catch_warnings():
        warnings.simplefilter("ignore")
        try:
            out = fn()
        except pa.errors.SchemaErrors as e:
            return ("SchemaErrors", sorted(x.reason_code.name for x in e.schema_errors))
        except pa.errors.SchemaError as e:
            return ("SchemaError", e.reason_code.name)
        except Exception as e:  # noqa: BLE001
            return ("exc", type(e).__name__)
    if isinstance(out, pd.DataFrame):
        return ("ok", [str(t) for t in out.dtypes], out.values.tolist())
    try:
        import polars as pl
        if isinstance(out, pl.LazyFrame):
            out = out.collect()
            return ("ok-lazy", [str(t) for t in out.dtypes], out.rows())
        if isinstance(out, pl.DataFrame):
            return ("ok", [str(t) for t in out.dtypes], out.rows())
    except Exception:  # noqa: BLE001
        pass
    return ("ok", repr(type(out)))


# ---- job sets ------------------------------------------------------------------------------------

def jobsets():
    import pandera as pa
    sets = []
    # 1. pandas, ONE schema object with a coercing column, two threads (recorded region)
    def pandas_shared():
        s = pa.DataFrameSchema({"a": pa.Column(int, pa.Check.gt(0), coerce=True)})
        good = pd.DataFrame({"a": ["1", "2"]})
        bad = pd.DataFrame({"a": ["1", "-2"]})
        return {"schemas": [s], "jobs": {"A": lambda: s.validate(good), "B": lambda: s.validate(bad)},
                "region": "K_C07_sharedSchemaComponents", "name": "pandas-same-schema"}
    # 2. pandas, equal but distinct schema objects
    def pandas_distinct():
        s1 = pa.DataFrameSchema({"a": pa.Column(int, pa.Check.gt(0), coerce=True)})
        s2 = copy.deepcopy(s1)
        good = pd.DataFrame({"a": ["1", "2"]})
        bad = pd.DataFrame({"a": ["1", "-2"]})
        return {"schemas": [s1, s2], "jobs": {"A": lambda: s1.validate(good), "B": lambda: s2.validate(bad)},
                "region": None, "name": "pandas-distinct-schemas"}
    # 3. pandas regex column, one schema object (recorded region: name override)
    def pandas_regex_shared():
        s = pa.DataFrameSchema({"^a.*": pa.Column(int, pa.Check.gt(0), regex=True)})
        d1 = pd.DataFrame({"a1": [1], "a2": [2]})
        d2 = pd.DataFrame({"ax": [-1]})
        return {"schemas": [s], "jobs": {"A": lambda: s.validate(d1), "B": lambda: s.validate(d2, lazy=True)},
                "region": "K_C07_sharedSchemaComponents", "name": "pandas-regex-same-schema"}
    # 4. pandas three threads, distinct schemas, one with a config_context
    def pandas_three():
        from pandera.config import ValidationDepth, config_context
        mk = lambda: pa.DataFrameSchema({"a": pa.Column(int, pa.Check.gt(0)), "b": pa.Column(str)}, strict=True)
        s1, s2, s3 = mk(), mk(), mk()
        d_ok = pd.DataFrame({"a": [1], "b": ["x"]})
        d_bad = pd.DataFrame({"a": [-1], "b": ["x"]})

        def with_ctx():
            with config_context(validation_depth=ValidationDepth.SCHEMA_ONLY):
                return s3.validate(d_bad)
        return {"schemas": [s1, s2, s3],
                "jobs": {"A": lambda: s1.validate(d_ok), "B": lambda: s2.validate(d_bad), "C": with_ctx},
                "region": None, "name": "pandas-three-threads-config-context"}
    # 5. pandas, ONE schema object, coercion requested at the dataframe level only: the components' own flags are
    #    never overridden to a different value, so no interference is expected (not part of the recorded region)
    def pandas_shared_frame_coerce():
        s = pa.DataFrameSchema({"a": pa.Column(int, pa.Check.gt(0)), "b": pa.Column(float)}, coerce=True)
        good = pd.DataFrame({"a": ["1", "2"], "b": ["1.5", "2"]})
        bad = pd.DataFrame({"a": ["1", "-2"], "b": ["1", "2"]})
        return {"schemas": [s], "jobs": {"A": lambda: s.validate(good), "B": lambda: s.validate(bad)},
                "region": None, "name": "pandas-same-schema-frame-level-coerce"}
    # 6. the first uses of ONE model class (a fresh class per schedule): fields, a @dataframe_check and a check declared
    #    in Config; each frame violates one of them only
    def model_first_use():
        M = type("M", (pa.DataFrameModel,), {
            "__annotations__": {"a": int, "b": int}, "a": pa.Field(ge=-5),
            "nonneg_sum": pa.dataframe_check(lambda cls, df: df["a"] + df["b"] > -100),
            "Config": type("Config", (), {"ge": -1})})
        only_config = pd.DataFrame({"a": [-3], "b": [5]})       # violates the Config check (a >= -1) only
        good = pd.DataFrame({"a": [1], "b": [2]})
        return {"schemas": [], "jobs": {"A": lambda: M.validate(only_config), "B": lambda: M.validate(good)},
                "region": None, "name": "model-first-use-config-check", "bound": 26}
    sets += [pandas_shared, pandas_distinct, pandas_regex_shared, pandas_three, pandas_shared_frame_coerce, model_first_use]
    try:
        import polars as pl
        import pandera.polars as pap

        def polars_shared():
            s = pap.DataFrameSchema({"a": pap.Column(int, pap.Check.gt(0))})
            bad_df = pl.DataFrame({"a": [-1]})
            lf = pl.LazyFrame({"a": [-1]})
            return {"schemas": [s], "jobs": {"A": lambda: s.validate(bad_df), "B": lambda: s.validate(lf)},
                    "region": None, "name": "polars-same-schema-dataframe-vs-lazyframe"}

        def polars_pandas():
            sp = pap.DataFrameSchema({"a": pap.Column(int, pap.Check.gt(0))})
            sd = pa.DataFrameSchema({"a": pa.Column(int, pa.Check.gt(0))})
            lf = pl.LazyFrame({"a": [-1]})
            bad = pd.DataFrame({"a": [-1]})
            return {"schemas": [sp, sd], "jobs": {"A": lambda: sp.validate(lf), "B": lambda: sd.validate(bad)},
                    "region": None, "name": "polars-lazyframe-vs-pandas"}
        def polars_shared_coerce():
            s = pap.DataFrameSchema({"a": pap.Column(int, pap.Check.gt(0), coerce=True), "b": pap.Column(float)})
            good = pl.DataFrame({"a": ["1", "2"], "b": [1.0, 2.0]})
            bad = pl.DataFrame({"a": ["1", "-2"], "b": [1.0, 2.0]})
            return {"schemas": [s], "jobs": {"A": lambda: s.validate(good), "B": lambda: s.validate(bad)},
                    "region": None, "name": "polars-same-schema-coercing-column"}

        def polars_shared_frame_dtype():
            s = pap.DataFrameSchema({"a": pap.Column(pl.Int64, pap.Check.gt(0))}, dtype=pl.Int64, coerce=True)
            good = pl.DataFrame({"a": ["1", "2"]})
            bad = pl.DataFrame({"a": ["1", "-2"]})
            return {"schemas": [s], "jobs": {"A": lambda: s.validate(good), "B": lambda: s.validate(bad)},
                    "region": None, "name": "polars-same-schema-frame-dtype"}

        def polars_pandas_same_builtin():
            # different schemas and Check objects, the same built-in check names on both backends
            sp = pap.DataFrameSchema({"a": pap.Column(int, [pap.Check.gt(0), pap.Check.isin([1, 2, 3])])})
            sd = pa.DataFrameSchema({"a": pa.Column(int, [pa.Check.gt(0), pa.Check.isin([1, 2, 3])])})
            pdf = pl.DataFrame({"a": [1, 2]})
            ddf = pd.DataFrame({"a": [1, -2]})
            return {"schemas": [sp, sd], "jobs": {"A": lambda: sp.validate(pdf), "B": lambda: sd.validate(ddf)},
                    "region": None, "name": "polars-dataframe-vs-pandas-same-builtins"}
        def polars_inherited_context():
            # distinct schemas, the workers run in copies of the caller's context (which holds a configuration object)
            s1 = pap.DataFrameSchema({"a": pap.Column(int, pap.Check.gt(0))})
            s2 = pap.DataFrameSchema({"a": pap.Column(int, pap.Check.gt(0))})
            bad_df = pl.DataFrame({"a": [-1]})
            lf = pl.LazyFrame({"a": [-1]})
            return {"schemas": [s1, s2], "jobs": {"A": lambda: s1.validate(bad_df), "B": lambda: s2.validate(lf)},
                    "region": None, "name": "polars-dataframe-vs-lazyframe-inherited-context", "copy_context": True}
        sets += [polars_shared, polars_pandas, polars_shared_coerce, polars_shared_frame_dtype, polars_pandas_same_builtin,
                 polars_inherited_context]
    except Exception:  # noqa: BLE001
        pass
    return sets


# ---- process-global state touched during a validation ---------------------------------------------

def global_state():
    """process-wide settings of the libraries pandera drives: whoever changes them, even for a moment, changes them for
    every thread"""
    import numpy as np
    out = [("numpy.errstate", tuple(sorted(np.geterr().items())))]
    try:
        from pandas._config import config as pdc
        out.append(("pandas.options", tuple(sorted((k, repr(v)) for k, v in _flat(pdc._global_config)))))
    except Exception:  # noqa: BLE001
        pass
    try:
        import pandera.config as cfg
        out.append(("pandera.CONFIG", tuple(sorted((k, repr(v)) for k, v in vars(cfg.CONFIG).items()))))
    except Exception:  # noqa: BLE001
        pass
    try:
        import decimal
        out.append(("decimal.context", repr(decimal.getcontext().prec)))
    except Exception:  # noqa: BLE001
        pass
    return out


def _flat(d, prefix=""):
    for k, v in d.items():
        if isinstance(v, dict):
            yield from _flat(v, prefix + k + ".")
        else:
            yield prefix + k, v


def watch_jobs():
    """single jobs whose parsing / checking steps are candidates for touching library-wide settings"""
    import pandera as pa
    obj = lambda vals: pd.Series(vals, dtype=object)  # noqa: E731
    jobs = {
        "frame-default": lambda: pa.DataFrameSchema({"a": pa.Column(int, default=0), "b": pa.Column(str, default="z", nullable=True)}).validate(
            pd.DataFrame({"a": obj([1, None, 3]), "b": obj(["x", None, "y"])})),
        "series-default": lambda: pa.SeriesSchema(int, default=0).validate(obj([1, None, 3])),
        "column-default": lambda: pa.Column(float, default=1.5, name="a").validate(pd.DataFrame({"a": obj([1.0, None])})),
        "coerce": lambda: pa.DataFrameSchema({"a": pa.Column(int, coerce=True)}, coerce=True).validate(pd.DataFrame({"a": ["1", "2"]})),
        "coerce-fail-lazy": lambda: pa.DataFrameSchema({"a": pa.Column(int, coerce=True)}).validate(pd.DataFrame({"a": ["1", "x"]}), lazy=True),
        "checks": lambda: pa.DataFrameSchema({"a": pa.Column(float, [pa.Check.gt(0), pa.Check(lambda s_: s_ / s_ > 0)], nullable=True)}).validate(
            pd.DataFrame({"a": [1.0, 0.0, float("nan")]}), lazy=True),
        "add-missing": lambda: pa.DataFrameSchema({"a": pa.Column(int), "b": pa.Column(float, default=2.0)}, add_missing_columns=True).validate(
            pd.DataFrame({"a": [1]})),
        "drop-invalid": lambda: pa.DataFrameSchema({"a": pa.Column(int, pa.Check.gt(0))}, drop_invalid_rows=True).validate(
            pd.DataFrame({"a": [1, -1]}), lazy=True),
        "infer+yaml": lambda: pa.infer_schema(pd.DataFrame({"a": [1, 2], "b": ["x", "y"]})).to_yaml()[:0] or pd.DataFrame(),
    }
    try:
        import polars as pl
        import pandera.polars as pap
        jobs["polars-default"] = lambda: pap.DataFrameSchema({"a": pap.Column(pl.Int64, default=0)}).validate(pl.DataFrame({"a": [1, None]}))
        jobs["polars-coerce"] = lambda: pap.DataFrameSchema({"a": pap.Column(pl.Int64, coerce=True)}).validate(pl.DataFrame({"a": ["1", "2"]}))
    except Exception:  # noqa: BLE001
        pass
    return jobs


def run_global_watch(rep):
    """run each job alone under a tracer that compares the process-wide settings with their initial value at every call
    event; where a job holds them changed, another thread runs every job to completion at exactly that moment (the first
    thread is parked inside its window) — every outcome must be the one of the job run alone, and the settings must be
    back afterwards"""
    jobs = watch_jobs()
    solo = {n: outcome_of(f) for n, f in jobs.items()}
    solo2 = {n: outcome_of(f) for n, f in jobs.items()}
    base = global_state()
    for name, fn in jobs.items():
        if solo[name] != solo2[name]:
            rep.count("global-watch:unstable-solo")
            continue
        windows = []

        def tracer(frame, event, arg):
            if event == "call" and not windows:
                now = global_state()
                if now != base:
                    changed = [k for (k, v), (_, w) in zip(now, base) if v != w]
                    inner = {}
                    # the other threads run now, while this one sits in its window

                    def others():
                        for n2, f2 in jobs.items():
                            inner[n2] = outcome_of(f2)
                    t = threading.Thread(target=others)
                    t.start()
                    t.join(120)
                    windows.append((changed, frame.f_code.co_filename.split("site-packages/")[-1].split("/repo/")[-1],
                                    frame.f_code.co_name, inner))
            return None
        res = {}

        def worker():
            sys.settrace(tracer)
            try:
                res["out"] = outcome_of(fn)
            finally:
                sys.settrace(None)
        th = threading.Thread(target=worker)
        th.start()
        th.join(300)
        after = global_state()
        case = {"mode": "global-watch", "job": name}
        rep.case(case, nontrivial=bool(windows))
        rep.evaluations += 1
        rep.count("global-watch:" + ("window" if windows else "no-window"))
        if after != base:
            changed = [k for (k, v), (_, w) in zip(after, base) if v != w]
            rep.property_failure(case, f"after the job `{name}` the process-wide settings {changed} are not as before")
            base = after
            continue
        if not windows:
            continue
        changed, fname, func, inner = windows[0]
        case = dict(case, window={"settings": changed, "at": f"{fname}:{func}"})
        diff = {n2: (inner[n2], solo[n2]) for n2 in inner if inner[n2] != solo[n2]}
        if diff:
            n2 = sorted(diff)[0]
            rep.property_failure(case, f"while `{name}` holds {changed} changed (inside {fname}:{func}), the job `{n2}` run by "
                                       f"another thread gives {str(diff[n2][0])[:120]}; alone it gives {str(diff[n2][1])[:120]}")
        elif res.get("out") != solo[name]:
            rep.property_failure(case, f"`{name}` interleaved with the other jobs gives {str(res.get('out'))[:120]}; alone "
                                       f"{str(solo[name])[:120]}")


def schedules_for(names, rng, n_random, exhaustive_len, bound=13):
    names = sorted(names)
    out = []
    # solo-like sequential orders first
    for perm in itertools.permutations(names):
        out.append([x for x in perm for _ in range(40)])
    # systematic: every schedule of `exhaustive_len` turns followed by free running
    for combo in itertools.product(names, repeat=exhaustive_len):
        out.append(list(combo))
    # preemption-bounded: one thread runs i gates, another j gates, then the first runs on (two context switches)
    if len(names) == 2:
        for a, b in ((names[0], names[1]), (names[1], names[0])):
            for i in range(0, bound):
                for j in range(1, bound):
                    out.append([a] * i + [b] * j + [a] * 60)
    for _ in range(n_random):
        k = rng.randint(4, 24)
        out.append([rng.choice(names) for _ in range(k)])
    return out


def run_jobset(rep, make, rng, n_random, exhaustive_len):
    from pandera.config import get_config_context, get_config_global
    info = make()
    names = list(info["jobs"])
    # solo baselines on fresh objects
    solo = {}
    for n in names:
        fresh = make()
        solo[n] = outcome_of(fresh["jobs"][n])
    for sched in schedules_for(names, rng, n_random, exhaustive_len, bound=info.get("bound", 13)):
        cur = make()
        fps = [c05.fp(s) for s in cur["schemas"]]
        cfg0 = (get_config_context(validation_depth_default=None), copy.copy(get_config_global()))
        jobs = {n: (lambda f=f: outcome_of(f)) for n, f in cur["jobs"].items()}
        if info.get("copy_context"):
            from pandera.config import reset_config_context
            reset_config_context()          # the caller's context carries a configuration object
            cfg0 = (get_config_context(validation_depth_default=None), copy.copy(get_config_global()))
        res = Sched(sched).run(jobs, copy_context=bool(info.get("copy_context")))
        case = {"jobset": info["name"], "schedule": sched}
        rep.case(case, nontrivial=len(set(sched)) > 1)
        rep.count("jobset:" + info["name"])
        bad = [n for n in names if res.get(n) != solo[n]]
        if bad:
            rep.property_failure(case, f"thread {bad[0]}: outcome {res.get(bad[0])} under this schedule, "
                                       f"{solo[bad[0]]} when run alone", region=info["region"])
            continue
        cfg1 = (get_config_context(validation_depth_default=None), copy.copy(get_config_global()))
        if cfg1 != cfg0:
            rep.property_failure(case, f"configuration after the calls {cfg1[0]} differs from before {cfg0[0]}",
                                 region=info["region"])
            continue
        fps1 = [c05.fp(s) for s in cur["schemas"]]
        if fps1 != fps:
            i = [a != b for a, b in zip(fps, fps1)].index(True)
            paths = c05.diff_paths(json.loads(fps[i]), json.loads(fps1[i]))
            rep.property_failure(case, f"a schema is not as before the calls: {paths}", region=info["region"])


COLD = r"""
import json, sys, warnings
warnings.simplefilter("ignore")
sys.path.insert(0, "/verif")
import pandas as pd
from harness.c07 import Sched, outcome_of
import pandera as pa
sched = json.loads(sys.argv[1])
sa = pa.DataFrameSchema({"a": pa.Column(int, pa.Check.gt(0))})
sb = pa.DataFrameSchema({"b": pa.Column(float)}, strict=True)
da, db = pd.DataFrame({"a": [1, 2]}), pd.DataFrame({"b": [1.5]})
# (a thread parked inside an import or a cached function can hold a lock the other one needs: short patience)
res = Sched(sched, patience=0.4).run({"A": lambda: outcome_of(lambda: sa.validate(da)), "B": lambda: outcome_of(lambda: sb.validate(db))})
print("COLD-RESULT " + json.dumps({k: list(v) if isinstance(v, tuple) else v for k, v in res.items()}, default=str))
"""


def cold_start(rep, tier):
    """the first validations of a process, concurrently, in a fresh interpreter per schedule (the backends register
    themselves lazily at the first validation): both calls must return what they return alone"""
    import os
    import subprocess
    from concurrent.futures import ThreadPoolExecutor
    from .common import REPO
    scheds = []
    rng_i = range(0, 5) if tier == "quick" else range(0, 10)
    rng_j = (1, 2, 4, 8) if tier == "quick" else range(1, 12)
    for a, b in (("A", "B"), ("B", "A")):
        for i in rng_i:
            for j in rng_j:
                scheds.append([a] * i + [b] * j + [a] * 60)
    env = dict(os.environ, PYTHONPATH=f"{REPO}:/verif", PYTHONHASHSEED="0")

    def one(sched):
        try:
            p = subprocess.run(["/venv/bin/python", "-W", "ignore", "-c", COLD, json.dumps(sched)], capture_output=True,
                               text=True, env=env, timeout=180)
        except subprocess.TimeoutExpired:
            return sched, None, "timeout"
        line = next((l for l in p.stdout.splitlines() if l.startswith("COLD-RESULT ")), None)
        return sched, (json.loads(line[len("COLD-RESULT "):]) if line else None), p.stderr[-300:]
    with ThreadPoolExecutor(max_workers=8) as ex:
        results = list(ex.map(one, scheds))
    want = None
    for sched, res, err in results:
        case = {"jobset": "cold-start", "schedule": sched}
        rep.case(case, nontrivial=True)
        rep.evaluations += 1
        if res is None:
            rep.count("cold-start:no-result")
            continue
        rep.count("cold-start:" + "/".join(str(res.get(n, ["?"])[0]) for n in ("A", "B")))
        ok = all(res.get(n, [None])[0] == "ok" for n in ("A", "B"))
        if not ok:
            rep.property_failure(case, f"first validations of a process, concurrently: outcomes {res} (each returns its frame when run "
                                       "alone)")


def run(tier, replay=None):
    rep = Report(PROP, tier)
    regenerate(("skeletons",))
    rep.audit = audit(PROP, MODULES)
    rep.audit["modules"] = MODULES
    rng = rng_for(PROP)
    sets = jobsets()
    if replay:
        case = json.loads(open(replay).read())["case"]
        if case.get("jobset") == "cold-start":
            cold_start(rep, "quick")
            return rep.finish(rule="replay of the cold-start schedules")
        if case.get("mode") == "global-watch":
            run_global_watch(rep)
            return rep.finish(rule="replay of the process-wide settings watch")
        for make in sets:
            info = make()
            if info["name"] == case["jobset"]:
                names = list(info["jobs"])
                solo = {n: outcome_of(make()["jobs"][n]) for n in names}
                cur = make()
                if info.get("copy_context"):
                    from pandera.config import reset_config_context
                    reset_config_context()
                res = Sched(case["schedule"]).run({n: (lambda f=f: outcome_of(f)) for n, f in cur["jobs"].items()},
                                                  copy_context=bool(info.get("copy_context")))
                bad = [n for n in names if res.get(n) != solo[n]]
                rep.case(case)
                if bad:
                    rep.property_failure(case, f"thread {bad[0]}: {res.get(bad[0])} vs solo {solo[bad[0]]}",
                                         region=info["region"])
        return rep.finish(rule="replay")
    from .common import corpus_cases
    for case in corpus_cases(PROP):
        for make in sets:
            info = make()
            if info["name"] == case.get("jobset"):
                names = list(info["jobs"])
                solo = {n: outcome_of(make()["jobs"][n]) for n in names}
                cur = make()
                res = Sched(case["schedule"]).run({n: (lambda f=f: outcome_of(f)) for n, f in cur["jobs"].items()})
                bad = [n for n in names if res.get(n) != solo[n]]
                rep.case(case)
                if bad:
                    rep.property_failure(case, f"thread {bad[0]}: {res.get(bad[0])} under this schedule, "
                                               f"{solo[bad[0]]} when run alone", region=info["region"])
    run_global_watch(rep)
    n_random = 12 if tier == "quick" else 400
    ex_len = 4 if tier == "quick" else 8
    for make in sets:
        run_jobset(rep, make, rng, n_random, ex_len)
    cold_start(rep, tier)
    rep.extra["schedules_exhaustive_prefix_length"] = ex_len
    return rep.finish(
        rule="job sets (pandas same schema object / distinct schema objects / regex column / three threads with a "
             "config_context; polars DataFrame vs LazyFrame on one schema; polars vs pandas) run under a deterministic "
             "settrace scheduler that gates threads at call events of the functions that read, override or restore "
             "shared state: all sequential orders, every schedule prefix of the stated length, random schedules; each "
             "thread's outcome vs its solo run, configuration and schema fingerprints after the join; non-trivial = the "
             "schedule switches threads",
        level_note=["preemption is modelled at traced call events; GIL release inside C extensions is not modelled",
                    "bounded schedule exploration supports the correspondence and the failing-input search; the "
                    "unbounded claim is the Lean non-interference theorem"],
    )

"""C10 — coercion either yields conforming data or names exactly the uncoercible values.

Tie: (T) Generated/CoerceRules.lean (shape of the try_coerce wrappers and of the failure-case
computation) with a `decide` obligation in Props/C10.lean; (D) for the modelled targets (int64,
float64, str) the implementation's `try_coerce` on Series / Index / frame columns over the abstract
value pool vs Lean's `tryCoerce` (coerced values, or failing positions and values); for **every**
registered dtype of the pandas and polars engines the contract itself on the implementation with the
implementation's own `coerce_value` as the element oracle (coupling of coerce / coerce_value /
check, length and labels, failure cases, idempotence, identity on conforming data).
"""
from __future__ import annotations

import json
import math
import warnings

import numpy as np
import pandas as pd

from . import absdata as A
from .common import Report, audit, corpus_cases, rng_for, run_driver, warm_up_backends
from .regen import regenerate

PROP = "C10"
MODULES = ["PanderaModel.Props.C10"]

TARGETS = ["int64", "float64", "str"]


def isnull(x):
    try:
        return x is None or x is pd.NaT or x is pd.NA or (isinstance(x, float) and math.isnan(x))
    except Exception:  # noqa: BLE001
        return False


# ---- the modelled part ----------------------------------------------------------------------------

def gen_abs_case(rng):
    tgt = rng.choice(TARGETS)
    n = rng.choice([0, 1, 2, 3, 4, 5])
    vals = []
    for _ in range(n):
        r = rng.random()
        if r < 0.25:
            vals.append(A.vint(rng.choice([0, 1, -3, 12, 2 ** 40, -7])))
        elif r < 0.45:
            vals.append(A.vflt(rng.choice([0, 4, 6, -10, 1, 7, 400, -3])))
        elif r < 0.75:
            # numeric strings within the grammar of the model's parser (plain decimals on the quarter grid) and non-numeric ones;
            # exponents, padding and non-ASCII digits are left to the registry part (the implementation's own element oracle)
            vals.append(A.vstr(rng.choice(["12", "-4", "2.5", "0.25", "x", "", "3.0", "-0.75", "True", "7", "a1", "1.2.3"])))
        elif r < 0.85:
            vals.append(A.vbool(rng.random() < 0.5))
        else:
            vals.append(A.NULL)
    return {"kind": "abs", "dtype": tgt, "vals": vals, "container": rng.choice(["series", "index", "column"])}


def run_abs(rep, cases):
    from pandera import errors
    from pandera.engines import pandas_engine as pe
    answers = run_driver("C10", [{"dtype": c["dtype"], "vals": c["vals"]} for c in cases])
    for c, a in zip(cases, answers):
        if "error" in a and isinstance(a["error"], str):
            rep.correspondence_break(c, "driver: " + a["error"])
            continue
        T = pe.Engine.dtype(A.SCHEMA_DTYPE[c["dtype"]])
        py = [A.to_py(v) for v in c["vals"]]
        labels = [f"r{i}" for i in range(len(py))]
        s = pd.Series(py, dtype=object, index=labels)
        obj = s if c["container"] != "index" else pd.Index(py, dtype=object)
        with warnings.catch_warnings():
            warnings.simplefilter("ignore")
            try:
                out = T.try_coerce(obj)
                impl = ("ok", [A.from_py(x) for x in (out.tolist())])
                if len(out) != len(obj) or (c["container"] != "index" and list(out.index) != labels):
                    rep.property_failure(c, "coerced container has different length / labels")
                    continue
                if not _check(T, out):
                    rep.property_failure(c, f"coerced data of dtype {out.dtype} does not pass {T}.check")
                    continue
            except errors.ParserError as e:
                fc = e.failure_cases
                try:
                    if c["container"] == "index":      # an Index has no labels of its own: values only
                        cells = [[-1, A.from_py(x)] for x in fc["failure_case"].tolist()]
                    else:
                        cells = sorted(([int(str(i)[1:]), A.from_py(x)]
                                        for i, x in zip(fc["index"].tolist(), fc["failure_case"].tolist())),
                                       key=lambda p: p[0])
                except Exception as e2:  # noqa: BLE001
                    cells = "unreadable:" + type(e2).__name__
                impl = ("error", cells)
            except ValueError as e:      # value outside the abstract grid after coercion
                rep.count("abs:outside-grid")
                continue
            except Exception as e:  # noqa: BLE001
                rep.property_failure(c, f"try_coerce leaked {type(e).__name__}: {str(e)[:80]}")
                continue
        rep.case(c, nontrivial=len(c["vals"]) > 0)
        rep.count(f"abs:{c['dtype']}:{c['container']}:{impl[0]}")
        model = ("ok", a["ok"]) if "ok" in a else ("error", sorted(a["error"], key=lambda p: p[0]))
        if c["container"] == "index" and model[0] == "error" and impl[0] == "error" and isinstance(impl[1], list):
            key = lambda p: json.dumps(p[1], sort_keys=True)  # noqa: E731
            model = ("error", sorted([[-1, v] for _, v in model[1]], key=key))
            impl = ("error", sorted(impl[1], key=key))
        if model != impl:
            rep.correspondence_break(c, f"model {json.dumps(model)[:200]} implementation {json.dumps(impl)[:200]}")


def _check(T, out):
    from pandera.engines import pandas_engine as pe
    try:
        r = T.check(pe.Engine.dtype(out.dtype), out)
    except Exception:  # noqa: BLE001
        return False
    return bool(r is True or (hasattr(r, "all") and r.all()))


# ---- every registered dtype -------------------------------------------------------------------------

POOL = [1, 0, -3, 2 ** 40, 255, 1.5, 2.0, -0.0, float("nan"), None, "7", "x", "2.5", "", "True", True, False,
        pd.Timestamp("2020-01-01"), "2020-01-02", pd.Timedelta("1D"), "1 days", b"b", 1 + 2j, [1, 2], {"a": 1},
        np.int64(5), np.float32(0.5)]


# values that are equal and hash alike across types (1 == 1.0 == True) next to a value no numeric / temporal type
# accepts: the element-wise probe must judge each element on its own
DIRECTED = [[1, "x", True], [True, "x", 1], [0, "x", False, 0.0], [1.0, "x", 1, True], [1, None, "x", 7],
            # the inputs of the recorded regions (so that every listed finding is demonstrated on every run)
            ["1 days", 1.5], ["x"], [float("nan")], [None], [b"b", "7"]]


def pandas_dtypes():
    from pandera.engines import pandas_engine as pe
    reg = pe.Engine._registry[pe.Engine]
    out = {}
    for k in list(reg.equivalents.keys()):
        try:
            d = pe.Engine.dtype(k)
        except Exception:  # noqa: BLE001
            continue
        out.setdefault(f"{d}|{type(d).__name__}", d)
    return out


def family(name, T):
    cls = type(T).__name__
    if cls == "ArrowDictionary":
        return "pyarrow-dictionary"
    if cls.startswith("Arrow"):
        return "pyarrow"
    if cls in ("INT8", "INT16", "INT32", "INT64", "UINT8", "UINT16", "UINT32", "UINT64"):
        return "nullable-int"
    if cls in ("Category",):
        return "category"
    if cls == "ArrowDictionary":
        return "pyarrow-dictionary"
    if cls in ("Timedelta64", "Timedelta"):
        return "timedelta"
    if cls in ("Date", "Decimal"):
        return cls.lower()
    if cls in ("PythonDict", "PythonList", "PythonTuple", "PythonTypedDict", "PythonNamedTuple"):
        return "python-generic"
    return "core"


def values_agree(out, elem, vals):
    """c'[i] == coerce_value(T, c[i]) wherever the input element is not null (nulls stay null)"""
    try:
        got = list(out)
    except Exception:  # noqa: BLE001
        return True
    for g, (k, w), x in zip(got, elem, vals):
        if isnull(x):
            continue            # (whether a null stays null depends on the type's ability to hold one)
        if k != "ok":
            continue
        try:
            if isnull(w) and isnull(g):
                continue
            same = (g == w)
            if hasattr(same, "all"):
                same = bool(same.all())
            if not same and str(g) != str(w):
                return False
        except Exception:  # noqa: BLE001
            if str(g) != str(w):
                return False
    return True


def typed_sources():
    """containers that already have a native dtype (the object-pool containers above are all of dtype object)"""
    out = [("datetime64+NaT", pd.Series(pd.to_datetime(["2020-01-01 00:00", None, "2021-06-30 12:00"], format="%Y-%m-%d %H:%M"))),
           ("timedelta64+NaT", pd.Series(pd.to_timedelta(["1D", None, "90min"]))),
           ("int64", pd.Series([1, 0, -3], dtype="int64")), ("float64+NaN", pd.Series([1.5, float("nan"), 2.0])),
           ("bool", pd.Series([True, False])), ("uint8", pd.Series([0, 255], dtype="uint8"))]
    for nm, mk in (("Int64+NA", lambda: pd.Series([1, None, 3], dtype="Int64")), ("string+NA", lambda: pd.Series(["7", None, "x"], dtype="string")),
                   ("boolean+NA", lambda: pd.Series([True, None], dtype="boolean")),
                   ("datetime64[UTC]", lambda: pd.Series(pd.to_datetime(["2020-01-01", None], utc=True)))):
        try:
            out.append((nm, mk()))
        except Exception:  # noqa: BLE001
            pass
    return out


def run_typed_sources(rep):
    """every registered dtype x every natively typed container (series and index)"""
    dts = pandas_dtypes()
    for name, T in sorted(dts.items()):
        fam = family(name, T)
        for src_name, src in typed_sources():
            for cont in ("series", "index"):
                vals = list(src)
                labels = [f"r{i}" for i in range(len(vals))]
                try:
                    obj = src.set_axis(labels) if cont == "series" else pd.Index(src.dropna())
                except Exception:  # noqa: BLE001
                    continue
                if cont == "index":
                    vals = list(obj)
                    labels = [f"r{i}" for i in range(len(vals))]
                case = {"kind": "typed-source", "dtype": name, "source": src_name, "container": cont, "vals": [repr(v) for v in vals]}
                judge_trial(rep, case, name, T, fam, obj, vals, labels, cont)


def judge_trial(rep, case, name, T, fam, obj, vals, labels, cont):
    """one coercion of one container: contract clauses with the dtype's own `coerce_value` as element oracle"""
    from pandera import errors
    n = len(vals)
    elem = []
    for x in vals:
        try:
            elem.append(("ok", T.coerce_value(x)))
        except Exception:  # noqa: BLE001
            elem.append(("fail", None))
    with warnings.catch_warnings():
        warnings.simplefilter("ignore")
        try:
            out = T.try_coerce(obj)
            kind = "ok"
        except errors.ParserError as e:
            kind, fc = "parser", e.failure_cases
        except Exception as e:  # noqa: BLE001
            kind = "leak:" + type(e).__name__
        rep.case(case)
        rep.count(f"registry:{fam}:{kind.split(':')[0]}")
        what = None
        if kind == "ok":
            if len(out) != n or (cont != "index" and list(out.index) != labels):
                what = "shape"
            elif not _check(T, out):
                what = "check-fails-on-coerced-data"
            elif any(k == "fail" and not isnull(x) for (k, _), x in zip(elem, vals)):
                what = "container-coerced-an-element-coerce_value-rejects"
            elif (fam == "core" or fam.startswith("parametrised")) and case.get("kind") != "typed-source" \
                    and not values_agree(out, elem, vals):
                what = "values-differ-from-coerce_value"
            else:
                try:
                    again = T.try_coerce(out)
                    same = again.equals(out) if hasattr(again, "equals") else list(again) == list(out)
                    if not same:
                        what = "not-idempotent"
                except Exception as e:  # noqa: BLE001
                    what = "second-coercion-raises:" + type(e).__name__
        elif kind == "parser":
            try:
                got = sorted("null" if isnull(x) else repr(x) for x in fc["failure_case"].tolist()) if fc is not None else []
            except Exception:  # noqa: BLE001
                got = None
            want = sorted("null" if isnull(x) else repr(x) for (k, _), x in zip(elem, vals) if k == "fail")
            if got != want:
                what = "failure-cases-differ-from-uncoercible-elements"
        else:
            what = kind
    if what and case.get("kind") == "typed-source" and what.split(":")[0] in (
            "container-coerced-an-element-coerce_value-rejects", "failure-cases-differ-from-uncoercible-elements"):
        # natively typed sources are judged on the container's own clauses (shape, labels, check on the result, idempotence,
        # error class); how numpy's casts between native dtypes relate to the scalar conversions is outside this sweep
        rep.count("typed-source:scalar-oracle-clause-not-judged")
        return
    if what == "values-differ-from-coerce_value" and any(isinstance(x, bytes) for x in vals) and \
            values_agree(out, [e if not isinstance(x, bytes) else ("skip", None) for e, x in zip(elem, vals)], vals):
        # the only disagreeing elements are bytes coerced to a string type (listed region)
        rep.property_failure(case, f"{name}: {what}", region="K_C10_bytes-to-str:values-differ-from-coerce_value")
        return
    if what:
        rep.property_failure(case, f"{name}: {what}", region=f"K_C10_{fam}:{what.split(':')[0]}")


def run_registry(rep, tier, rng):
    from pandera import errors
    dts = pandas_dtypes()
    trials = 6 if tier == "quick" else 150
    for name, T in sorted(dts.items()):
        fam = family(name, T)
        for trial in range(trials + len(DIRECTED)):
            n = rng.randint(0, 4)
            vals = [rng.choice(POOL) for _ in range(n)]
            if trial < len(DIRECTED):
                vals = list(DIRECTED[trial])
                n = len(vals)
            cont = rng.choice(["series", "index", "column"])
            if cont == "index":
                vals = [v for v in vals if not isnull(v)]        # (an Index holding None / NaN next to other kinds is re-inferred by pandas)
                n = len(vals)
            case = {"kind": "registry", "dtype": name, "vals": [repr(v) for v in vals], "container": cont}
            labels = [f"r{i}" for i in range(n)]
            try:
                s = pd.Series(vals, dtype=object, index=labels)
                obj = pd.Index(vals, dtype=object) if cont == "index" else s
            except Exception:  # noqa: BLE001
                continue
            judge_trial(rep, case, name, T, fam, obj, vals, labels, cont)
        # conforming data: identity
        try:
            with warnings.catch_warnings():
                warnings.simplefilter("ignore")
                base = T.try_coerce(pd.Series([1, 0, 1], dtype=object))
                if _check(T, base):
                    again = T.try_coerce(base)
                    rep.count("registry:conforming-identity")
                    if not again.equals(base):
                        rep.property_failure({"kind": "registry", "dtype": name, "vals": ["conforming"]},
                                             f"{name}: coercing conforming data changes it",
                                             region=f"K_C10_{fam}:conforming-not-identity")
        except Exception:  # noqa: BLE001
            pass


def run_parametrised(rep, tier, rng):
    """data types with parameters (declared categories, time zones, decimal precision / scale) and containers that
    already have a related dtype (a categorical over a wider or narrower set, tz-aware / naive timestamps)"""
    from pandera.engines import pandas_engine as pe
    targets = []
    try:
        targets += [("Category[a,b]", pe.Category(categories=["a", "b"]), ["a", "b", "z", None, "b"]),
                    ("Category[a,b,c;ordered]", pe.Category(categories=["a", "b", "c"], ordered=True), ["a", "c", "zz", None]),
                    ("Category[1,2]", pe.Category(categories=[1, 2]), [1, 2, 9, None])]
    except Exception:  # noqa: BLE001
        pass
    try:
        targets += [("DateTime[UTC]", pe.DateTime(tz="UTC"), [pd.Timestamp("2020-01-01"), "2020-01-02", "x", None,
                                                              pd.Timestamp("2020-01-01", tz="Europe/Berlin")]),
                    ("Decimal(6,2)", pe.Decimal(6, 2), [1, "2.5", "x", None, 1.25, "12345.678"]),
                    ("DateTime[format=%d/%m/%Y]", pe.DateTime(to_datetime_kwargs={"format": "%d/%m/%Y"}),
                     ["01/02/2020", "2020-02-01", "31/12/2019", None, "13/01/2021"]),
                    ("DateTime[unit=s]", pe.DateTime(to_datetime_kwargs={"unit": "s"}), [1, 86400, None, 1600000000])]
    except Exception:  # noqa: BLE001
        pass
    trials = 12 if tier == "quick" else 300
    for name, T, pool in targets:
        # (the recorded category region is about a Category *without* declared categories only)
        fam = "category-declared" if name.startswith("Category") else \
            "parametrised-tz-aware" if name == "DateTime[UTC]" else "parametrised-" + family(name, T)
        for _ in range(trials):
            n = rng.randint(0, 4)
            vals = [rng.choice(pool) for _ in range(n)]
            cont = rng.choice(["series", "index", "categorical", "categorical"]) if name.startswith("Category") else \
                rng.choice(["series", "index"])
            if cont == "index":
                vals = [v for v in vals if not isnull(v)]
                n = len(vals)
            labels = [f"r{i}" for i in range(n)]
            case = {"kind": "parametrised", "dtype": name, "vals": [repr(v) for v in vals], "container": cont}
            try:
                s_ = pd.Series(vals, dtype=object, index=labels)
                if cont == "categorical":
                    # already categorical, over the values present plus one more: wider than (or different from) the target
                    cats = sorted({v for v in vals if not isnull(v)} | {pool[0]}, key=repr)
                    obj = s_.astype(pd.CategoricalDtype(cats))
                else:
                    obj = pd.Index(vals, dtype=object) if cont == "index" else s_
            except Exception:  # noqa: BLE001
                continue
            judge_trial(rep, case, name + "|" + type(T).__name__, T, fam, obj, vals, labels, "series" if cont == "categorical" else cont)


def run_polars(rep, tier, rng):
    try:
        import polars as pl
        from pandera.engines import polars_engine as ple
        from pandera.api.polars.types import PolarsData
        from pandera import errors
    except Exception:  # noqa: BLE001
        rep.count("polars:unavailable")
        return
    targets = {"Int64": ple.Int64(), "Int8": ple.Int8(), "UInt8": ple.UInt8(), "Float64": ple.Float64(), "String": ple.String(),
               "Bool": ple.Bool(), "Date": ple.Date(), "Datetime": ple.DateTime()}
    for extra_name, mk in (("Decimal(10,2)", lambda: ple.Decimal(10, 2)), ("Float32", lambda: ple.Float32()),
                           ("Int32", lambda: ple.Int32()), ("UInt32", lambda: ple.UInt32()), ("Time", lambda: ple.Time()),
                           ("Duration", lambda: ple.Timedelta())):
        try:
            targets[extra_name] = mk()
        except Exception:  # noqa: BLE001
            pass
    pools = {"str": ["1", "-3", "x", "2.5", "", "300", None, "2020-01-02", "true"], "int": [1, -3, 300, 0, None],
             "float": [1.5, -2.0, float("nan"), None, 1e20]}
    n_cases = 150 if tier == "quick" else 4000
    for _ in range(n_cases):
        tn = rng.choice(sorted(targets))
        T = targets[tn]
        src = rng.choice(sorted(pools))
        vals = [rng.choice(pools[src]) for _ in range(rng.randint(0, 5))]
        case = {"kind": "polars", "dtype": tn, "source": src, "vals": [repr(v) for v in vals]}
        try:
            lf = pl.LazyFrame({"a": vals, "keep": list(range(len(vals)))},
                              schema={"a": {"str": pl.String, "int": pl.Int64, "float": pl.Float64}[src], "keep": pl.Int64})
        except Exception:  # noqa: BLE001
            continue
        # element oracle: the non-strict cast of each element on its own
        elem_ok = []
        for v in vals:
            try:
                r = pl.Series([v], dtype=lf.collect_schema()["a"]).cast(T.type, strict=False)
                elem_ok.append(v is None or r[0] is not None)
            except Exception:  # noqa: BLE001
                elem_ok.append(False)
        with warnings.catch_warnings():
            warnings.simplefilter("ignore")
            try:
                out = T.try_coerce(PolarsData(lf, "a")).collect()
                kind = "ok"
            except errors.ParserError as e:
                kind, fc = "parser", e.failure_cases
            except Exception as e:  # noqa: BLE001
                kind = "leak:" + type(e).__name__
        rep.case(case)
        rep.count(f"polars:{tn}:{kind.split(':')[0]}")
        if kind == "ok":
            if out.height != len(vals) or out["keep"].to_list() != list(range(len(vals))):
                rep.property_failure(case, "polars: coerced frame has different rows")
            elif out.schema["a"] != T.type:
                rep.property_failure(case, f"polars: coerced column has dtype {out.schema['a']}")
            elif not all(elem_ok):
                rep.property_failure(case, "polars: coercion succeeded although an element does not convert")
            elif any((v is None) != (o is None) for v, o in zip(vals, out["a"].to_list())):
                rep.property_failure(case, "polars: a null appeared or disappeared")
            else:
                again = T.try_coerce(PolarsData(out.lazy(), "a")).collect()
                if not again.equals(out):
                    rep.property_failure(case, "polars: coercing twice differs from coercing once")
        elif kind == "parser":
            try:
                got = sorted(map(repr, (fc.collect() if hasattr(fc, "collect") else fc)["a"].to_list()))
            except Exception:  # noqa: BLE001
                got = None
            want = sorted(repr(v) for v, ok in zip(vals, elem_ok) if not ok)
            if got != want:
                rep.property_failure(case, f"polars: failure cases {got} but the uncoercible elements are {want}")
        else:
            rep.property_failure(case, f"polars: try_coerce leaked {kind[5:]}", region="K_C10_polars:leak")


def run_polars_container(rep):
    """coercion requested on a polars DataFrameSchema / Column, at every validation depth that looks at the data: a value
    that cannot be converted is reported through the documented channel (DATATYPE_COERCION with exactly the uncoercible
    elements as failure cases), never as a polars exception"""
    try:
        import polars as pl
        import pandera.polars as pap
        from pandera.config import ValidationDepth, config_context
    except Exception:  # noqa: BLE001
        return
    bad = ["1", "x", "2.5", "7"]
    want = sorted(["x", "2.5"])
    for depth in (None, ValidationDepth.SCHEMA_AND_DATA, ValidationDepth.DATA_ONLY):
        for where in ("column", "schema", "stand-alone Column"):
            for lazy in (False, True):
                case = {"kind": "polars-container", "depth": getattr(depth, "name", None), "coerce_at": where, "lazy": lazy}
                col = pap.Column(pl.Int64, coerce=where != "schema", name="a")
                schema = col if where == "stand-alone Column" else pap.DataFrameSchema({"a": col}, coerce=where == "schema")
                kw = {"validation_depth": depth} if depth is not None else {}
                with warnings.catch_warnings():
                    warnings.simplefilter("ignore")
                    try:
                        with config_context(**kw):
                            schema.validate(pl.DataFrame({"a": bad}), lazy=lazy)
                        outcome, fcs = "returned", None
                    except (pap.errors.SchemaError, pap.errors.SchemaErrors) as e:
                        outcome = type(e).__name__
                        errs = e.schema_errors if hasattr(e, "schema_errors") else [e]
                        fcs = []
                        for x in errs:
                            if x.reason_code.name == "DATATYPE_COERCION" and x.failure_cases is not None:
                                fc = x.failure_cases
                                fc = fc.collect() if hasattr(fc, "collect") else fc
                                try:
                                    fcs += [str(v) for v in fc["a"].to_list()]
                                except Exception:  # noqa: BLE001
                                    fcs = None
                                    break
                    except Exception as e:  # noqa: BLE001
                        outcome, fcs = "leak:" + type(e).__name__, None
                rep.evaluations += 1
                rep.count(f"polars-container:{where}:{outcome.split(':')[0]}")
                if outcome.startswith("leak") or outcome == "returned":
                    rep.property_failure(case, f"polars {where} coercion of {bad} to Int64 at depth {case['depth']}: {outcome} "
                                               "(a ParserError / DATATYPE_COERCION error naming 'x' and '2.5' is documented)")
                elif fcs is not None and sorted(fcs) != want:
                    rep.property_failure(case, f"polars {where} coercion at depth {case['depth']}: failure cases {sorted(fcs)}, the "
                                               f"uncoercible elements are {want}")


def run(tier, replay=None):
    rep = Report(PROP, tier)
    warm_up_backends()
    regenerate(("coercerules",))
    rep.audit = audit(PROP, MODULES)
    rep.audit["modules"] = MODULES
    rng = rng_for(PROP)
    if replay:
        case = json.loads(open(replay).read())["case"]
        if case.get("kind") == "abs":
            run_abs(rep, [case])
        else:
            rep.notes.append("registry / polars replays are regenerated from the seed")
            run_registry(rep, tier, rng)
            run_typed_sources(rep)
            run_parametrised(rep, tier, rng)
            run_polars(rep, tier, rng)
        return rep.finish(rule="replay")
    n = 700 if tier == "quick" else 20000
    run_abs(rep, [c for c in corpus_cases(PROP) if c.get("kind") == "abs"] + [gen_abs_case(rng) for _ in range(n)])
    run_registry(rep, tier, rng)
    run_typed_sources(rep)
    run_parametrised(rep, tier, rng)
    run_polars(rep, tier, rng)
    run_polars_container(rep)
    return rep.finish(
        rule="modelled targets int64 / float64 / str: object Series / Index / column over ints, floats, numeric and "
             "non-numeric strings, bools, nulls vs Lean's tryCoerce (values or failing positions); every registered dtype of "
             "the pandas engine x containers x a mixed value pool with the implementation's coerce_value as element oracle "
             "(length, labels, check on the coerced data, failure cases, idempotence, identity on conforming data); polars "
             "Int/UInt/Float/String/Bool/Date/Datetime from string / int / float columns with the per-element non-strict cast "
             "as oracle",
        level_note=["for dtypes outside the modelled targets the element semantics is the implementation's own coerce_value "
                    "(the coupling coerce / coerce_value / check is tested, not the conversion table)"],
    )

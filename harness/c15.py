"""C15 — schema transformations mirror dataframe transformations, keep untouched attributes, obey
the inverse laws and reject invalid requests.

Tie: (T) Generated/ColumnProps.lean (constructor parameters, Column.properties keys, the keyword
tables of set_index / reset_index) with per-run `decide` obligations in Props/C15.lean; (D) random
operation sequences on real schemas carrying *every* attribute, compared attribute by attribute with
the Lean model (Driver/C15.lean), plus the property itself evaluated on the implementation
(frame conditions, inverse laws, acceptance of the transformed frame, invalid requests).
"""
from __future__ import annotations

import copy
import inspect
import json
import warnings

import pandas as pd

from .common import Report, audit, corpus_cases, rng_for, run_driver, warm_up_backends
from .regen import regenerate

PROP = "C15"
MODULES = ["PanderaModel.Props.C15"]

NAMES = ["a", "b", "c", "d", "e", "f"]
INAMES = ["i0", "i1", "i2", "i3"]
DTYPES = ["int64", "float64", "str", "bool", "None"]
DATA = {"int64": [1, 2, 3], "float64": [1.5, 2.5, 3.5], "str": ["x", "y", "z"], "bool": [True, False, True],
        "None": [1, 2, 3]}
BAD = {"int64": [1, 2, 100], "float64": [1.5, 2.5, 100.0], "str": ["x", "y", "toolongvalue"], "None": [1, 2, 100]}
DEFAULTS = {"int64": 1, "float64": 1.5, "str": "x", "bool": True, "None": 1}


def _pa(backend):
    if backend == "polars":
        import pandera.polars as pa
    else:
        import pandera as pa
    return pa


def check_pool(pa, dtype):
    C = pa.Check
    if dtype in ("int64", "float64", "None"):
        return {"gt0": C.gt(0), "lt9": C.lt(9), "ne7": C.ne(7)}
    if dtype == "str":
        return {"len": C.str_length(1, 3), "isin": C.isin(["x", "y", "z"])}
    return {}


PARSER_IDS = ["p_id", "p_same"]


def parser_pool(pa):
    return {"p_id": pa.Parser(lambda s: s, name="p_id"), "p_same": pa.Parser(lambda s: s.copy(), name="p_same")}


def check_key(c):
    return f"{c.name}:{sorted((c.statistics or {}).items())!r}"


def canon(attr, v):
    if attr == "checks":
        return "None" if not v else ";".join(check_key(c) for c in v)
    if attr == "parsers":
        return "None" if not v else ";".join(str(p.name) for p in v)
    if attr in ("dtype", "name"):
        return "None" if v is None else str(v)
    return repr(v)


def ctor_params(cls):
    return [p for p in inspect.signature(cls.__init__).parameters if p not in ("self",) and
            inspect.signature(cls.__init__).parameters[p].kind not in (inspect.Parameter.VAR_KEYWORD,
                                                                        inspect.Parameter.VAR_POSITIONAL)]


def fp_component(obj):
    return [[p, canon(p, getattr(obj, p))] for p in ctor_params(type(obj))]


MI_OPTS = ["coerce", "strict", "name", "ordered", "unique"]
TOP = ["strict", "ordered", "coerce", "unique", "name", "dtype", "add_missing_columns", "unique_column_names",
       "title", "description", "metadata", "drop_invalid_rows", "report_duplicates"]


def fp_schema(S):
    ix = getattr(S, "index", None)
    if ix is None:
        index, mi = [], []
    elif hasattr(ix, "indexes"):
        index = [fp_component(i) for i in ix.indexes]
        mi = [[k, canon(k, ix._coerce if k == "coerce" else getattr(ix, k))] for k in MI_OPTS]
    else:
        index, mi = [fp_component(ix)], []
    top = [[k, canon(k, S._coerce if k == "coerce" else getattr(S, k, None))] for k in TOP]
    top.append(["checks", str(len(S.checks))])
    return {"columns": [[str(k), fp_component(c)] for k, c in S.columns.items()], "index": index,
            "miOpts": mi, "top": top}


# ---------------------------------------------------------------------------------------------
# abstract cases -> real objects
# ---------------------------------------------------------------------------------------------

def gen_component(rng, backend, name, dtype=None, for_index=False):
    """abstract component: kwargs in a JSON-able form"""
    dtype = dtype or rng.choice(DTYPES)
    pool = ["gt0", "lt9", "ne7"] if dtype in ("int64", "float64", "None") else ["len", "isin"] if dtype == "str" else []
    kw = {"dtype": dtype, "name": name,
          "checks": rng.sample(pool, rng.randint(0, min(2, len(pool)))) if pool else [],
          "nullable": rng.random() < 0.3, "unique": rng.random() < 0.2, "coerce": rng.random() < 0.3,
          "title": rng.choice([None, None, "T" + name]), "description": rng.choice([None, None, "about " + name]),
          "default": rng.choice([None, None, "dflt"]) if dtype != "bool" else None,
          "metadata": rng.choice([None, None, {"k": name}]), "drop_invalid_rows": rng.random() < 0.25}
    if dtype == "bool":
        kw["unique"] = False
    if backend == "pandas":
        # (parsers together with drop_invalid_rows on one Column crash in validate: C06's business, kept apart here)
        kw["parsers"] = [] if kw["drop_invalid_rows"] else rng.sample(PARSER_IDS, rng.choice([0, 0, 1, 2]))
        kw["report_duplicates"] = rng.choice(["all", "all", "exclude_first", "exclude_last"])
    if not for_index:
        kw["required"] = rng.random() < 0.85
        kw["regex"] = False
    return kw


ABS = {"Int64": "int64", "Float64": "float64", "String": "str", "Boolean": "bool", "Utf8": "str"}


def abs_dtype(d):
    d = ABS.get(d, d)
    return d if d in DTYPES else "None"


def real_kwargs(pa, kw):
    out = dict(kw)
    if "dtype" in out:
        out["dtype"] = abs_dtype(out["dtype"])
    dt = out.get("dtype", "None")
    if "dtype" in out:
        out["dtype"] = None if out["dtype"] == "None" else out["dtype"]
        if pa.__name__.endswith("polars") and out["dtype"] is not None:
            out["dtype"] = {"int64": int, "float64": float, "str": str, "bool": bool}[out["dtype"]]
    if "checks" in out:
        pool = {}
        for d in DTYPES:
            pool.update(check_pool(pa, d))
        out["checks"] = [pool[c] for c in out["checks"]]
    if "parsers" in out:
        pp = parser_pool(pa)
        out["parsers"] = [pp[p] for p in out["parsers"]]
    if out.get("default") == "dflt":
        out["default"] = DEFAULTS.get(dt, 1)
    return out


def canon_kwargs(pa, kw, dtype_hint="None"):
    """the model's rendering of keyword arguments given to update_column(s)"""
    rk = real_kwargs(pa, dict(kw, dtype=kw.get("dtype", dtype_hint)))
    if "dtype" not in kw:
        rk.pop("dtype")
    out = []
    for k, v in rk.items():
        if k == "dtype":
            v = None if v is None else str(pa.Column(v).dtype)
        out.append([k, canon(k, v)])
    return out


def build_schema(pa, backend, A):
    cols = {c["name"]: pa.Column(**real_kwargs(pa, c)) for c in A["columns"]}
    kw = dict(A["top"])
    if backend == "pandas":
        lv = [pa.Index(**real_kwargs(pa, i)) for i in A["index"]]
        index = None if not lv else lv[0] if len(lv) == 1 else pa.MultiIndex(lv, **A["miOpts"])
        return pa.DataFrameSchema(cols, index=index, **kw)
    return pa.DataFrameSchema(cols, **kw)


def gen_schema(rng, backend):
    n = rng.randint(1, 4)
    names = rng.sample(NAMES, n)
    cols = [gen_component(rng, backend, nm) for nm in names]
    index, mi = [], {}
    if backend == "pandas":
        k = rng.choice([0, 0, 1, 1, 2, 3, 3, 4])
        index = [gen_component(rng, backend, INAMES[j], dtype=rng.choice(["int64", "str", "float64"]), for_index=True)
                 for j in range(k)]
        if k >= 2:
            mi = {"coerce": rng.random() < 0.3, "strict": rng.random() < 0.3, "ordered": rng.random() < 0.6,
                  "name": rng.choice([None, "mi"])}
            if rng.random() < 0.2:
                mi["unique"] = [INAMES[0], INAMES[1]]
            if not mi["ordered"]:
                pass
    top = {"strict": rng.random() < 0.3, "ordered": rng.random() < 0.3, "coerce": rng.random() < 0.2,
           "name": rng.choice([None, "S"]), "title": rng.choice([None, "top title"]),
           "description": rng.choice([None, "top d"]), "metadata": rng.choice([None, {"m": 1}]),
           "unique_column_names": rng.random() < 0.1, "add_missing_columns": False,
           "drop_invalid_rows": rng.random() < 0.15}
    if rng.random() < 0.12 and n >= 2:
        top["unique"] = rng.sample(names, 2)
    return {"columns": cols, "index": index, "miOpts": mi, "top": top}


def state_names(fp):
    return [k for k, _ in fp["columns"]], [dict(a)["name"] for a in fp["index"]]


def gen_ops(rng, backend, A):
    """operations generated against the evolving key set (tracked abstractly)"""
    cols = [c["name"] for c in A["columns"]]
    dtypes = {c["name"]: c["dtype"] for c in A["columns"]}
    dtypes.update({i["name"]: i["dtype"] for i in A["index"]})
    idx = [i["name"] for i in A["index"]]
    ops = []
    kinds = ["add", "remove", "update", "updateMany", "rename", "select"]
    if backend == "pandas":
        kinds += ["setIndex", "setIndex", "resetIndex", "resetIndex"]
    for _ in range(rng.randint(1, 5)):
        k = rng.choice(kinds)
        invalid = rng.random() < 0.15
        # (dtypes of names that no longer exist must not survive: a later rename could bring such a name back)
        dtypes = {n: d for n, d in dtypes.items() if n in cols or n in idx}
        free = [n for n in NAMES if n not in cols and n not in idx]
        if k == "add":
            pick = rng.sample(free, min(len(free), rng.randint(1, 2))) if (free and rng.random() < 0.85) else \
                rng.sample(cols, 1) if cols else []
            if not pick:
                continue
            extra = [gen_component(rng, backend, nm) for nm in pick]
            if rng.random() < 0.3:   # a Column constructed without a name / with another name
                extra[0]["name"] = rng.choice([None, "zz"])
            reuse = None
            r_ = rng.random()
            if r_ < 0.15 and len(pick) >= 2:
                reuse = "same-object"                      # one Column object passed under several names
                extra = [extra[0]] * len(pick)
            elif r_ < 0.3 and cols:
                src_ = rng.choice(cols)
                reuse = "receiver:" + src_                 # a column of the receiver itself as the template
                extra = [dict(e, dtype=dtypes.get(src_, e["dtype"])) for e in extra]   # (data of the new column follows it)
            ops.append({"op": "add", "keys": pick, "extra": extra, "reuse": reuse})
            for nm, e in zip(pick, extra):
                if nm not in cols:
                    cols.append(nm)
                dtypes[nm] = e["dtype"]
        elif k == "remove":
            if invalid or not cols:
                ops.append({"op": "remove", "names": ["nope"] + rng.sample(cols, min(1, len(cols)))})
                break
            pick = rng.sample(cols, rng.randint(1, min(2, len(cols))))
            ops.append({"op": "remove", "names": pick})
            cols = [c for c in cols if c not in pick]
        elif k in ("update", "updateMany"):
            def kwargs_for(nm):
                dt = abs_dtype(dtypes.get(nm, "None"))
                cand = {"nullable": rng.random() < 0.5, "unique": rng.random() < 0.5, "coerce": rng.random() < 0.5,
                        "required": rng.random() < 0.5, "title": rng.choice([None, "new title"]),
                        "description": rng.choice([None, "new d"]), "metadata": rng.choice([None, {"z": 2}]),
                        "drop_invalid_rows": rng.random() < 0.5, "default": rng.choice([None, "dflt"]),
                        "checks": rng.sample(sorted(check_pool(_pa(backend), dt)), min(1, len(check_pool(_pa(backend), dt)))),
                        "dtype": rng.choice(["int64", "float64", "str"])}
                if backend == "pandas":
                    cand["report_duplicates"] = rng.choice(["all", "exclude_first", "exclude_last"])
                    cand["parsers"] = rng.sample(PARSER_IDS, rng.randint(0, 1))
                ks = rng.sample(sorted(cand), rng.randint(1, 3))
                kw = {x: cand[x] for x in ks}
                if dt == "bool":
                    kw.pop("unique", None)
                    kw = kw or {"title": "t"}
                if kw.get("drop_invalid_rows"):
                    kw["parsers"] = [] if backend == "pandas" else kw.get("parsers", [])
                    if backend != "pandas":
                        kw.pop("parsers", None)
                elif kw.get("parsers"):
                    kw["drop_invalid_rows"] = False
                if "dtype" in kw:
                    kw["checks"] = []      # keep checks compatible with the new dtype
                    if "default" in kw:
                        kw["default"] = None
                return kw
            if k == "update":
                if invalid or not cols:
                    bad = rng.choice(["missing", "name"])
                    if bad == "missing" or not cols:
                        ops.append({"op": "update", "name": "nope", "kw": {"nullable": True}})
                    else:
                        ops.append({"op": "update", "name": rng.choice(cols), "kw": {"name": "other"}})
                    break
                nm = rng.choice(cols)
                kw = kwargs_for(nm)
                ops.append({"op": "update", "name": nm, "kw": kw})
                if "dtype" in kw:
                    dtypes[nm] = kw["dtype"]
            else:
                if invalid or not cols:
                    ops.append({"op": "updateMany", "upd": {"nope": {"nullable": True}} if (rng.random() < 0.5 or not cols)
                                else {rng.choice(cols): {"name": "other"}}})
                    break
                pick = rng.sample(cols, rng.randint(1, min(2, len(cols))))
                upd = {nm: kwargs_for(nm) for nm in pick}
                if rng.random() < 0.1:
                    upd[pick[0]] = {}
                ops.append({"op": "updateMany", "upd": upd})
                for nm, kw in upd.items():
                    if "dtype" in kw:
                        dtypes[nm] = kw["dtype"]
        elif k == "rename":
            if invalid or not cols:
                if cols and len(cols) >= 2 and rng.random() < 0.5:
                    ops.append({"op": "rename", "m": {cols[0]: cols[1]}})
                else:
                    ops.append({"op": "rename", "m": {"nope": "x1"}})
                break
            pick = rng.sample(cols, rng.randint(1, min(2, len(cols))))
            fresh = rng.sample(free + ["g", "h"], len(pick))
            m = dict(zip(pick, fresh))
            if rng.random() < 0.15:
                m[pick[0]] = pick[0]          # identity mapping: a no-op
            ops.append({"op": "rename", "m": m})
            cols = [m.get(c, c) for c in cols]
            dtypes = {m.get(c, c): d for c, d in dtypes.items()}
        elif k == "select":
            if invalid or not cols:
                ops.append({"op": "select", "names": ["nope"]})
                break
            pick = rng.sample(cols, rng.randint(1, len(cols)))
            ops.append({"op": "select", "names": pick})
            cols = pick
        elif k == "setIndex":
            if invalid or not cols:
                ops.append({"op": "setIndex", "keys": ["nope"], "drop": True, "append": False})
                break
            drop, app = rng.random() < 0.75, rng.random() < 0.4
            avail = [x for x in cols if not (app and x in idx)]     # (duplicate level names: not generated)
            if not avail:
                continue
            pick = rng.sample(avail, rng.randint(1, min(2, len(avail))))
            ops.append({"op": "setIndex", "keys": pick, "drop": drop, "append": app})
            idx = (idx if app else []) + pick
            if drop:
                cols = [c for c in cols if c not in pick]
        elif k == "resetIndex":
            drop = rng.random() < 0.3
            if not idx and rng.random() < 0.8:
                continue
            if not idx:
                ops.append({"op": "resetIndex", "level": None, "drop": drop})
                break
            if invalid:
                ops.append({"op": "resetIndex", "level": ["nope"], "drop": drop})
                break
            # mostly partial resets of a MultiIndex (the levels that stay keep the MultiIndex and its options)
            level = None if rng.random() < 0.35 else rng.sample(idx, rng.randint(1, max(1, len(idx) - 1)))
            if rng.random() < 0.05:
                level = []
            ops.append({"op": "resetIndex", "level": level, "drop": drop})
            moved = idx if level is None else [i for i in idx if i in level]
            if level != []:
                idx = [i for i in idx if i not in moved]
                if not drop:
                    cols += [m_ for m_ in moved if m_ not in cols]
    return ops


def gen_case(rng, backend="pandas"):
    A = gen_schema(rng, backend)
    return {"backend": backend, "schema": A, "ops": gen_ops(rng, backend, A)}


# ---------------------------------------------------------------------------------------------
# running the implementation
# ---------------------------------------------------------------------------------------------

def apply_real(pa, backend, S, op):
    k = op["op"]
    if k == "add":
        reuse = op.get("reuse")
        if reuse == "same-object":
            one = pa.Column(**real_kwargs(pa, op["extra"][0]))
            return S.add_columns({key: one for key in op["keys"]})
        if reuse and reuse.startswith("receiver:") and reuse.split(":", 1)[1] in S.columns:
            return S.add_columns({key: S.columns[reuse.split(":", 1)[1]] for key in op["keys"]})
        return S.add_columns({key: pa.Column(**real_kwargs(pa, e)) for key, e in zip(op["keys"], op["extra"])})
    if k == "remove":
        return S.remove_columns(list(op["names"]))
    if k == "update":
        dt = canon("dtype", S.columns[op["name"]].dtype) if op["name"] in S.columns else "None"
        return S.update_column(op["name"], **real_kwargs(pa, dict(op["kw"], dtype=op["kw"].get("dtype", dt)))
                               if "dtype" in op["kw"] else
                               {k_: v for k_, v in real_kwargs(pa, dict(op["kw"], dtype=dt)).items() if k_ != "dtype"})
    if k == "updateMany":
        upd = {}
        for nm, kw in op["upd"].items():
            dt = canon("dtype", S.columns[nm].dtype) if nm in S.columns else "None"
            rk = real_kwargs(pa, dict(kw, dtype=kw.get("dtype", dt)))
            if "dtype" not in kw:
                rk.pop("dtype")
            upd[nm] = rk
        return S.update_columns(upd)
    if k == "rename":
        return S.rename_columns(dict(op["m"]))
    if k == "select":
        return S.select_columns(list(op["names"]))
    if k == "setIndex":
        return S.set_index(list(op["keys"]), drop=op["drop"], append=op["append"])
    if k == "resetIndex":
        return S.reset_index(level=None if op["level"] is None else list(op["level"]), drop=op["drop"])
    raise ValueError(k)


def model_op(pa, backend, S, op):
    """the operation in the driver's vocabulary (needs the current real schema only to render dtype-dependent
    defaults)"""
    k = op["op"]
    if k == "add":
        extra = []
        reuse = op.get("reuse")
        src = reuse.split(":", 1)[1] if (reuse and reuse.startswith("receiver:")) else None
        for key, e in zip(op["keys"], op["extra"]):
            if src is not None and S is not None and src in S.columns:
                extra.append([key, fp_component(S.columns[src])])      # the template as it is *before* the call
            else:
                extra.append([key, fp_component(pa.Column(**real_kwargs(pa, e)))])
        return {"op": "add", "extra": extra}
    if k == "update":
        dt = canon("dtype", S.columns[op["name"]].dtype) if (S is not None and op["name"] in S.columns) else "None"
        return {"op": "update", "name": op["name"], "kw": canon_kwargs(pa, op["kw"], dt)}
    if k == "updateMany":
        upd = []
        for nm, kw in op["upd"].items():
            dt = canon("dtype", S.columns[nm].dtype) if (S is not None and nm in S.columns) else "None"
            upd.append([nm, canon_kwargs(pa, kw, dt)])
        return {"op": "updateMany", "upd": upd}
    if k == "rename":
        return {"op": "rename", "m": [[a, b] for a, b in op["m"].items()]}
    return op


def conforming_frame(fp, bad=None):
    """a pandas frame the schema with fingerprint `fp` should accept (bad = (where, name): violate a check there)"""
    def data(attrs, nm):
        a = dict(attrs)
        key = abs_dtype(a["dtype"])
        vals = list(DATA[key])
        if bad and bad[1] == nm:
            vals = list(BAD[key])
        return pd.Series(vals, dtype={"str": object, "None": "int64"}.get(key, key))
    cols = {k: data(a, k) for k, a in fp["columns"]}
    df = pd.DataFrame(cols) if cols else pd.DataFrame(index=range(3))
    if fp["index"]:
        arrays = [data(a, dict(a)["name"]).values for a in fp["index"]]
        names = [dict(a)["name"] for a in fp["index"]]
        if len(arrays) == 1:
            df.index = pd.Index(arrays[0], name=names[0])
        else:
            df.index = pd.MultiIndex.from_arrays(arrays, names=names)
    return df


def frame_op(df, op, fp_before):
    k = op["op"]
    if k == "add":
        out = df.copy()
        for key, e in zip(op["keys"], op["extra"]):
            dt = e["dtype"]
            key_ = {"int64": "int64", "float64": "float64", "str": "str", "bool": "bool"}.get(dt, "None")
            out[key] = pd.Series(list(DATA[key_]), dtype={"str": object, "None": "int64"}.get(key_, key_)).values
        return out
    if k == "remove":
        return df.drop(columns=op["names"])
    if k in ("update", "updateMany"):
        return df
    if k == "rename":
        return df.rename(columns=op["m"])
    if k == "select":
        return df[list(op["names"])]
    if k == "setIndex":
        has_index = bool(fp_before["index"])
        return df.set_index(list(op["keys"]), drop=op["drop"], append=op["append"] and has_index)
    if k == "resetIndex":
        if op["level"] == []:
            return df
        return df.reset_index(level=op["level"], drop=op["drop"])
    raise ValueError(k)


def verdict(S, df, reasons=None):
    with warnings.catch_warnings():
        warnings.simplefilter("ignore")
        try:
            S.validate(df, lazy=True)
            return "ok"
        except Exception as e:  # noqa: BLE001
            n = type(e).__name__
            if n == "SchemaErrors" and reasons is not None:
                reasons.extend(sorted({str(getattr(x.reason_code, "name", x.reason_code)) for x in e.schema_errors}))
            if n == "ValueError" and ("ambiguous" in str(e) or "not supported in stack" in str(e)):
                # (the second is the recorded C06 finding K_C06_duplicateLabelsReshape)
                return "inapplicable"       # a label that is both a column and an index level (pandas' own limit)
            return "reject" if n in ("SchemaErrors", "SchemaError") else "crash:" + n


NEUTRAL_UPDATE = {"title", "description", "metadata", "report_duplicates"}
SHARED = None


def frame_condition(op, before, after, vocab_idx_keys):
    """attributes an operation may not touch; returns a message or None"""
    b_cols, a_cols = dict((k, dict(v)) for k, v in before["columns"]), dict((k, dict(v)) for k, v in after["columns"])
    k = op["op"]
    if before["top"] != after["top"]:
        return "dataframe-level attributes changed"
    if k not in ("setIndex", "resetIndex") and (before["index"] != after["index"] or before["miOpts"] != after["miOpts"]):
        return "the index component changed"
    touched = {}
    if k == "add":
        touched = {key: None for key in op["keys"]}
    elif k == "remove":
        touched = {n: None for n in op["names"]}
    elif k == "update":
        touched = {op["name"]: set(op["kw"])}
    elif k == "updateMany":
        touched = {n: set(kw) for n, kw in op["upd"].items()}
    elif k == "rename":
        ren = {o: n for o, n in op["m"].items() if o != n}
        for o, n in ren.items():
            if o in b_cols and n in a_cols:
                bo, an = dict(b_cols[o]), dict(a_cols[n])
                bo.pop("name"), an.pop("name")
                if bo != an:
                    return f"renaming {o}->{n} changed other attributes"
                if a_cols[n]["name"] != n:
                    return f"renamed column {n} carries the name {a_cols[n]['name']}"
        touched = {x: None for x in list(ren) + list(ren.values())}
    elif k == "select":
        touched = {n: None for n in b_cols if n not in op["names"]}
    elif k == "setIndex":
        touched = {n: None for n in op["keys"]} if op["drop"] else {}
        a_levels = {dict(a)["name"]: dict(a) for a in after["index"]}
        for key in op["keys"]:
            if key in b_cols:
                if key not in a_levels:
                    return f"set_index lost the level {key}"
                for attr in vocab_idx_keys:
                    if a_levels[key].get(attr) != b_cols[key].get(attr):
                        return f"set_index changed {attr} of {key}: {b_cols[key].get(attr)} -> {a_levels[key].get(attr)}"
        if op["append"]:
            for lv in before["index"]:
                if lv not in after["index"]:
                    return "set_index(append=True) changed an existing level"
    elif k == "resetIndex":
        if op["level"] == []:
            return None if before == after else "reset_index(level=[]) changed the schema"
        b_levels = {dict(a)["name"]: dict(a) for a in before["index"]}
        moved = list(b_levels) if op["level"] is None else [n for n in b_levels if n in op["level"]]
        for lv in before["index"]:
            if dict(lv)["name"] not in moved and lv not in after["index"]:
                return "reset_index changed a level that stays in the index"
        if len(after["index"]) >= 2 and before["miOpts"] != after["miOpts"]:
            return "reset_index changed the options of the MultiIndex that remains: " + \
                   ", ".join(f"{k_}: {v} -> {dict(after['miOpts']).get(k_)}" for k_, v in before["miOpts"]
                             if dict(after["miOpts"]).get(k_) != v)
        if not op["drop"]:
            for n in moved:
                if n not in a_cols:
                    return f"reset_index lost {n}"
                for attr in vocab_idx_keys:
                    if a_cols[n].get(attr) != b_levels[n].get(attr):
                        return f"reset_index changed {attr} of {n}: {b_levels[n].get(attr)} -> {a_cols[n].get(attr)}"
            touched = {n: None for n in moved}
    for n, attrs in b_cols.items():
        if n in touched and touched[n] is None:
            continue
        if n not in a_cols:
            return f"column {n} disappeared"
        for attr, v in attrs.items():
            if n in touched and attr in touched[n]:
                continue
            if a_cols[n].get(attr) != v:
                return f"attribute {attr} of untouched column {n}: {v} -> {a_cols[n].get(attr)}"
    for n in a_cols:
        if n not in b_cols and n not in touched and k != "rename":
            return f"column {n} appeared"
    return None


def run_cases(rep, cases):
    from extract import columnprops
    from .common import REPO
    info = columnprops.extract(REPO)
    idx_keys = [k for k, _ in info["componentCtor"]]
    # --- the model's answers need ops rendered against the evolving real schema: run the implementation first
    results = []
    for c in cases:
        backend = c.get("backend", "pandas")
        try:
            pa = _pa(backend)
        except Exception:  # noqa: BLE001
            results.append(None)
            continue
        with warnings.catch_warnings():
            warnings.simplefilter("ignore")
            try:
                S0 = build_schema(pa, backend, c["schema"])
            except Exception as e:  # noqa: BLE001
                results.append({"unbuildable": type(e).__name__ + ": " + str(e)[:100]})
                continue
            fps = [fp_schema(S0)]
            schemas = [S0]
            mops, err, recv = [], None, None
            for i, op in enumerate(c["ops"]):
                S = schemas[-1]
                before = fp_schema(S)
                mops.append(model_op(pa, backend, S, op))
                try:
                    S1 = apply_real(pa, backend, S, op)
                except Exception as e:  # noqa: BLE001
                    err = {"at": i, "kind": type(e).__name__, "msg": str(e)[:120]}
                if fp_schema(S) != before and recv is None:
                    recv = i
                if err:
                    break
                schemas.append(S1)
                fps.append(fp_schema(S1))
        results.append({"fps": fps, "schemas": schemas, "mops": mops, "err": err, "recv": recv, "pa": pa})
    dcases, idxs = [], []
    for i, (c, r) in enumerate(zip(cases, results)):
        if r is None or "unbuildable" in r:
            continue
        dcases.append({"vocab": c.get("backend", "pandas"), "schema": r["fps"][0], "ops": r["mops"]})
        idxs.append(i)
    answers = run_driver("C15", dcases) if dcases else []
    amap = dict(zip(idxs, answers))
    for i, (c, r) in enumerate(zip(cases, results)):
        backend = c.get("backend", "pandas")
        if r is None:
            rep.count(f"{backend}:unavailable")
            continue
        if "unbuildable" in r:
            rep.count(f"{backend}:unbuildable")
            continue
        a = amap[i]
        if "error" in a and isinstance(a["error"], str):
            rep.correspondence_break(c, "driver: " + a["error"])
            continue
        rep.case(c, nontrivial=len(c["ops"]) > 0)
        for op in c["ops"][:len(r["fps"])]:
            rep.count(f"{backend}:op:{op['op']}")
        err = r["err"]
        rep.count(f"{backend}:outcome:" + (err["kind"] if err else "ok"))
        failed = False
        # --- P_impl 1: the receiver is never modified
        if r["recv"] is not None:
            rep.property_failure(c, f"operation #{r['recv']} modified the schema it was called on")
            failed = True
        # --- P_impl 2: invalid requests raise SchemaInitError / ValueError only
        if err and err["kind"] not in ("SchemaInitError", "ValueError"):
            rep.property_failure(c, f"operation #{err['at']} ({c['ops'][err['at']]['op']}) raised {err['kind']}: {err['msg']}")
            failed = True
        # --- P_impl 3: frame conditions (untouched attributes), step by step
        for j in range(len(r["fps"]) - 1):
            msg = frame_condition(c["ops"][j], r["fps"][j], r["fps"][j + 1], idx_keys)
            if msg:
                rep.property_failure(c, f"op #{j} {c['ops'][j]['op']}: {msg}")
                failed = True
                break
            mi = r["schemas"][j + 1].index if backend == "pandas" else None
            if mi is not None and hasattr(mi, "indexes"):
                if [str(k) for k in mi.columns] != [str(ix.name) for ix in mi.indexes]:
                    rep.property_failure(c, f"op #{j}: MultiIndex levels {list(mi.columns)} and indexes "
                                            f"{[ix.name for ix in mi.indexes]} disagree")
                    failed = True
                    break
        # --- P_impl 4: acceptance of the transformed frame (pandas)
        if backend == "pandas" and not failed:
            failed = accept_mirror(rep, c, r) or failed
        # --- P_impl 5: inverse laws on the final schema
        if not failed:
            failed = inverse_laws(rep, c, r, backend) or failed
        # --- correspondence with the model
        merr = a.get("error")
        ierr = None if err is None else {"at": err["at"], "kind": err["kind"]}
        if (merr or None) != ierr:
            if not failed:
                rep.correspondence_break(c, f"invalid-request outcome: model {merr}, implementation {ierr}")
        elif a["schema"] != r["fps"][-1]:
            if not failed:
                d = diff_fp(a["schema"], r["fps"][-1])
                rep.correspondence_break(c, "schema after the operations differs from the model: " + d)


def diff_fp(m, i):
    for part in ("top", "miOpts", "index"):
        if m[part] != i[part]:
            return f"{part}: model {m[part]} impl {i[part]}"
    mk, ik = [k for k, _ in m["columns"]], [k for k, _ in i["columns"]]
    if mk != ik:
        return f"column keys: model {mk} impl {ik}"
    for (k, ma), (_, ia) in zip(m["columns"], i["columns"]):
        if ma != ia:
            dm, di = dict(ma), dict(ia)
            return f"column {k}: " + "; ".join(f"{a}: model {dm.get(a)} impl {di.get(a)}" for a in dm if dm.get(a) != di.get(a))
    return "?"


def accept_mirror(rep, c, r):
    fps, schemas = r["fps"], r["schemas"]
    top = dict(fps[0]["top"])
    df = conforming_frame(fps[0])
    if verdict(schemas[0], df) != "ok":
        rep.count("mirror:start-not-accepted")
        return False
    # a second frame violating a check of one component; followed as long as that component survives
    cand = [k for k, a in fps[0]["columns"] if dict(a)["checks"] != "None" and abs_dtype(dict(a)["dtype"]) in BAD] + \
           [dict(a)["name"] for a in fps[0]["index"] if dict(a)["checks"] != "None" and abs_dtype(dict(a)["dtype"]) in BAD]
    bad_nm, bad_df = None, None
    if cand:
        bad_nm = cand[0]
        bad_df = conforming_frame(fps[0], bad=("x", bad_nm))
        if verdict(schemas[0], bad_df) != "reject":
            bad_nm = None        # e.g. drop_invalid_rows removes the offending row
    for j in range(len(fps) - 1):
        op = c["ops"][j]
        if op["op"] in ("update", "updateMany"):
            kws = [op["kw"]] if op["op"] == "update" else list(op["upd"].values())
            if any(set(kw) - NEUTRAL_UPDATE - {"nullable"} or kw.get("nullable") is False for kw in kws):
                rep.count("mirror:stopped-at-restricting-update")
                return False
        uq = top.get("unique")
        try:
            df2 = frame_op(df, op, fps[j])
        except Exception as e:  # noqa: BLE001
            rep.count("mirror:frame-op-inapplicable:" + type(e).__name__)
            return False
        if uq not in (None, "None") and any(n not in [k for k, _ in fps[j + 1]["columns"]] for n in eval(uq)):
            rep.count("mirror:joint-unique-names-removed-column")
            return False
        if uq not in (None, "None") and op["op"] == "add" and any(k_ in eval(uq) for k_ in op["keys"]):
            # a jointly unique column is replaced: whether the data written for the new column keeps the rows distinct is a
            # property of that data, not of the transformation
            rep.count("mirror:joint-unique-column-replaced")
            return False
        reasons = []
        v = verdict(schemas[j + 1], df2, reasons)
        rep.count("mirror:" + v.split(":")[0])
        if v == "inapplicable":
            return False
        if v != "ok":
            region = None
            ordered = dict(fps[j]["top"]).get("ordered") == "True"
            drops = dict(fps[j]["top"]).get("drop_invalid_rows") == "True"      # row errors of the original were dropped
            if op["op"] == "resetIndex" and not op["drop"] and ordered and "COLUMN_NOT_ORDERED" in reasons and \
                    (reasons == ["COLUMN_NOT_ORDERED"] or drops):
                region = "K_C15_resetIndexOrder"
            rep.property_failure(c, f"op #{j} {op['op']}: the original accepts D but the transformed schema gives "
                                    f"{v} on the transformed frame", region=region)
            return True
        if bad_nm is not None:
            if op["op"] == "rename":
                bad_nm = op["m"].get(bad_nm, bad_nm)
            names_after = [k for k, _ in fps[j + 1]["columns"]] + [dict(a)["name"] for a in fps[j + 1]["index"]]
            overwritten = op["op"] == "add" and bad_nm in op["keys"]
            if bad_nm not in names_after or overwritten:
                bad_nm = None
            else:
                try:
                    bad_df = frame_op(bad_df, op, fps[j])
                except Exception:  # noqa: BLE001
                    bad_nm = None
            if bad_nm is not None:
                vb = verdict(schemas[j + 1], bad_df)
                rep.count("mirror-bad:" + vb.split(":")[0])
                if vb == "ok":
                    rep.property_failure(c, f"op #{j} {op['op']}: the original rejects D' (a check of {bad_nm} fails) "
                                            "but the transformed schema accepts the transformed frame")
                    return True
        df = df2
    return False


def inverse_laws(rep, c, r, backend):
    pa = r["pa"]
    S = r["schemas"][-1]
    fp = fp_schema(S)
    cols = [k for k, _ in fp["columns"]]
    bad = False
    with warnings.catch_warnings():
        warnings.simplefilter("ignore")
        try:
            # select all
            if cols:
                if fp_schema(S.select_columns(list(cols))) != fp or S.select_columns(list(cols)) != S:
                    rep.property_failure(c, "select_columns(all columns) != the schema")
                    bad = True
                rep.count("inverse:select-all")
            # remove after add
            fresh = [n for n in ["q1", "q2"]]
            extra = {n: pa.Column(int, name=n) for n in fresh}
            back = S.add_columns(extra).remove_columns(fresh)
            if fp_schema(back) != fp or back != S:
                rep.property_failure(c, "remove_columns(add_columns(S, X), X) != S")
                bad = True
            rep.count("inverse:remove-add")
            # rename back
            if cols:
                m = {cols[0]: "q9"}
                back = S.rename_columns(m).rename_columns({"q9": cols[0]})
                if fp_schema(back) != fp or back != S:
                    rep.property_failure(c, "rename back != S")
                    bad = True
                rep.count("inverse:rename-back")
            # reset after set (pandas, no index, a required non-regex column)
            if backend == "pandas" and not fp["index"] and cols:
                a = dict(dict(fp["columns"])[cols[-1]]) if False else dict(fp["columns"][-1][1])
                if a.get("required") == "True" and a.get("regex") == "False":
                    back = S.set_index([cols[-1]]).reset_index()
                    if fp_schema(back) != fp or back != S:
                        rep.property_failure(c, "reset_index(set_index(S, [k])) != S: " + diff_fp(fp_schema(back), fp))
                        bad = True
                    rep.count("inverse:reset-set")
        except Exception as e:  # noqa: BLE001
            rep.property_failure(c, f"inverse law raised {type(e).__name__}: {str(e)[:100]}")
            bad = True
        # invalid requests: a new column whose check groups by a column the result would not have is refused with
        # SchemaInitError (and the same request naming an existing column is accepted)
        if backend == "pandas":
            plain = [k_ for k_, a_ in fp["columns"] if dict(a_).get("regex") == "False"]
            for key, expect_ok in (("ghost_column", False), (plain[0] if plain else None, True)):
                if key is None:
                    continue
                try:
                    S.add_columns({"q7": pa.Column(int, pa.Check(lambda d: True, groupby=key))})
                    outcome = "ok"
                except Exception as e:  # noqa: BLE001
                    outcome = type(e).__name__
                rep.count("invalid-request:groupby:" + outcome)
                if not expect_ok and outcome not in ("SchemaInitError", "ValueError"):
                    rep.property_failure(c, f"add_columns with a check grouping by a column that does not exist: {outcome} "
                                            "(an invalid request must raise SchemaInitError / ValueError)")
                    bad = True
                # (the same request naming an *existing* column is refused as well on the unchanged tree — add_columns
                #  validates the new columns as a schema of their own; a usability defect outside this property's clauses)
    return bad


def update_direct_sweep(rep):
    """`update_column(s)` against the schema built directly with the new arguments: every property, set to another value
    and set to `None` (the legal "unset" value of dtype, checks, parsers, title, description, metadata, default), through
    both methods, there and back again; pandas and polars; components too (`update_checks` / `set_checks`)"""
    import pandera as pa
    import pandera.polars as pap
    for mod, label in ((pa, "pandas"), (pap, "polars")):
        base = dict(dtype=int, checks=[mod.Check.gt(0)], nullable=True, unique=True, coerce=True, required=False,
                    title="T", description="D", default=3, metadata={"k": 1})
        news = dict(dtype=[float, None], checks=[[mod.Check.lt(9)], None, []], nullable=[False], unique=[False], coerce=[False],
                    required=[True], title=["U", None], description=["E", None], default=[4, None], metadata=[{"z": 2}, None])
        if label == "pandas":
            base["parsers"] = [mod.Parser(lambda s_: s_)]
            news["parsers"] = [None, []]
        for prop, values in news.items():
            for v in values:
                for method in ("update_column", "update_columns"):
                    c = {"direct": method, "backend": label, "prop": prop, "value": repr(v)}
                    with warnings.catch_warnings():
                        warnings.simplefilter("ignore")
                        try:
                            S = mod.DataFrameSchema({"a": mod.Column(**base), "b": mod.Column(str)})
                            snap = copy.deepcopy(S)
                            T = S.update_column("a", **{prop: v}) if method == "update_column" else S.update_columns({"a": {prop: v}})
                            want = mod.DataFrameSchema({"a": mod.Column(**dict(base, **{prop: v})), "b": mod.Column(str)})
                            back = T.update_column("a", **{prop: base[prop]}) if method == "update_column" \
                                else T.update_columns({"a": {prop: base[prop]}})
                        except Exception as e:  # noqa: BLE001
                            rep.property_failure(c, f"{label} {method}('a', {prop}={v!r}) raised {type(e).__name__}: {str(e)[:100]}")
                            continue
                    rep.case(c)
                    rep.evaluations += 1
                    rep.count(f"direct:{label}:{method}")
                    if T != want or fp_schema_simple(T) != fp_schema_simple(want):
                        rep.property_failure(c, f"{label} {method}('a', {prop}={v!r}) differs from the schema built directly "
                                                f"with {prop}={v!r}: {fp_schema_simple(T).get(prop)!r} vs "
                                                f"{fp_schema_simple(want).get(prop)!r}")
                    elif S != snap:
                        rep.property_failure(c, f"{label} {method} modified the schema it was called on")
                    elif back != S:
                        rep.property_failure(c, f"{label} {method}: updating {prop} back to its old value does not give the "
                                                f"original schema")
        # component-level transformations
        for ctor, cname in ((lambda: mod.Column(int, mod.Check.gt(0), name="a"), "Column"),):
            comp = ctor()
            snap = copy.deepcopy(comp)
            for method in ("update_checks", "set_checks"):
                c = {"direct": method, "backend": label, "component": cname}
                new = getattr(comp, method)([mod.Check.lt(5)])
                rep.case(c)
                rep.evaluations += 1
                if comp != snap:
                    rep.property_failure(c, f"{label} {cname}.{method} changed the checks of the component it was called on")
                elif [x.name for x in new.checks] != ["less_than"] or new is comp:
                    rep.property_failure(c, f"{label} {cname}.{method} did not return a new component with the new checks")
    for cname, comp in (("SeriesSchema", pa.SeriesSchema(int, pa.Check.gt(0), name="a")), ("Index", pa.Index(int, pa.Check.gt(0), name="a"))):
        snap = copy.deepcopy(comp)
        for method in ("update_checks", "set_checks"):
            c = {"direct": method, "backend": "pandas", "component": cname}
            new = getattr(comp, method)([pa.Check.lt(5)])
            rep.case(c)
            rep.evaluations += 1
            if comp != snap:
                rep.property_failure(c, f"{cname}.{method} changed the checks of the component it was called on")
            elif [x.name for x in new.checks] != ["less_than"] or new is comp:
                rep.property_failure(c, f"{cname}.{method} did not return a new component with the new checks")


def fp_schema_simple(S):
    col = S.columns["a"]
    out = {k: repr(getattr(col, k, None)) for k in ("dtype", "nullable", "unique", "coerce", "required", "title", "description",
                                                      "default", "metadata")}
    out["checks"] = repr([(x.name, x.statistics) for x in (col.checks or [])])
    out["parsers"] = repr(len(getattr(col, "parsers", None) or []))
    return out


def run(tier, replay=None):
    rep = Report(PROP, tier)
    warm_up_backends()
    regenerate(("columnprops",))
    rep.audit = audit(PROP, MODULES)
    rep.audit["modules"] = MODULES
    if replay:
        case = json.loads(open(replay).read())["case"]
        if case.get("direct"):
            update_direct_sweep(rep)
        else:
            run_cases(rep, [case])
        return rep.finish(rule="replay")
    rng = rng_for(PROP)
    n = 500 if tier == "quick" else 12000
    cases = corpus_cases(PROP) + [gen_case(rng, "pandas") for _ in range(n)] + \
        [gen_case(rng, "polars") for _ in range(n // 4)]
    run_cases(rep, cases)
    update_direct_sweep(rep)
    return rep.finish(
        rule="random schemas carrying every component attribute (checks, parsers, nullable, unique, report_duplicates, "
             "coerce, required, title, description, default, metadata, drop_invalid_rows; Index / MultiIndex with "
             "options) x sequences of 1-5 transformation calls (15% invalid requests); after every call: receiver "
             "fingerprint, frame condition on every attribute not named by the call, MultiIndex consistency, verdict of "
             "the transformed schema on the transformed conforming frame and on a frame violating a surviving check, "
             "inverse laws on the final schema, and equality with the Lean model's schema; pandas and polars",
        level_note=["acceptance in the Lean mirror theorems is structural (presence, strict, ordered, per-component "
                    "verdict as an arbitrary function); the semantics of a component's verdict is C01's"],
    )

"""Regenerate lean/PanderaModel/Generated/*.lean from /repo's working tree (tie T)."""
from __future__ import annotations

import sys
from pathlib import Path

from .common import LEAN, REPO, write_if_changed

sys.path.insert(0, str(Path(__file__).resolve().parent.parent))


ALL = ("scopemap", "builtin", "envconfig", "checkapi", "skeletons", "alias", "registry", "columnprops", "scriptslots", "inferstats", "decorators", "modelrules", "coercerules", "backendrules", "strategyrules", "subsamplerules", "schemamutation", "kindprograms")


def regenerate(which=("scopemap",)) -> dict:
    if which is None:
        which = ALL
    out = {}
    gen = LEAN / "PanderaModel" / "Generated"
    if "scopemap" in which:
        from extract import scopemap
        info = scopemap.extract(REPO)
        write_if_changed(gen / "ScopeMap.lean", scopemap.render(info))
        out["scopemap"] = info
    if "envconfig" in which:
        from extract import envconfig
        write_if_changed(gen / "EnvConfig.lean", envconfig.render(REPO))
    if "checkapi" in which:
        from extract import checkapi
        write_if_changed(gen / "CheckApi.lean", checkapi.render(REPO))
    if "skeletons" in which:
        from extract import skeletons
        write_if_changed(gen / "Skeletons.lean", skeletons.render(REPO))
    if "alias" in which:
        from extract import alias_skeletons
        write_if_changed(gen / "AliasSkeletons.lean", alias_skeletons.render(REPO))
    if "kindprograms" in which:
        from extract import kind_programs
        write_if_changed(gen / "KindPrograms.lean", kind_programs.render(REPO))
    if "registry" in which:
        # needs the engines of /repo: run in the interpreter that imports it
        import subprocess, json as _json
        code = ("import sys, json; sys.path.insert(0, %r); sys.path.insert(0, %r); "
                "from extract import dtype_registry as d; ds = d.dump_all(); "
                "print(json.dumps({'dump': ds, 'lean': d.render(ds)}))") % (str(REPO), str(LEAN.parent))
        p = subprocess.run(["/venv/bin/python", "-W", "ignore", "-c", code], capture_output=True, text=True, timeout=600)
        if p.returncode != 0:
            raise RuntimeError("dtype registry dump failed: " + p.stderr[-2000:])
        payload = _json.loads(p.stdout.strip().splitlines()[-1])
        write_if_changed(gen / "DtypeRegistry.lean", payload["lean"])
        out["registry"] = payload["dump"]
    if "columnprops" in which:
        from extract import columnprops
        write_if_changed(gen / "ColumnProps.lean", columnprops.render(REPO))
    if "scriptslots" in which:
        from extract import scriptslots
        write_if_changed(gen / "ScriptSlots.lean", scriptslots.render(REPO))
    if "inferstats" in which:
        from extract import inferstats
        write_if_changed(gen / "InferStats.lean", inferstats.render(REPO))
    if "decorators" in which:
        from extract import decorator_branches
        write_if_changed(gen / "DecoratorBranches.lean", decorator_branches.render(REPO))
    if "modelrules" in which:
        from extract import model_rules
        write_if_changed(gen / "ModelRules.lean", model_rules.render(REPO))
    if "coercerules" in which:
        from extract import coerce_rules
        write_if_changed(gen / "CoerceRules.lean", coerce_rules.render(REPO))
    if "backendrules" in which:
        from extract import backend_rules
        write_if_changed(gen / "BackendRules.lean", backend_rules.render(REPO))
    if "strategyrules" in which:
        from extract import strategy_rules
        write_if_changed(gen / "StrategyRules.lean", strategy_rules.render(REPO))
    if "schemamutation" in which:
        from extract import schema_mutation
        write_if_changed(gen / "SchemaMutation.lean", schema_mutation.render(REPO))
    if "subsamplerules" in which:
        from extract import subsample_rules
        write_if_changed(gen / "SubsampleRules.lean", subsample_rules.render(REPO))
    if "builtin" in which:
        from extract import builtin_checks
        write_if_changed(gen / "BuiltinChecks.lean", builtin_checks.render(REPO))
    return out

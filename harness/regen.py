"""Regenerate lean/PanderaModel/Generated/*.lean from /repo's working tree (tie T)."""
from __future__ import annotations

import sys
from pathlib import Path

from .common import LEAN, REPO, write_if_changed

sys.path.insert(0, str(Path(__file__).resolve().parent.parent))


ALL = ("scopemap", "builtin", "envconfig", "checkapi", "skeletons", "alias")


def regenerate(which=("scopemap",)) -> dict:
    if which is None:
        which = ALL
    out = {}
    gen = LEAN / "PanderaModel" / "Generated"
    if "scopemap" in which:
        from extract import scopemap
        info = scopemap.extract(REPO)
        write_if_changed(gen / "ScopeMap.lean", scopemap.render(info))
        out["scopemap"] = info
    if "envconfig" in which:
        from extract import envconfig
        write_if_changed(gen / "EnvConfig.lean", envconfig.render(REPO))
    if "checkapi" in which:
        from extract import checkapi
        write_if_changed(gen / "CheckApi.lean", checkapi.render(REPO))
    if "skeletons" in which:
        from extract import skeletons
        write_if_changed(gen / "Skeletons.lean", skeletons.render(REPO))
    if "alias" in which:
        from extract import alias_skeletons
        write_if_changed(gen / "AliasSkeletons.lean", alias_skeletons.render(REPO))
    if "builtin" in which:
        from extract import builtin_checks
        write_if_changed(gen / "BuiltinChecks.lean", builtin_checks.render(REPO))
    return out

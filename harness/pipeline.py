"""Generator and implementation runner shared by the properties that speak about the
pandas validation pipeline (C01, C02, C03, C11, C18-depth, C20)."""
from __future__ import annotations

import random
import warnings

import numpy as np
import pandas as pd

from . import absdata as A

REGEX_ALPHABET = "abx1c"


def good_values(spec, dtype):
    """pool values passing all of the column's checks, computed with pandera's own Check objects
    (generator bias only — never used as an oracle)"""
    pool = A.POOL[dtype]
    ok = [True] * len(pool)
    for cs in spec["checks"]:
        try:
            chk = A.check_of(cs)
            s = A.series_of(pool, dtype)
            with warnings.catch_warnings():
                warnings.simplefilter("ignore")
                out = chk(s).check_output
            if hasattr(out, "tolist"):
                o = out.tolist()
                if len(o) == len(pool):
                    ok = [a and bool(b) for a, b in zip(ok, o)]
        except Exception:
            pass
    good = [v for v, k in zip(pool, ok) if k]
    return good


def gen_column_values(rng, spec, dtype, n, conform_bias):
    good = good_values(spec, dtype) if spec is not None and rng.random() < conform_bias else A.POOL[dtype]
    if not good:
        good = A.POOL[dtype]
    null_rate = 0.0
    dup_rate = 0.3
    if spec is not None:
        null_rate = 0.25 if spec["nullable"] else 0.06
        dup_rate = 0.05 if spec["unique"] else 0.3
    vals = []
    for _ in range(n):
        if vals and rng.random() < dup_rate:
            vals.append(rng.choice(vals))
        elif A.can_null(dtype) and rng.random() < null_rate:
            vals.append(A.NULL)
        else:
            cands = good
            if spec is not None and spec["unique"]:
                cands = [g for g in good if g not in vals] or good
            vals.append(rng.choice(cands))
    return vals


def gen_index(rng, n, with_schema):
    r = rng.random()
    if r < 0.6:
        lv = {"name": None, "dtype": "int64", "vals": [A.vint(i) for i in range(n)]}
    elif r < 0.8:
        base = rng.sample(range(10, 10 + max(n, 1) * 3), n)
        lv = {"name": rng.choice([None, "idx"]), "dtype": "int64", "vals": [A.vint(i) for i in base]}
    else:
        labs = rng.sample(["r%d" % i for i in range(max(n, 1) * 2 + 2)], n)
        lv = {"name": rng.choice([None, "idx", "k"]), "dtype": "str", "vals": [A.vstr(s) for s in labs]}
    ix_spec = None
    if with_schema:
        dtype = lv["dtype"] if rng.random() < 0.85 else rng.choice(["int64", "str"])
        ix_spec = A.gen_colspec(rng, rng.choice([None, lv["name"], "idx"]), dtype, nchecks=rng.choice([0, 0, 1]))
        ix_spec["required"] = True
        # index labels: occasionally make them violate (dups / checks) by regenerating values
        if rng.random() < 0.3 and n > 1:
            vals = list(lv["vals"])
            vals[rng.randrange(1, n)] = vals[0]
            lv = dict(lv, vals=vals)
    return [lv], ix_spec


def gen_case(rng: random.Random, *, regex_rate=0.2, index_schema_rate=0.3, conform_bias=0.8,
             max_rows=5, allow_dup_labels=False):
    ncols = rng.choice([1, 1, 2, 2, 3, 4])
    names = rng.sample(A.NAMES, ncols)
    n = 0 if rng.random() < 0.08 else rng.randint(1, max_rows)
    specs = []
    frame_cols = []
    for name in names:
        dtype = rng.choice(A.DTYPES)
        if rng.random() < regex_rate:
            pat = A.gen_pat(rng, 2, REGEX_ALPHABET)
            spec = A.gen_colspec(rng, A.pat_render(pat), dtype, regex=pat)
        else:
            spec = A.gen_colspec(rng, name, dtype)
        if any(spec["name"] == s2["name"] for s2, _ in specs):
            continue        # schema columns are a dict keyed by name
        specs.append((spec, dtype))
    # frame columns: declared ones (mostly present) …
    used = []
    for spec, dtype in specs:
        if spec["regex"] is not None:
            continue
        if rng.random() < 0.88:
            phys = dtype if rng.random() < 0.9 else rng.choice(A.DTYPES)
            sp = spec if phys == dtype else None
            frame_cols.append({"name": spec["name"], "dtype": phys,
                               "vals": gen_column_values(rng, sp, phys, n, conform_bias)})
            used.append(spec["name"])
    # … columns for regex declarations / extras
    regex_specs = [(s, d) for s, d in specs if s["regex"] is not None]
    extra_n = rng.choice([0, 0, 1, 2]) + (1 if regex_specs else 0)
    import re
    for _ in range(extra_n):
        cand = [x for x in A.NAMES if x not in used]
        if not cand:
            break
        nm = rng.choice(cand)
        used.append(nm)
        m = [(s, d) for s, d in regex_specs if re.match(A.pat_render(s["regex"]), nm)]
        if m and rng.random() < 0.85:
            s, d = m[0]
            frame_cols.append({"name": nm, "dtype": d, "vals": gen_column_values(rng, s, d, n, conform_bias)})
        else:
            d = rng.choice(A.DTYPES)
            frame_cols.append({"name": nm, "dtype": d, "vals": gen_column_values(rng, None, d, n, conform_bias)})
    if rng.random() < 0.2:
        rng.shuffle(frame_cols)
    index, ix_spec = gen_index(rng, n, rng.random() < index_schema_rate)
    if allow_dup_labels and n > 1 and rng.random() < 0.3:
        vals = list(index[0]["vals"])
        vals[rng.randrange(1, n)] = vals[0]
        index = [dict(index[0], vals=vals)]
    uniq = []
    if rng.random() < 0.15 and frame_cols:
        uniq = rng.sample([c["name"] for c in frame_cols], min(len(frame_cols), rng.choice([1, 2])))
    S = {
        "columns": [s for s, _ in specs], "index": ix_spec,
        "strict": "yes" if rng.random() < 0.35 else "no",
        "ordered": rng.random() < 0.25,
        "unique": uniq, "reportDup": rng.choice(["first", "last", "none"]),
        "coerce": False, "addMissing": False, "dropInvalid": False,
    }
    D = {"cols": frame_cols, "index": index, "nrows": n}
    return {"schema": S, "frame": D}


# ---- implementation side ----------------------------------------------------

REASON = {
    "COLUMN_NOT_IN_SCHEMA": "columnNotInSchema", "COLUMN_NOT_ORDERED": "columnNotOrdered",
    "COLUMN_NOT_IN_DATAFRAME": "columnNotInDataframe", "DUPLICATES": "duplicates",
    "WRONG_FIELD_NAME": "wrongFieldName", "SERIES_CONTAINS_NULLS": "seriesContainsNulls",
    "SERIES_CONTAINS_DUPLICATES": "seriesContainsDuplicates", "WRONG_DATATYPE": "wrongDatatype",
    "DATAFRAME_CHECK": "dataframeCheck", "CHECK_ERROR": "checkError",
    "INVALID_COLUMN_NAME": "invalidColumnName", "MISMATCH_INDEX": "mismatchIndex",
    "DATATYPE_COERCION": "datatypeCoercion", "ADD_MISSING_COLUMN_NO_DEFAULT": "addMissingNoDefault",
}


def canon_error(err, df):
    """SchemaError -> {reason, ctx, label, checkIx, cells:[(label, value)]} with abstract values"""
    import pandera as pa
    from pandera.api.pandas.components import Column, Index
    reason = REASON.get(err.reason_code.name, err.reason_code.name)
    sch = err.schema
    if isinstance(sch, Column):
        ctx = "column"
    elif isinstance(sch, Index):
        ctx = "index"
    else:
        ctx = "frame"
    label = getattr(sch, "name", None) if ctx != "frame" else None
    if ctx == "column" and getattr(err, "column_name", None) is not None:
        label = err.column_name
    fc = err.failure_cases
    cells = []
    scalar = None
    if isinstance(fc, pd.DataFrame):
        if "index" in fc.columns and "failure_case" in fc.columns:
            cols = fc["column"].tolist() if "column" in fc.columns else [label] * len(fc)
            for col, ix, val in zip(cols, fc["index"].tolist(), fc["failure_case"].tolist()):
                try:
                    av = A.from_py(val)
                except ValueError:
                    av = {"other": repr(val)}
                cells.append((col, ix, av))
    elif fc is not None:
        scalar = fc if isinstance(fc, (str, int, float, bool)) else repr(fc)
    if ctx == "frame" and reason in ("columnNotInSchema", "columnNotOrdered", "columnNotInDataframe"):
        label = scalar
    return {"reason": reason, "ctx": ctx, "label": label, "checkIx": err.check_index,
            "cells": cells, "scalar": scalar}


def run_validate(schema, df, lazy, **kw):
    """returns (kind, payload): ok/df, error/SchemaError, errors/SchemaErrors, crash/exception"""
    import pandera as pa
    with warnings.catch_warnings():
        warnings.simplefilter("ignore")
        try:
            out = schema.validate(df, lazy=lazy, **kw)
            return "ok", out
        except pa.errors.SchemaErrors as e:
            return "errors", e
        except pa.errors.SchemaError as e:
            return "error", e
        except Exception as e:  # noqa: BLE001
            return "crash", e


def frames_equal(a: pd.DataFrame, b: pd.DataFrame) -> bool:
    try:
        if list(a.columns) != list(b.columns) or len(a) != len(b):
            return False
        if not a.index.equals(b.index) or list(a.index.names) != list(b.index.names):
            return False
        if list(map(str, a.dtypes)) != list(map(str, b.dtypes)):
            return False
        return bool(a.equals(b))
    except Exception:
        return False


def well_typed(case) -> bool:
    """every declared dtype equals the physical dtype of every column it applies to, so that the
    lazy run evaluates each check on values of the kind the check was written for"""
    import re
    S, D = case["schema"], case["frame"]
    for spec in S["columns"]:
        for c in D["cols"]:
            hit = (re.match(A.pat_render(spec["regex"]), c["name"]) is not None) if spec["regex"] is not None \
                else c["name"] == spec["name"]
            if hit and not check_args_fit(spec, c["dtype"]):
                return False
    if S["index"] is not None:
        for l in D["index"]:
            if not check_args_fit(S["index"], l["dtype"]):
                return False
    return True


def check_args_fit(spec, phys) -> bool:
    if spec["dtype"] is not None and spec["dtype"] != phys:
        return False
    for cs in spec["checks"]:
        b = cs["b"]
        k = next(iter(b))
        x = b[k]
        vals = []
        if "v" in x: vals = [x["v"]]
        if "vs" in x: vals = x["vs"]
        if "lo" in x and k == "inRange": vals = [x["lo"], x["hi"]]
        for v in vals:
            if A.vkind(v) != phys:
                return False
        if k.startswith("str") and phys != "str":
            return False
    return True


def _kind_ok(k, phys):
    num = ("int64", "float64")
    return k == phys or (k in num and phys in num)


def check_typed_for(cs, phys) -> bool:
    """the check's arguments are of the kind of the column it is applied to"""
    b = cs["b"]
    k = next(iter(b))
    x = b[k]
    vals = []
    if "v" in x: vals = [x["v"]]
    if "vs" in x: vals = x["vs"]
    if k == "inRange": vals = [x["lo"], x["hi"]]
    if k.startswith("str"):
        return phys == "str"
    return all(_kind_ok(A.vkind(v), phys) for v in vals)


def checks_typed(case) -> bool:
    """no check is applied to a column of another kind *while the dtype declaration lets the column through*
    (dtype None or equal to the physical dtype).  The documentation defines no meaning for such a check;
    pandas raises or not depending on the operation and on the physical array type."""
    import re
    S, D = case["schema"], case["frame"]
    for spec in S["columns"]:
        for c in D["cols"]:
            hit = (re.match(A.pat_render(spec["regex"]), c["name"]) is not None) if spec["regex"] is not None \
                else c["name"] == spec["name"]
            if hit and spec["dtype"] in (None, c["dtype"]):
                if not all(check_typed_for(cs, c["dtype"]) for cs in spec["checks"]):
                    return False
    if S["index"] is not None:
        for l in D["index"]:
            if S["index"]["dtype"] in (None, l["dtype"]):
                if not all(check_typed_for(cs, l["dtype"]) for cs in S["index"]["checks"]):
                    return False
    return True

"""C08 — one schema definition means the same thing on pandas and on polars.

Tie: (T) Generated/BuiltinChecks.lean now carries the bodies of *both* `builtin_checks.py` files in
one expression IR (Props/C08.lean proves them equal to the documented predicate, hence to each
other, for all arguments and values) and Generated/BackendRules.lean the null handling of the polars
check backend; (D) the same backend-neutral specification and the same rows are given to both
backends (`lazy=True`): verdict, failing cells (column, row position, kind of constraint) and the
parsed output are compared with each other, and the verdict with Lean's declarative `Sat` to say
which side is wrong.
"""
from __future__ import annotations

import itertools
import json
import re
import warnings

import pandas as pd

from . import absdata as A
from . import pipeline as P
from .common import Report, audit, corpus_cases, rng_for, run_driver, warm_up_backends
from .regen import regenerate

PROP = "C08"
MODULES = ["PanderaModel.Props.C08"]


def gen_case(rng):
    c = P.gen_case(rng, regex_rate=0.0, index_schema_rate=0.0, conform_bias=0.8, max_rows=5)   # (regex column names mean re.match on pandas and a full ^...$ match on polars: not in the shared vocabulary)
    S, D = c["schema"], c["frame"]
    S["index"] = None
    S["reportDup"] = "none"                                  # report_duplicates="all" on both sides
    for spec in S["columns"]:
        spec["reportDup"] = "none"
    D["index"] = A.default_index(D["nrows"])
    # parsing options of the shared vocabulary
    r = rng.random()
    if r < 0.25:
        for spec in S["columns"]:
            if rng.random() < 0.6 and spec["dtype"] in ("int64", "float64", "str"):
                spec["coerce"] = True
    elif r < 0.35:
        S["coerce"] = True
    if rng.random() < 0.12:
        S["strict"] = "filter"
    for spec in S["columns"]:
        if rng.random() < 0.1:
            for cs in spec["checks"]:
                cs["ignoreNa"] = False
    # an ordered schema with an optional column that the table lacks, followed by columns that are present
    if rng.random() < 0.12 and len(S["columns"]) >= 2:
        present = [col["name"] for col in D["cols"]]
        cand = [sp for sp in S["columns"][:-1] if sp["name"] in present]
        if cand:
            sp = rng.choice(cand)
            sp["required"] = False
            D["cols"] = [col for col in D["cols"] if col["name"] != sp["name"]]
            S["ordered"] = True
    # defaults on present columns (required or optional), with a missing value to fill now and then
    by = {col["name"]: col for col in D["cols"]}
    for spec in S["columns"]:
        if spec["dtype"] in A.POOL and spec["name"] in by and by[spec["name"]]["dtype"] == spec["dtype"] and rng.random() < 0.2:
            spec["default"] = rng.choice(A.POOL[spec["dtype"]])
            if rng.random() < 0.5:
                spec["required"] = False
            if A.can_null(spec["dtype"]) and D["nrows"] and rng.random() < 0.8:
                by[spec["name"]]["vals"][rng.randrange(D["nrows"])] = A.NULL
    c["opts"] = {}
    return c


def small_scope_cases():
    """every column of up to four values over {two values, null} under every combination of nullable / unique — the part of
    the space where uniqueness, nullability and missing values interact, enumerated rather than sampled"""
    out = []
    for dtype in ("float64", "str"):
        pool = A.POOL[dtype][:2] + [A.NULL]
        for n in range(1, 5):
            for vals in itertools.product(pool, repeat=n):
                for nullable, unique in ((True, True), (False, True), (True, False)):
                    spec = {"name": "a", "regex": None, "dtype": dtype, "nullable": nullable, "unique": unique, "required": True,
                            "coerce": False, "reportDup": "none", "checks": [], "default": None}
                    S = {"columns": [spec], "index": None, "strict": "no", "ordered": False, "unique": [], "reportDup": "none",
                         "coerce": False, "addMissing": False, "dropInvalid": False}
                    D = {"cols": [{"name": "a", "dtype": dtype, "vals": list(vals)}], "index": A.default_index(n), "nrows": n}
                    out.append({"schema": S, "frame": D, "opts": {}, "small_scope": True})
    return out


def kind_of(check) -> str:
    s = str(check)
    if "field_uniqueness" in s or "multiple_fields_uniqueness" in s:
        return "unique"
    if "not_nullable" in s:
        return "nullable"
    if s.startswith("dtype("):
        return "dtype"
    if "coerce" in s:
        return "coerce"
    if "column_in_schema" in s or "column_in_dataframe" in s or "column_ordered" in s:
        return s
    return "check"


def observe_pandas(S, D):
    schema = A.schema_of(S)
    df = A.frame_of(D)
    kind, out = P.run_validate(schema, df, lazy=True)
    if kind == "ok":
        return {"verdict": "ok", "out": A.abs_frame(out)["cols"] if _abstractable(out) else None}
    if kind == "errors":
        fc = out.failure_cases
        cells = set()
        scal = set()
        for col, chk, ix, ctx in zip(fc["column"].tolist(), fc["check"].tolist(), fc["index"].tolist(),
                                     fc["schema_context"].tolist()):
            k = kind_of(chk)
            if k == "dtype" or ix is None or (isinstance(ix, float) and ix != ix):
                scal.add((str(col), k))
            else:
                cells.add((str(col), int(ix), k))
        return {"verdict": "reject", "cells": sorted(cells), "scalars": sorted(scal),
                "reasons": sorted({e.reason_code.name for e in out.schema_errors})}
    return {"verdict": "raise:" + type(out).__name__}


def _abstractable(df):
    try:
        A.abs_frame(df)
        return True
    except Exception:  # noqa: BLE001
        return False


def observe_polars(S, D):
    from . import polars_abs as PA
    import pandera.polars as pap
    with warnings.catch_warnings():
        warnings.simplefilter("ignore")
        try:
            schema = PA.schema_of(S, with_defaults=True, coerce=S["coerce"])
            df = PA.frame_of(D)
        except Exception as e:  # noqa: BLE001
            return {"verdict": "unbuildable:" + type(e).__name__}
        try:
            out = schema.validate(df, lazy=True)
            try:
                cols = PA.abs_frame(out)["cols"]
            except Exception:  # noqa: BLE001
                cols = None
            return {"verdict": "ok", "out": cols}
        except pap.errors.SchemaErrors as e:
            fc = e.failure_cases
            cells, scal = set(), set()
            for col, chk, ix in zip(fc["column"].to_list(), fc["check"].to_list(), fc["index"].to_list()):
                k = kind_of(chk)
                if k == "dtype" or ix is None:
                    scal.add((str(col), k))
                else:
                    cells.add((str(col), int(ix), k))
            return {"verdict": "reject", "cells": sorted(cells), "scalars": sorted(scal),
                    "reasons": sorted({x.reason_code.name for x in e.schema_errors})}
        except Exception as e:  # noqa: BLE001
            return {"verdict": "raise:" + type(e).__name__}


def norm_out(cols):
    """parsed output up to the null representation (NaN / None / NaT unify, a NaN float is a null)"""
    if cols is None:
        return None
    out = []
    for c in cols:
        vals = [A.NULL if (v == A.NULL or (isinstance(v, dict) and "nan" in v)) else v for v in c["vals"]]
        out.append({"name": c["name"], "dtype": c["dtype"], "vals": vals})
    return out


def region_of(case, pd_obs, pl_obs):
    S, D = case["schema"], case["frame"]
    names = [c["name"] for c in D["cols"]]
    # the three crash classes of the polars backend recorded under C06
    if pl_obs["verdict"] == "raise:ColumnNotFoundError":
        return "K_C08_polarsMissingColumn"
    if pl_obs["verdict"] == "raise:NotImplementedError":
        return "K_C08_polarsLazyFailureCases"
    if pl_obs["verdict"] == "raise:AttributeError" and any(s["dtype"] is None for s in S["columns"]):
        return "K_C08_polarsNoDtype"
    declared = [sp["name"] for sp in S["columns"]]
    if pl_obs["verdict"] == "raise:ComputeError" and S["strict"] == "filter" and any(u not in declared for u in S["unique"]):
        return "K_C08_polarsUniqueOnFilteredColumn"
    # duplicated nulls: pandas drops them from the report (K_C02_nullDuplicates), polars lists them
    for spec in S["columns"]:
        for c in D["cols"]:
            if c["name"] == spec["name"] and spec["unique"] and sum(1 for v in c["vals"] if v == A.NULL) >= 2:
                return "K_C08_nullDuplicates"
    # Column(str) on an empty / all-null column of another dtype (C01 finding K_C01_strVacuous)
    for spec in S["columns"]:
        for c in D["cols"]:
            hit = (re.match(A.pat_render(spec["regex"]), c["name"]) is not None) if spec["regex"] is not None \
                else c["name"] == spec["name"]
            if hit and spec["dtype"] == "str" and c["dtype"] != "str" and all(v == A.NULL for v in c["vals"]):
                return "K_C08_strVacuous"
    # ne / notin with ignore_na=False on a null
    for spec in S["columns"]:
        for cs in spec["checks"]:
            k = next(iter(cs["b"]))
            if not cs["ignoreNa"] and k in ("ne", "notin"):
                for c in D["cols"]:
                    if any(v == A.NULL for v in c["vals"]):
                        return "K_C08_negatedOnNull"
    return None


def in_scope(case):
    """the vocabulary both backends support and the documentation gives a meaning to"""
    S, D = case["schema"], case["frame"]
    if not P.checks_typed(case):
        return False
    # a check on a column whose physical dtype differs from the declared one is evaluated on foreign values
    for spec in S["columns"]:
        for c in D["cols"]:
            hit = (re.match(A.pat_render(spec["regex"]), c["name"]) is not None) if spec["regex"] is not None \
                else c["name"] == spec["name"]
            if hit and spec["dtype"] is not None and spec["dtype"] != c["dtype"] and (spec["checks"] or spec["coerce"] or S["coerce"]):
                return False
    return True


def run_cases(rep, cases):
    try:
        import polars  # noqa: F401
    except Exception:  # noqa: BLE001
        rep.notes.append("polars not importable: nothing compared")
        return
    # the declarative verdict (C01's driver) for the schemas without parsing options
    spec_cases, idx = [], []
    for i, c in enumerate(cases):
        S = c["schema"]
        if not (S["coerce"] or any(s["coerce"] or s.get("default") is not None for s in S["columns"]) or S["strict"] == "filter"):
            spec_cases.append({"mode": "validate", "schema": S, "frame": c["frame"]})
            idx.append(i)
    sat = {}
    if spec_cases:
        try:
            for i, a in zip(idx, run_driver("C01", spec_cases)):
                if "sat" in a:
                    sat[i] = a["sat"]
        except Exception:  # noqa: BLE001
            pass
    # the Lean model of the polars container pipeline (Polars.lean) for the cases without parsing options
    plm = {}
    if spec_cases:
        try:
            for i, a in zip(idx, run_driver("C08", [{"schema": x["schema"], "frame": x["frame"]} for x in spec_cases])):
                if "errors" in a and a.get("wf"):
                    plm[i] = a
        except Exception as e:  # noqa: BLE001
            rep.notes.append(f"polars model driver unavailable: {type(e).__name__}")
    for i, c in enumerate(cases):
        if not in_scope(c):
            rep.count("out-of-scope")
            continue
        S, D = c["schema"], c["frame"]
        pd_obs = observe_pandas(S, D)
        pl_obs = observe_polars(S, D)
        if i in plm and pl_obs["verdict"] in ("ok", "reject"):
            compare_polars_model(rep, c, plm[i], pl_obs, region_of(c, pd_obs, pl_obs))
        rep.case(c, nontrivial=D["nrows"] > 0)
        rep.count(f"verdicts:{pd_obs['verdict'].split(':')[0]}/{pl_obs['verdict'].split(':')[0]}")
        if pl_obs["verdict"].startswith("unbuildable"):
            continue
        region = region_of(c, pd_obs, pl_obs)
        who = ""
        if i in sat:
            want = "ok" if sat[i] else "reject"
            who = f" (the declared semantics says {want}: " + \
                  ("polars deviates" if pd_obs["verdict"] == want else "pandas deviates" if pl_obs["verdict"] == want else "both deviate") + ")"
        if pd_obs["verdict"] != pl_obs["verdict"]:
            rep.property_failure(c, f"verdict pandas={pd_obs['verdict']} polars={pl_obs['verdict']}{who}", region=region,
                                 detail={"pandas": pd_obs, "polars": pl_obs})
            continue
        if pd_obs["verdict"] == "reject":
            if pd_obs["cells"] != pl_obs["cells"]:
                rep.property_failure(c, f"failing cells differ: pandas {pd_obs['cells'][:6]} polars {pl_obs['cells'][:6]}",
                                     region=region, detail={"pandas": pd_obs, "polars": pl_obs})
            else:
                rep.count("cells-equal")
        elif pd_obs["verdict"] == "ok":
            a, b = norm_out(pd_obs.get("out")), norm_out(pl_obs.get("out"))
            if a is None or b is None:
                rep.count("output-not-abstractable")
            elif [(x["name"], x["vals"]) for x in a] != [(x["name"], x["vals"]) for x in b]:
                rep.property_failure(c, "parsed outputs differ: pandas "
                                        f"{[(x['name'], x['vals']) for x in a][:3]} polars {[(x['name'], x['vals']) for x in b][:3]}",
                                     region=region)
            else:
                rep.count("outputs-equal")
        if i in sat and pd_obs["verdict"] in ("ok", "reject") and (pd_obs["verdict"] == "ok") != sat[i] and region is None:
            rep.correspondence_break(c, f"both backends say {pd_obs['verdict']}, Lean's Sat says {sat[i]}")


MODEL_KIND = {"seriesContainsNulls": "nullable", "seriesContainsDuplicates": "unique", "dataframeCheck": "check",
              "duplicates": "unique"}


def compare_polars_model(rep, c, a, pl_obs, region):
    """the real polars backend against the Lean model of its pipeline (`Polars.frameErrors`): verdict, row-level
    failing cells, and which columns carry a dtype / check-error / presence / strictness error"""
    rep.count("polars-model:compared")
    want = "ok" if a["accepts"] else "reject"
    if pl_obs["verdict"] != want:
        if region is None:
            rep.correspondence_break(c, f"polars backend says {pl_obs['verdict']}, the Lean model of the polars pipeline {want}",
                                     detail={"model": a["errors"][:3], "impl": pl_obs})
        return
    if want == "ok":
        return
    cells = sorted({(str(x["col"]), int(x["pos"]), MODEL_KIND[e["reason"]]) for e in a["errors"]
                    if e["reason"] in MODEL_KIND and e["reason"] != "duplicates" for x in e["cells"]})
    impl_cells = sorted((col, ix, k) for col, ix, k in map(tuple, pl_obs["cells"]))
    joint = any(e["reason"] == "duplicates" for e in a["errors"])
    if cells != impl_cells and not joint and region is None:
        rep.correspondence_break(c, f"polars failing cells {impl_cells[:5]} differ from the Lean model's {cells[:5]}",
                                 detail={"model": a["errors"][:3], "impl": pl_obs})
    else:
        rep.count("polars-model:cells-equal")


def builtin_sweep(rep, rng, n):
    """each built-in check on a column of pool values (plus a null), both backends, against each other"""
    import polars as pl
    from . import polars_abs as PA
    for _ in range(n):
        dtype = rng.choice(A.DTYPES)
        cs = A.gen_check(rng, dtype)
        cs["ignoreNa"] = rng.random() < 0.8
        vals = list(A.POOL[dtype]) + ([A.NULL] if A.can_null(dtype) else [])
        if dtype == "str":     # characters of 2, 3 and 4 utf-8 bytes: lengths count characters on both backends
            vals += [A.vstr(x) for x in ("é", "日本", "añb", "😀", "ab😀")]
        case = {"mode": "builtin", "b": cs["b"], "ignoreNa": cs["ignoreNa"], "dtype": dtype,
                "values": [A.to_py(v) for v in vals] if dtype == "str" else None}
        with warnings.catch_warnings():
            warnings.simplefilter("ignore")
            try:
                out = A.check_of(cs)(A.series_of(vals, dtype))
                pd_fail = sorted(int(i) for i in out.failure_cases.index.tolist()) if out.failure_cases is not None else []
                pd_pass = bool(out.check_passed)
            except Exception as e:  # noqa: BLE001
                pd_fail, pd_pass = "raise:" + type(e).__name__, None
            try:
                lf = pl.LazyFrame({"c": [PA.to_pl(v) for v in vals]}, schema={"c": PA.pl_dtype(dtype)}).with_row_index("pos")
                res = PA.check_of(cs)(lf, "c")
                fc = res.failure_cases.collect()
                pl_fail = sorted(fc["pos"].to_list()) if "pos" in fc.columns else None
                if pl_fail is None:
                    co = res.check_output.collect()["check_output"].to_list()
                    pl_fail = [i for i, o in enumerate(co) if o is False]
                pl_pass = bool(res.check_passed.collect().item())
            except Exception as e:  # noqa: BLE001
                pl_fail, pl_pass = "raise:" + type(e).__name__, None
        rep.evaluations += 1
        k = next(iter(cs["b"]))
        rep.count("builtin:" + k)
        if isinstance(pd_fail, str) or isinstance(pl_fail, str):
            if isinstance(pd_fail, str) != isinstance(pl_fail, str):
                rep.count("builtin:one-side-raises")
            continue
        if pd_pass != pl_pass or pd_fail != pl_fail:
            region = "K_C08_negatedOnNull" if (not cs["ignoreNa"] and k in ("ne", "notin") and A.can_null(dtype)) else None
            rep.property_failure(case, f"built-in {k}: pandas fails at {pd_fail}, polars at {pl_fail}", region=region)


def aggregate_sweep(rep, rng, n):
    """the whole-column built-in `unique_values_eq` on both backends and against Lean's `uniqueValuesEq` (documented set
    equality on the non-null values): empty, all-null, exact and random columns with and without nulls"""
    import pandas as pd
    import polars as pl
    import pandera as pa
    import pandera.polars as pap
    cases = []
    for _ in range(n):
        dtype = rng.choice(["int64", "float64", "str"])
        pool = A.POOL[dtype][:5]
        vs = rng.sample(pool, rng.randint(0, 3))
        shape = rng.choice(["all-null", "exact", "exact", "exact+null", "exact+null", "random", "short+null"])
        if shape == "all-null":
            vals = [A.NULL] * rng.randint(1, 3)
        elif shape.startswith("exact"):
            vals = list(vs) + [rng.choice(vs) for _ in range(rng.randint(0, 3))] if vs else []
            rng.shuffle(vals)
        elif shape == "short+null":
            vals = list(vs[:-1]) if vs else []      # as many distinct entries as `vs` once the null is counted
        else:
            vals = [rng.choice(pool) for _ in range(rng.randint(1, 5))]
        if shape.endswith("+null") or (shape == "random" and rng.random() < 0.4):
            vals.insert(rng.randrange(len(vals) + 1), A.NULL)
        if dtype == "int64" and A.NULL in vals:
            dtype = "float64"
            vs = [A.vflt(4 * v["int"]["i"]) if isinstance(v, dict) and "int" in v else v for v in vs]
            vals = [A.vflt(4 * v["int"]["i"]) if isinstance(v, dict) and "int" in v else v for v in vals]
        cases.append({"mode": "aggregate", "dtype": dtype, "vs": vs, "vals": vals, "shape": shape})
    ans = run_driver("C01", [{"mode": "aggregate", "vs": c["vs"], "vals": c["vals"]} for c in cases])
    pl_dtype = {"int64": pl.Int64, "float64": pl.Float64, "str": pl.Utf8}
    for c, a in zip(cases, ans):
        if "error" in a:
            rep.correspondence_break(c, "driver: " + a["error"])
            continue
        want = a["uniqueValuesEq"]
        py_vs = [A.to_py(v) for v in c["vs"]]
        py_vals = [None if v == A.NULL else A.to_py(v) for v in c["vals"]]
        got = {}
        with warnings.catch_warnings():
            warnings.simplefilter("ignore")
            try:
                pa.DataFrameSchema({"a": pa.Column(None, pa.Check.unique_values_eq(py_vs), nullable=True)}).validate(
                    pd.DataFrame({"a": A.series_of(c["vals"], c["dtype"], name="a")}))
                got["pandas"] = True
            except (pa.errors.SchemaError, pa.errors.SchemaErrors):
                got["pandas"] = False
            except Exception as e:  # noqa: BLE001
                got["pandas"] = "crash:" + type(e).__name__
            try:
                pap.DataFrameSchema({"a": pap.Column(None, pap.Check.unique_values_eq(py_vs), nullable=True)}).validate(
                    pl.DataFrame({"a": py_vals}, schema={"a": pl_dtype[c["dtype"]]}))
                got["polars"] = True
            except (pa.errors.SchemaError, pa.errors.SchemaErrors):
                got["polars"] = False
            except Exception as e:  # noqa: BLE001
                got["polars"] = "crash:" + type(e).__name__
        rep.evaluations += 1
        rep.count(f"aggregate:{c['shape']}:{got['pandas']}/{got['polars']}")
        if got["pandas"] != got["polars"] or got["polars"] != want:
            rep.property_failure(c, f"unique_values_eq({py_vs}) on {py_vals}: pandas {got['pandas']}, polars {got['polars']}, "
                                    f"the documented set equality on the non-null values is {want}")


def anchoring_sweep(rep, rng, n):
    """str_matches with top-level alternations on strings whose *tail* matches one alternative: the inputs on which
    a prefix-anchored and a merely searched pattern differ"""
    import polars as pl
    import pandera as pa
    import pandera.polars as pap
    for _ in range(n):
        alts = rng.sample(["a", "b", "x1", "cb", "1", "ab"], rng.randint(2, 3))
        # (a pattern the user anchored already, at its first alternative only, is still one pattern)
        pat = rng.choice(["", "", "^"]) + "|".join(alts)
        strings = [rng.choice(["z", "q", ""]) + rng.choice(alts) + rng.choice(["", "z"]) for _ in range(4)] + alts
        case = {"mode": "builtin", "b": {"strMatches": pat}, "strings": strings}
        with warnings.catch_warnings():
            warnings.simplefilter("ignore")
            out = pa.Check.str_matches(pat)(pd.Series(strings, dtype=object))
            pd_fail = sorted(int(i) for i in out.failure_cases.index.tolist()) if out.failure_cases is not None else []
            res = pap.Check.str_matches(pat)(pl.LazyFrame({"c": strings}), "c")
            pl_fail = [i for i, o in enumerate(res.check_output.collect()["check_output"].to_list()) if o is False]
        rep.evaluations += 1
        rep.count("anchoring:str_matches-alternation")
        if pd_fail != pl_fail:
            rep.property_failure(case, f"str_matches({pat!r}) on {strings}: pandas fails at {pd_fail}, polars at {pl_fail}")


def run(tier, replay=None):
    rep = Report(PROP, tier)
    warm_up_backends()
    regenerate(("builtin", "backendrules"))
    rep.audit = audit(PROP, MODULES)
    rep.audit["modules"] = MODULES
    rng = rng_for(PROP)
    if replay:
        case = json.loads(open(replay).read())["case"]
        if case.get("mode") == "builtin":
            builtin_sweep(rep, rng, 300)
            anchoring_sweep(rep, rng, 60)
        elif case.get("mode") == "aggregate":
            aggregate_sweep(rep, rng_for(PROP, "aggregate"), 200)
        else:
            run_cases(rep, [case])
        return rep.finish(rule="replay")
    n = 700 if tier == "quick" else 25000
    run_cases(rep, corpus_cases(PROP) + small_scope_cases() + [gen_case(rng) for _ in range(n)])
    try:
        builtin_sweep(rep, rng, 300 if tier == "quick" else 8000)
        anchoring_sweep(rep, rng, 60 if tier == "quick" else 1500)
        aggregate_sweep(rep, rng_for(PROP, "aggregate"), 200 if tier == "quick" else 5000)
    except ImportError:
        pass
    return rep.finish(
        rule="C01's generator on the neutral vocabulary (int/float/str/bool/datetime, nullable, unique, required, strict incl. "
             "'filter', ordered, joint uniqueness, coercion at column and frame level, every built-in check with both ignore_na "
             "values, regex columns): same rows to both backends with lazy=True; verdict, failing cells (column, position, "
             "constraint kind), parsed output up to the null representation; Lean's Sat names the deviating side; every "
             "built-in on the value pool of its dtype plus a null on both check backends",
        level_note=["the regular-expression engines (Python re, Rust regex) and the comparison semantics of pandas / polars on "
                    "non-null values are tied to the model by the differential only",
                    "no Lean model of the polars container pipeline: agreement of the pipelines is differential, the theorems "
                    "cover the built-in check bodies, the check backends' null handling, anchoring and uniqueness verdicts"],
    )

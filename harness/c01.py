"""C01 — validation verdict equals the declared schema semantics (pandas)."""
from __future__ import annotations

import itertools
import json

from . import absdata as A
from . import pipeline as P
from .common import Report, audit, corpus_cases, rng_for, run_driver, seed
from .regen import regenerate

PROP = "C01"
MODULES = ["PanderaModel.Props.C01"]


def impl_observe(case):
    S, D = case["schema"], case["frame"]
    schema = A.schema_of(S)
    df = A.frame_of(D)
    snapshot = df.copy(deep=True)
    kind, out = P.run_validate(schema, df, lazy=False)
    obs = {"kind": kind}
    if kind == "ok":
        obs["same"] = P.frames_equal(out, snapshot)
    elif kind == "error":
        obs["reason"] = P.REASON.get(out.reason_code.name, out.reason_code.name)
    elif kind == "crash":
        obs["exc"] = type(out).__name__ + ": " + str(out)[:200]
    return obs


def builtin_sweep(rep, rng, n):
    """artefact-specific tie for the built-in check bodies: real `Check.<builtin>(args)` evaluated on a
    Series of pool values (plus null) against `docPred` and against the generated expression."""
    import warnings
    cases = []
    for _ in range(n):
        dtype = rng.choice(A.DTYPES)
        cs = A.gen_check(rng, dtype)
        cs["ignoreNa"] = False
        vals = list(A.POOL[dtype]) + ([A.NULL] if A.can_null(dtype) else [])
        cases.append({"mode": "builtin", "b": cs["b"], "vals": vals, "dtype": dtype, "cs": cs,
                      "alias": next(iter(cs["b"])) in ("eq", "ne", "gt", "ge", "lt", "le", "inRange") and rng.random() < 0.5})
    ans = run_driver("C01", [{"mode": "builtin", "b": c["b"], "vals": c["vals"]} for c in cases])
    for c, a in zip(cases, ans):
        if "error" in a:
            rep.correspondence_break(c, "driver: " + a["error"])
            continue
        try:
            with warnings.catch_warnings():
                warnings.simplefilter("ignore")
                out = A.check_of(c["cs"], alias=c["alias"])(A.series_of(c["vals"], c["dtype"])).check_output
            impl = [bool(x) for x in out.tolist()]
        except Exception as e:  # noqa: BLE001
            impl = None
        doc = a["doc"]
        rep.count("builtin:" + next(iter(c["b"])) + (":alias" if c["alias"] else ""))
        rep.evaluations += 1
        if impl is None:
            if all(d is not None for d in doc):
                rep.property_failure({k: c[k] for k in ("b", "vals", "dtype", "alias")},
                                     "built-in check raised where the documented predicate is defined")
            continue
        if any(d is None for d in doc):
            continue
        if impl != doc:
            bad = [(v, i, d) for v, i, d in zip(c["vals"], impl, doc) if i != d]
            rep.property_failure({k: c[k] for k in ("b", "vals", "dtype", "alias")},
                                 f"built-in check differs from its documented predicate on {bad[:3]}")
        elif a["gen"] != doc:
            rep.correspondence_break({k: c[k] for k in ("b", "vals", "dtype", "alias")},
                                     "generated expression differs from docPred although the implementation agrees")


def tzaware_unit_sweep(rep):
    """time-zone aware datetime dtypes carry a resolution: a declared `datetime64[u, tz]` is satisfied by data of that very
    dtype only — through a Column, a SeriesSchema and an Index, with the dtype spelled as text and as a pandas object"""
    import warnings
    import pandas as pd
    import pandera as pa
    units, zones = ["s", "ms", "us", "ns"], ["UTC", "Europe/Berlin"]
    base = pd.Series(pd.to_datetime(["2020-01-01 00:00:00", "2021-06-30 12:00:00"]))
    for du, dz, au, az, spelled in itertools.product(units, zones, units, zones, ("text", "object")):
        declared = f"datetime64[{du}, {dz}]"
        data = base.dt.tz_localize("UTC").dt.tz_convert(az).astype(f"datetime64[{au}, {az}]")
        dt = declared if spelled == "text" else pd.DatetimeTZDtype(du, dz)
        want = (du, dz) == (au, az)
        for entry, run_ in (("Column", lambda: pa.DataFrameSchema({"a": pa.Column(dt)}).validate(pd.DataFrame({"a": data}))),
                            ("SeriesSchema", lambda: pa.SeriesSchema(dt).validate(data)),
                            ("Index", lambda: pa.DataFrameSchema(index=pa.Index(dt)).validate(pd.DataFrame({"v": [1, 2]}, index=pd.Index(data))))):
            case = {"mode": "tzaware-unit", "declared": declared, "data": str(data.dtype), "entry": entry, "spelled": spelled}
            with warnings.catch_warnings():
                warnings.simplefilter("ignore")
                try:
                    run_()
                    got = True
                except (pa.errors.SchemaError, pa.errors.SchemaErrors):
                    got = False
                except Exception as e:  # noqa: BLE001
                    rep.count("tzaware-unit:crash:" + type(e).__name__)
                    continue
            rep.evaluations += 1
            rep.count(f"tzaware-unit:{'accept' if got else 'reject'}")
            if got != want:
                rep.property_failure(case, f"{entry} declared {declared} ({spelled}) {'accepts' if got else 'rejects'} data of dtype "
                                           f"{data.dtype}")


def series_sweep(rep, rng, n):
    """`SeriesSchema.validate` (with and without an index component, matching / other / no series name) against
    Lean's `seriesErrors` and the declarative `fieldOk` (theorem `series_accepts_iff_partial`)"""
    import warnings
    import pandera as pa
    cases = []
    for _ in range(n):
        c = P.gen_case(rng, regex_rate=0.0, index_schema_rate=0.5, conform_bias=0.75, max_rows=5)
        S, D = c["schema"], c["frame"]
        if not S["columns"] or not D["cols"] or len(D["index"]) != 1:
            continue
        spec = dict(rng.choice(S["columns"]), regex=None, coerce=False, default=None)
        col = rng.choice([x for x in D["cols"] if x["name"] == spec["name"]] or D["cols"])
        r = rng.random()
        sname = col["name"] if r < 0.6 else (None if r < 0.8 else "zz")
        spec["name"] = rng.choice([col["name"], col["name"], None, "other"])
        ix = dict(S["index"], coerce=False) if S["index"] is not None else None
        fr = {"cols": [dict(col, name=sname if sname is not None else "")], "index": D["index"], "nrows": D["nrows"]}
        cases.append({"mode": "series", "spec": spec, "ix": ix, "sname": sname, "frame": fr})
    ans = run_driver("C01", cases)
    for c, a in zip(cases, ans):
        if "error" in a:
            rep.correspondence_break(c, "driver: " + a["error"])
            continue
        if not a["wf"]:
            continue
        probe = {"schema": {"columns": [dict(c["spec"], name=c["frame"]["cols"][0]["name"])], "index": c["ix"]}, "frame": c["frame"]}
        if not P.checks_typed(probe):
            rep.count("series:skipped:check-of-another-kind")
            continue
        col = c["frame"]["cols"][0]
        ser = A.series_of(col["vals"], col["dtype"], name=c["sname"], index=A.index_of(c["frame"]["index"]))
        try:
            schema = A.series_schema_of(c["spec"], index_spec=c["ix"])
        except Exception:  # noqa: BLE001
            continue
        kind, out = P.run_validate(schema, ser.copy(), lazy=False)
        rep.evaluations += 1
        rep.count("series:" + kind)
        if kind == "crash":
            if all(v == A.NULL for v in col["vals"]) or not col["vals"]:
                rep.count("series:crash-on-vacuous-column")
                continue
            rep.property_failure(c, f"SeriesSchema.validate raised {type(out).__name__}: {str(out)[:100]}")
            continue
        accept = kind == "ok"
        if accept != a["sat"]:
            rep.property_failure(c, f"SeriesSchema verdict differs from the declared semantics: implementation "
                                    f"{'accepts' if accept else 'rejects'}, fieldOk = {a['sat']}",
                                 region="K_C01_strVacuous" if a["inK"] else None, detail={"model_errors": a["errors"][:3]})
        elif accept != a["accepts"] and not a["inK"]:
            rep.correspondence_break(c, "model of SeriesSchema.validate differs from the implementation",
                                     detail={"model_errors": a["errors"][:3]})
        elif accept and not (out.equals(ser) and out.index.equals(ser.index) and out.dtype == ser.dtype):
            rep.property_failure(c, "SeriesSchema.validate succeeded without parsing options but returned a different series")


def unique_groups_sweep(rep, rng, n):
    """`DataFrameSchema(unique=[[...], [...]])`: several joint-uniqueness groups, optional columns that are absent, every
    `report_duplicates` setting — verdict, reported group and offending rows against Lean's `firstDupGroup`
    (theorem `firstDupGroup_none_iff`: every group with a present column is enforced)"""
    import warnings
    import pandas as pd
    import pandera as pa
    names = ["a", "b", "c", "d"]
    cases = []
    for _ in range(n):
        nrows = rng.randint(0, 5)
        present = [x for x in names if rng.random() < 0.7]
        cols = []
        for x in present:
            dtype = rng.choice(["int64", "str", "float64"])
            pool = A.POOL[dtype][:2] + ([A.NULL] if dtype == "float64" else [])
            cols.append({"name": x, "dtype": dtype, "vals": [rng.choice(pool) for _ in range(nrows)]})
        groups = [rng.sample(names, rng.randint(1, 3)) for _ in range(rng.randint(1, 3))]
        fr = {"cols": cols, "index": A.default_index(nrows), "nrows": nrows}
        cases.append({"mode": "uniqueGroups", "groups": groups, "keep": rng.choice(["first", "last", "none"]), "frame": fr,
                      "flat": len(groups) == 1 and rng.random() < 0.5})
    ans = run_driver("C01", [{k: c[k] for k in ("mode", "groups", "keep", "frame")} for c in cases])
    for c, a in zip(cases, ans):
        if "error" in a:
            rep.correspondence_break(c, "driver: " + a["error"])
            continue
        if not a["wf"]:
            continue
        df = A.frame_of(c["frame"])
        dups = a["dups"]
        for lazy in (False, True):
            schema = pa.DataFrameSchema({x: pa.Column(None, required=False, nullable=True) for x in names},
                                        unique=c["groups"][0] if c["flat"] else c["groups"],
                                        report_duplicates=A.KEEP[c["keep"]])
            with warnings.catch_warnings():
                warnings.simplefilter("ignore")
                try:
                    schema.validate(df.copy(), lazy=lazy)
                    got = None
                except pa.errors.SchemaError as e:
                    got = [e]
                except pa.errors.SchemaErrors as e:
                    got = list(e.schema_errors)
                except Exception as e:  # noqa: BLE001
                    rep.property_failure(dict(c, lazy=lazy), f"unique groups: validate raised {type(e).__name__}: {str(e)[:100]}")
                    continue
            rep.evaluations += 1
            rep.count(f"unique-groups:{'reject' if got else 'accept'}:{len(c['groups'])}-groups:{len(dups)}-violated")
            if (got is None) != (not dups):
                rep.property_failure(dict(c, lazy=lazy),
                                     f"unique={c['groups']} on columns {[x['name'] for x in c['frame']['cols']]}: implementation "
                                     f"{'accepts' if got is None else 'rejects'}, the groups with a present column are "
                                     f"{'all distinct' if not dups else 'not all distinct: ' + str(dups)}")
                continue
            if got is None:
                continue
            want = dups if lazy else dups[:1]
            if len(got) != len(want) or any(e.reason_code.name != "DUPLICATES" for e in got):
                rep.property_failure(dict(c, lazy=lazy), f"unique groups ({'lazy' if lazy else 'eager'}): the violated groups are "
                                                         f"{[g for g, _ in dups]}, the errors are {[e.reason_code.name for e in got]}")
                continue
            for e, (subset, rows_want) in zip(got, want):
                fc = e.failure_cases
                rows = sorted(set(int(i) for i in fc["index"]))
                colsn = sorted(set(str(x) for x in fc["column"]))
                # null failure cases are dropped by the report formatter (listed region K_C02_nullDuplicates)
                nullish = any(v == A.NULL for col in c["frame"]["cols"] if col["name"] in subset for v in col["vals"])
                if (rows != sorted(rows_want) or colsn != sorted(subset)) and not nullish:
                    rep.property_failure(dict(c, lazy=lazy), f"unique groups: reported columns {colsn} rows {rows}, the violated "
                                                             f"group is {subset} at rows {sorted(rows_want)}")


def revalidation_sweep(rep, cases, answers):
    """validation has no memory: an object that was validated (or rejected) before and has been changed in place since is
    judged like a fresh object with the same contents — same schema *object*, the returned frame / the frame attached
    to the error / the frame of an `inplace=True` call"""
    import warnings
    import numpy as np
    import pandera as pa
    done = 0
    for c, a in zip(cases, answers):
        if done >= 150 or "error" in a or not a.get("wf") or not a.get("sat") or a.get("inK"):
            continue
        S, D = c["schema"], c["frame"]
        if not D["nrows"] or not P.checks_typed(c):
            continue
        target = next((sp for sp in S["columns"] if sp["regex"] is None and not sp["nullable"] and sp["dtype"] in ("float64", "str")
                       and any(col["name"] == sp["name"] and col["dtype"] == sp["dtype"] for col in D["cols"])), None)
        if target is None:
            continue
        done += 1
        schema = A.schema_of(S)
        for how in ("returned", "inplace"):
            df = A.frame_of(D)
            with warnings.catch_warnings():
                warnings.simplefilter("ignore")
                try:
                    out = schema.validate(df, inplace=(how == "inplace"))
                except Exception:  # noqa: BLE001
                    break
                j = out.columns.get_loc(target["name"])
                out.iloc[0, j] = np.nan if target["dtype"] == "float64" else None
                fresh = out.copy(deep=True)
                fresh.attrs = {}
                k_again, _ = P.run_validate(schema, out, lazy=False)
                k_fresh, _ = P.run_validate(A.schema_of(S), pd_rebuild(fresh), lazy=False)
            rep.evaluations += 1
            rep.count(f"revalidate:{how}:{k_again}")
            if k_again == "ok":
                rep.property_failure({"mode": "revalidate", "how": how, "schema": S, "frame": D, "column": target["name"]},
                                     f"a frame {how} by a successful validate, then given a null in the non-nullable column "
                                     f"{target['name']!r} in place, is accepted by the same schema object (a fresh copy: {k_fresh})")


def pd_rebuild(df):
    import pandas as pd
    return pd.DataFrame({c: df[c].values for c in df.columns}, index=df.index.copy())


def multiindex_sweep(rep, rng, n):
    """MultiIndex schemas: the backend validates the index levels as the columns of a dataframe, so the declared
    semantics is `Sat` of the level components over the frame of levels (Lean, C01's driver); entries: a
    DataFrameSchema carrying the MultiIndex and the stand-alone MultiIndex component"""
    import pandas as pd
    import pandera as pa
    cases, metas = [], []
    for _ in range(n):
        c = P.gen_case(rng, regex_rate=0.0, index_schema_rate=0.0, conform_bias=0.8, max_rows=4)
        S, D = c["schema"], c["frame"]
        k = rng.choice([2, 2, 3])
        if len(D["cols"]) < k:
            continue
        levels = rng.sample(D["cols"], k)
        named = rng.random() < 0.6
        names = [f"i{j}" for j in range(k)] if named else [None] * k
        specs = []
        for j, lv in enumerate(levels):
            sp = next((x for x in S["columns"] if x["name"] == lv["name"] and x["regex"] is None), None)
            sp = dict(sp) if sp else {"dtype": lv["dtype"], "nullable": True, "unique": False, "checks": [], "reportDup": "first"}
            sp.update(name=names[j], regex=None, required=True, coerce=False, default=None)
            specs.append(sp)
        ordered = rng.random() < 0.8
        strict = rng.random() < 0.3
        # the frame may carry the levels in another order, or one level more than declared
        perm = list(range(k))
        if rng.random() < 0.25:
            rng.shuffle(perm)
        flevels = [dict(levels[j], name=(names[j] if named else str(j))) for j in perm]
        fnames = [names[j] for j in perm]
        model_schema = {"columns": [dict(sp, name=(sp["name"] if named else str(j))) for j, sp in enumerate(specs)],
                        "index": None, "strict": "yes" if strict else "no", "ordered": ordered, "unique": [],
                        "reportDup": "first", "coerce": False, "addMissing": False, "dropInvalid": False}
        if not named:       # positional: the frame of levels is labelled 0..k-1 whatever the order
            flevels = [dict(lv, name=str(j)) for j, lv in enumerate(flevels)]
        model_frame = {"cols": flevels, "index": A.default_index(D["nrows"]), "nrows": D["nrows"]}
        cases.append({"schema": model_schema, "frame": model_frame, "depth": "schemaAndData"})
        metas.append({"mode": "multiindex", "specs": specs, "levels": [dict(levels[j]) for j in perm], "names": fnames,
                      "ordered": ordered, "strict": strict, "nrows": D["nrows"]})
    ans = run_driver("C01", cases)
    for mc, m, a in zip(cases, metas, ans):
        if "error" in a:
            rep.correspondence_break(m, "driver: " + a["error"])
            continue
        if not a["wf"] or not P.checks_typed(mc) or a.get("outOfScope"):
            continue
        try:
            arrays = [A.series_of(lv["vals"], lv["dtype"]).values for lv in m["levels"]]
            idx = pd.MultiIndex.from_arrays(arrays, names=m["names"])
            df = pd.DataFrame({"v": pd.Series(range(m["nrows"]), dtype="int64").values}, index=idx)
            mi = pa.MultiIndex([A.index_schema_of(sp) for sp in m["specs"]], ordered=m["ordered"], strict=m["strict"])
        except Exception as e:  # noqa: BLE001
            rep.count("multiindex:unbuildable:" + type(e).__name__)
            continue
        for entry, schema in (("DataFrameSchema+MultiIndex", pa.DataFrameSchema({"v": pa.Column(int)}, index=mi)),
                              ("MultiIndex", mi)):
            kind, out = P.run_validate(schema, df.copy(), lazy=False)
            rep.evaluations += 1
            rep.count(f"multiindex:{entry}:{kind}")
            case = dict(m, entry=entry)
            rep.case(case, nontrivial=m["nrows"] > 0)
            if kind == "crash":
                rep.property_failure(case, f"{entry}: validate raised {type(out).__name__}: {str(out)[:100]}")
                continue
            accept = kind == "ok"
            if accept != a["sat"]:
                rep.property_failure(case, f"{entry}: verdict differs from the declared semantics of the level components: "
                                           f"implementation {'accepts' if accept else 'rejects'}, Sat = {a['sat']}",
                                     region="K_C01_strVacuous" if a["inK"] else None,
                                     detail={"model_errors": a["errors"][:3],
                                             "impl": None if accept else str(getattr(out, 'reason_code', ''))})


def aggregate_sweep(rep, rng, n):
    """the whole-column built-in `unique_values_eq`: real check / Column / SeriesSchema / Index verdicts against Lean's
    `uniqueValuesEq` (documented set equality on the non-null values), including empty and all-null columns"""
    import warnings
    import pandas as pd
    import pandera as pa
    cases = []
    for _ in range(n):
        dtype = rng.choice(["int64", "float64", "str", "datetime"])
        pool = A.POOL[dtype]
        vs = rng.sample(pool, rng.randint(0, 3))
        shape = rng.choice(["empty", "all-null", "exact", "exact", "random", "random"])
        if shape == "empty":
            vals = []
        elif shape == "all-null":
            vals = [A.NULL] * rng.randint(1, 3) if A.can_null(dtype) else []
        elif shape == "exact":
            vals = [rng.choice(vs) for _ in range(rng.randint(1, 5))] + list(vs) if vs else []
            rng.shuffle(vals)
        else:
            vals = [rng.choice(pool) for _ in range(rng.randint(1, 5))]
        if A.can_null(dtype) and vals and rng.random() < 0.3:
            vals.insert(rng.randrange(len(vals) + 1), A.NULL)
        cases.append({"mode": "aggregate", "dtype": dtype, "vs": vs, "vals": vals})
    ans = run_driver("C01", [{"mode": "aggregate", "vs": c["vs"], "vals": c["vals"]} for c in cases])
    for c, a in zip(cases, ans):
        if "error" in a:
            rep.correspondence_break(c, "driver: " + a["error"])
            continue
        want = a["uniqueValuesEq"]
        chk = pa.Check.unique_values_eq([A.to_py(v) for v in c["vs"]])
        ser = A.series_of(c["vals"], c["dtype"], name="a")
        entries = {
            "Column": lambda: pa.DataFrameSchema({"a": pa.Column(None, chk, nullable=True)}).validate(pd.DataFrame({"a": ser})),
            "SeriesSchema": lambda: pa.SeriesSchema(None, chk, nullable=True, name="a").validate(ser),
            "Index": lambda: pa.Index(None, chk, nullable=True).validate(pd.DataFrame(index=pd.Index(ser.values))),
        }
        for entry, fn in entries.items():
            with warnings.catch_warnings():
                warnings.simplefilter("ignore")
                try:
                    fn()
                    got = True
                except (pa.errors.SchemaError, pa.errors.SchemaErrors):
                    got = False
                except Exception as e:  # noqa: BLE001
                    rep.count(f"aggregate:{entry}:crash:{type(e).__name__}")
                    continue
            rep.evaluations += 1
            rep.count(f"aggregate:{entry}:{'accept' if got else 'reject'}")
            if got != want:
                rep.property_failure(dict(c, entry=entry),
                                     f"unique_values_eq through {entry}: implementation {'accepts' if got else 'rejects'}, "
                                     f"the documented set equality is {want}")


NULLABLE_REPRS = [
    ("float64", [1.0, float("nan")]), ("float32", [1.0, float("nan")]), ("object", ["x", None]),
    ("datetime64[ns]", ["2020-01-01", None]), ("timedelta64[ns]", [1, None]),
    ("Int8", [1, None]), ("Int16", [1, None]), ("Int32", [1, None]), ("Int64", [1, None]),
    ("UInt8", [1, None]), ("UInt16", [1, None]), ("UInt32", [1, None]), ("UInt64", [1, None]),
    ("boolean", [True, None]), ("Float32", [1.0, None]), ("Float64", [1.0, None]), ("string", ["x", None]),
    ("int64[pyarrow]", [1, None]), ("bool[pyarrow]", [True, None]), ("string[pyarrow]", ["x", None]),
    ("double[pyarrow]", [1.0, None]),
]


def nullability_sweep(rep):
    """every physical representation that can hold a missing value: `nullable=False` rejects a column with a missing
    value (reason SERIES_CONTAINS_NULLS), `nullable=True` accepts it; Column, SeriesSchema and Index; with and
    without a declared dtype; eager and lazy"""
    import warnings
    import pandas as pd
    import pandera as pa
    for rep_dtype, raw in NULLABLE_REPRS:
        try:
            ser = pd.Series(pd.to_datetime(raw) if rep_dtype.startswith("datetime") else
                            pd.to_timedelta(raw, unit="D") if rep_dtype.startswith("timedelta") else raw, dtype=rep_dtype, name="a")
        except Exception as e:  # noqa: BLE001
            rep.count(f"nullability:unbuildable:{rep_dtype}")
            continue
        if not ser.isna().any():
            rep.count(f"nullability:no-missing-value:{rep_dtype}")
            continue
        for declared in (None, rep_dtype):
            if declared is not None:
                # the declared name must denote the representation at hand (pandas and pandera read "string[pyarrow]"
                # differently, for one): the null-free column has to be accepted, otherwise nothing is said about nulls
                try:
                    with warnings.catch_warnings():
                        warnings.simplefilter("ignore")
                        pa.SeriesSchema(declared, name="a").validate(ser.dropna())
                except Exception:  # noqa: BLE001
                    rep.count(f"nullability:declared-name-is-another-type:{rep_dtype}")
                    continue
            for nullable in (False, True):
                for lazy in (False, True):
                    entries = {
                        "Column": lambda: pa.DataFrameSchema({"a": pa.Column(declared, nullable=nullable)}).validate(
                            pd.DataFrame({"a": ser}), lazy=lazy),
                        "SeriesSchema": lambda: pa.SeriesSchema(declared, nullable=nullable, name="a").validate(ser, lazy=lazy),
                        "Index": lambda: pa.Index(declared, nullable=nullable).validate(
                            pd.DataFrame({"v": range(len(ser))}, index=pd.Index(ser.array)), lazy=lazy),
                    }
                    for entry, fn in entries.items():
                        case = {"mode": "nullability", "representation": rep_dtype, "declared": declared,
                                "nullable": nullable, "lazy": lazy, "entry": entry}
                        with warnings.catch_warnings():
                            warnings.simplefilter("ignore")
                            try:
                                fn()
                                got = "accept"
                            except (pa.errors.SchemaError, pa.errors.SchemaErrors):
                                got = "reject"
                            except Exception as e:  # noqa: BLE001
                                got = "crash:" + type(e).__name__
                        rep.evaluations += 1
                        rep.count(f"nullability:{entry}:{got.split(':')[0]}")
                        if got.startswith("crash"):
                            continue
                        if (got == "accept") != nullable:
                            rep.property_failure(case, f"{entry} over a {rep_dtype} column holding a missing value, "
                                                       f"nullable={nullable}: implementation {got}s")


def n_cases(tier):
    return 1500 if tier == "quick" else 40000


def run(tier, replay=None):
    rep = Report(PROP, tier)
    regenerate(("scopemap", "builtin"))
    rep.audit = audit(PROP, MODULES)
    rep.audit["modules"] = MODULES
    if replay:
        cases = [json.loads(open(replay).read())["case"]]
        if cases[0].get("mode") == "revalidate":
            rc_ = [{"schema": cases[0]["schema"], "frame": cases[0]["frame"]}]
            revalidation_sweep(rep, rc_, run_driver("C01", [dict(x, depth="schemaAndData") for x in rc_]))
            return rep.finish(rule="replay")
        if cases[0].get("mode") == "multiindex":
            multiindex_sweep(rep, rng_for(PROP, "multiindex"), 300)
            return rep.finish(rule="replay of the MultiIndex sweep (deterministic under VERIF_SEED)")
        if cases[0].get("mode") == "uniqueGroups":
            unique_groups_sweep(rep, rng_for(PROP, "unique-groups"), 300)
            return rep.finish(rule="replay of the unique-groups sweep (deterministic under VERIF_SEED)")
        if cases[0].get("mode") == "series":
            series_sweep(rep, rng_for(PROP, "series"), 400)
            return rep.finish(rule="replay of the series sweep (deterministic under VERIF_SEED)")
        if cases[0].get("mode") in ("aggregate", "nullability", "builtin", "tzaware-unit") or "b" in cases[0]:
            aggregate_sweep(rep, rng_for(PROP, "aggregate"), 150)
            nullability_sweep(rep)
            tzaware_unit_sweep(rep)
            builtin_sweep(rep, rng_for(PROP, "builtin"), 400)
            return rep.finish(rule="replay of the sweeps (deterministic under VERIF_SEED)")
    else:
        rng = rng_for(PROP)
        cases = corpus_cases(PROP) + [P.gen_case(rng) for _ in range(n_cases(tier))]
    if not replay:
        builtin_sweep(rep, rng_for(PROP, "builtin"), 400 if tier == "quick" else 8000)
        aggregate_sweep(rep, rng_for(PROP, "aggregate"), 150 if tier == "quick" else 3000)
        nullability_sweep(rep)
        tzaware_unit_sweep(rep)
        series_sweep(rep, rng_for(PROP, "series"), 400 if tier == "quick" else 10000)
        multiindex_sweep(rep, rng_for(PROP, "multiindex"), 300 if tier == "quick" else 8000)
        unique_groups_sweep(rep, rng_for(PROP, "unique-groups"), 300 if tier == "quick" else 6000)
    impl = [impl_observe(c) for c in cases]
    ans = run_driver("C01", [dict(c, depth="schemaAndData") for c in cases])
    for c, o, a in zip(cases, impl, ans):
        if "error" in a:
            rep.correspondence_break(c, "driver rejected the case: " + a["error"])
            continue
        if not a["wf"]:
            rep.count("skipped:not-wellformed")
            continue
        if not P.checks_typed(c):
            rep.count("skipped:check-of-another-kind-than-the-column")
            continue
        if a.get("outOfScope"):
            # an ordering/string check on an empty or all-null column of another kind: pandas raises for the
            # column as a whole, the element-wise model has no element to look at (DESIGN.md §8)
            rep.count("skipped:ill-typed-check-on-vacuous-column")
            continue
        impl_accept = o["kind"] == "ok"
        rep.count("impl:" + o["kind"])
        rep.count("sat:" + str(a["sat"]))
        if a["inK"]:
            rep.count("inK")
        nontrivial = bool(c["frame"]["cols"]) and c["frame"]["nrows"] > 0
        rep.case(c, nontrivial=nontrivial)
        if o["kind"] == "error":
            rep.count("reason:" + o["reason"])
        if impl_accept != a["sat"]:
            rep.property_failure(
                c, f"verdict differs from the declared semantics: implementation "
                   f"{'accepts' if impl_accept else 'rejects (' + str(o.get('reason') or o.get('exc')) + ')'}, "
                   f"Sat = {a['sat']}",
                region="K_C01_strVacuous" if a["inK"] else None,
                detail={"impl": o, "model_errors": a["errors"][:3]})
        elif impl_accept != a["accepts"] and not a["inK"]:
            rep.correspondence_break(c, "model pipeline verdict differs from implementation",
                                     detail={"impl": o, "model_errors": a["errors"][:3]})
        if impl_accept and not o.get("same", True):
            rep.property_failure(c, "validation succeeded without parsing options but the returned frame differs from the input")
    if not replay:
        revalidation_sweep(rep, cases, ans)
    return rep.finish(
        rule="random (schema, frame) pairs over the declarative vocabulary (1-4 columns of int64/float64/str/bool/"
             "datetime, regex names, strict, ordered, joint uniqueness, single Index, 0-2 built-in checks per field, "
             "0-5 rows with nulls/duplicates/missing/extra/reordered/mistyped columns); distinct by JSON; non-trivial = "
             "at least one column and one row",
        level_note=["pandas semantics on the abstract universe are tied to the model only by the differential"],
    )

"""C01 — validation verdict equals the declared schema semantics (pandas)."""
from __future__ import annotations

import json

from . import absdata as A
from . import pipeline as P
from .common import Report, audit, corpus_cases, rng_for, run_driver, seed
from .regen import regenerate

PROP = "C01"
MODULES = ["PanderaModel.Props.C01"]


def impl_observe(case):
    S, D = case["schema"], case["frame"]
    schema = A.schema_of(S)
    df = A.frame_of(D)
    snapshot = df.copy(deep=True)
    kind, out = P.run_validate(schema, df, lazy=False)
    obs = {"kind": kind}
    if kind == "ok":
        obs["same"] = P.frames_equal(out, snapshot)
    elif kind == "error":
        obs["reason"] = P.REASON.get(out.reason_code.name, out.reason_code.name)
    elif kind == "crash":
        obs["exc"] = type(out).__name__ + ": " + str(out)[:200]
    return obs


def n_cases(tier):
    return 1500 if tier == "quick" else 40000


def run(tier, replay=None):
    rep = Report(PROP, tier)
    gen = regenerate(("scopemap",))
    from extract import scopemap
    scopes = scopemap.json_table(gen["scopemap"])
    rep.audit = audit(PROP, MODULES)
    rep.audit["modules"] = MODULES
    if replay:
        cases = [json.loads(open(replay).read())["case"]]
    else:
        rng = rng_for(PROP)
        cases = corpus_cases(PROP) + [P.gen_case(rng) for _ in range(n_cases(tier))]
    impl = [impl_observe(c) for c in cases]
    ans = run_driver("C01", [dict(c, scopes=scopes, depth="schemaAndData") for c in cases])
    for c, o, a in zip(cases, impl, ans):
        if "error" in a:
            rep.correspondence_break(c, "driver rejected the case: " + a["error"])
            continue
        if not a["wf"]:
            rep.count("skipped:not-wellformed")
            continue
        impl_accept = o["kind"] == "ok"
        rep.count("impl:" + o["kind"])
        rep.count("sat:" + str(a["sat"]))
        if a["inK"]:
            rep.count("inK")
        nontrivial = bool(c["frame"]["cols"]) and c["frame"]["nrows"] > 0
        rep.case(c, nontrivial=nontrivial)
        if o["kind"] == "error":
            rep.count("reason:" + o["reason"])
        if impl_accept != a["sat"]:
            rep.property_failure(
                c, f"verdict differs from the declared semantics: implementation "
                   f"{'accepts' if impl_accept else 'rejects (' + str(o.get('reason') or o.get('exc')) + ')'}, "
                   f"Sat = {a['sat']}",
                region="K_C01_strVacuous" if a["inK"] else None,
                detail={"impl": o, "model_errors": a["errors"][:3]})
        elif impl_accept != a["accepts"] and not a["inK"]:
            rep.correspondence_break(c, "model pipeline verdict differs from implementation",
                                     detail={"impl": o, "model_errors": a["errors"][:3]})
        if impl_accept and not o.get("same", True):
            rep.property_failure(c, "validation succeeded without parsing options but the returned frame differs from the input")
    return rep.finish(
        rule="random (schema, frame) pairs over the declarative vocabulary (1-4 columns of int64/float64/str/bool/"
             "datetime, regex names, strict, ordered, joint uniqueness, single Index, 0-2 built-in checks per field, "
             "0-5 rows with nulls/duplicates/missing/extra/reordered/mistyped columns); distinct by JSON; non-trivial = "
             "at least one column and one row",
        level_note=["pandas semantics on the abstract universe are tied to the model only by the differential"],
    )

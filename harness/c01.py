"""C01 — validation verdict equals the declared schema semantics (pandas)."""
from __future__ import annotations

import json

from . import absdata as A
from . import pipeline as P
from .common import Report, audit, corpus_cases, rng_for, run_driver, seed
from .regen import regenerate

PROP = "C01"
MODULES = ["PanderaModel.Props.C01"]


def impl_observe(case):
    S, D = case["schema"], case["frame"]
    schema = A.schema_of(S)
    df = A.frame_of(D)
    snapshot = df.copy(deep=True)
    kind, out = P.run_validate(schema, df, lazy=False)
    obs = {"kind": kind}
    if kind == "ok":
        obs["same"] = P.frames_equal(out, snapshot)
    elif kind == "error":
        obs["reason"] = P.REASON.get(out.reason_code.name, out.reason_code.name)
    elif kind == "crash":
        obs["exc"] = type(out).__name__ + ": " + str(out)[:200]
    return obs


def builtin_sweep(rep, rng, n):
    """artefact-specific tie for the built-in check bodies: real `Check.<builtin>(args)` evaluated on a
    Series of pool values (plus null) against `docPred` and against the generated expression."""
    import warnings
    cases = []
    for _ in range(n):
        dtype = rng.choice(A.DTYPES)
        cs = A.gen_check(rng, dtype)
        cs["ignoreNa"] = False
        vals = list(A.POOL[dtype]) + ([A.NULL] if A.can_null(dtype) else [])
        cases.append({"mode": "builtin", "b": cs["b"], "vals": vals, "dtype": dtype, "cs": cs})
    ans = run_driver("C01", [{"mode": "builtin", "b": c["b"], "vals": c["vals"]} for c in cases])
    for c, a in zip(cases, ans):
        if "error" in a:
            rep.correspondence_break(c, "driver: " + a["error"])
            continue
        try:
            with warnings.catch_warnings():
                warnings.simplefilter("ignore")
                out = A.check_of(c["cs"])(A.series_of(c["vals"], c["dtype"])).check_output
            impl = [bool(x) for x in out.tolist()]
        except Exception as e:  # noqa: BLE001
            impl = None
        doc = a["doc"]
        rep.count("builtin:" + next(iter(c["b"])))
        rep.evaluations += 1
        if impl is None:
            if all(d is not None for d in doc):
                rep.property_failure({k: c[k] for k in ("b", "vals", "dtype")},
                                     "built-in check raised where the documented predicate is defined")
            continue
        if any(d is None for d in doc):
            continue
        if impl != doc:
            bad = [(v, i, d) for v, i, d in zip(c["vals"], impl, doc) if i != d]
            rep.property_failure({k: c[k] for k in ("b", "vals", "dtype")},
                                 f"built-in check differs from its documented predicate on {bad[:3]}")
        elif a["gen"] != doc:
            rep.correspondence_break({k: c[k] for k in ("b", "vals", "dtype")},
                                     "generated expression differs from docPred although the implementation agrees")


def n_cases(tier):
    return 1500 if tier == "quick" else 40000


def run(tier, replay=None):
    rep = Report(PROP, tier)
    regenerate(("scopemap", "builtin"))
    rep.audit = audit(PROP, MODULES)
    rep.audit["modules"] = MODULES
    if replay:
        cases = [json.loads(open(replay).read())["case"]]
    else:
        rng = rng_for(PROP)
        cases = corpus_cases(PROP) + [P.gen_case(rng) for _ in range(n_cases(tier))]
    if not replay:
        builtin_sweep(rep, rng_for(PROP, "builtin"), 400 if tier == "quick" else 8000)
    impl = [impl_observe(c) for c in cases]
    ans = run_driver("C01", [dict(c, depth="schemaAndData") for c in cases])
    for c, o, a in zip(cases, impl, ans):
        if "error" in a:
            rep.correspondence_break(c, "driver rejected the case: " + a["error"])
            continue
        if not a["wf"]:
            rep.count("skipped:not-wellformed")
            continue
        if not P.checks_typed(c):
            rep.count("skipped:check-of-another-kind-than-the-column")
            continue
        if a.get("outOfScope"):
            # an ordering/string check on an empty or all-null column of another kind: pandas raises for the
            # column as a whole, the element-wise model has no element to look at (DESIGN.md §8)
            rep.count("skipped:ill-typed-check-on-vacuous-column")
            continue
        impl_accept = o["kind"] == "ok"
        rep.count("impl:" + o["kind"])
        rep.count("sat:" + str(a["sat"]))
        if a["inK"]:
            rep.count("inK")
        nontrivial = bool(c["frame"]["cols"]) and c["frame"]["nrows"] > 0
        rep.case(c, nontrivial=nontrivial)
        if o["kind"] == "error":
            rep.count("reason:" + o["reason"])
        if impl_accept != a["sat"]:
            rep.property_failure(
                c, f"verdict differs from the declared semantics: implementation "
                   f"{'accepts' if impl_accept else 'rejects (' + str(o.get('reason') or o.get('exc')) + ')'}, "
                   f"Sat = {a['sat']}",
                region="K_C01_strVacuous" if a["inK"] else None,
                detail={"impl": o, "model_errors": a["errors"][:3]})
        elif impl_accept != a["accepts"] and not a["inK"]:
            rep.correspondence_break(c, "model pipeline verdict differs from implementation",
                                     detail={"impl": o, "model_errors": a["errors"][:3]})
        if impl_accept and not o.get("same", True):
            rep.property_failure(c, "validation succeeded without parsing options but the returned frame differs from the input")
    return rep.finish(
        rule="random (schema, frame) pairs over the declarative vocabulary (1-4 columns of int64/float64/str/bool/"
             "datetime, regex names, strict, ordered, joint uniqueness, single Index, 0-2 built-in checks per field, "
             "0-5 rows with nulls/duplicates/missing/extra/reordered/mistyped columns); distinct by JSON; non-trivial = "
             "at least one column and one row",
        level_note=["pandas semantics on the abstract universe are tied to the model only by the differential"],
    )

"""C13 — every synthesised example satisfies the schema that produced it.

Tie: (T) Generated/StrategyRules.lean (which built-in check strategies filter the strategy they are
chained onto; literal escaping; missing bounds) with a `decide` obligation in Props/C13.lean; (D)
derandomised hypothesis draws from the real strategies of generated *schemas* (dtype x chains of 1-3
checks x nullable x unique x size, Series / Column / Index / DataFrame), each fed to the schema's own
`validate` and, element by element, tested for membership in the model's support (Lean's documented
predicates); sentinel strategies show for every built-in whether it filters or replaces; schemas
that cannot be satisfied must not yield a draw.
"""
from __future__ import annotations

import json
import warnings

import pandas as pd

from . import absdata as A
from .common import Report, audit, corpus_cases, rng_for, run_driver, warm_up_backends
from .regen import regenerate

PROP = "C13"
MODULES = ["PanderaModel.Props.C13"]


def draws_of(strategy, k):
    from hypothesis import HealthCheck, Phase, given, settings
    out = []

    @settings(max_examples=k, derandomize=True, database=None, deadline=None,
              suppress_health_check=list(HealthCheck), phases=[Phase.generate])
    @given(strategy)
    def collect(x):
        out.append(x)
    with warnings.catch_warnings():
        warnings.simplefilter("ignore")
        try:
            collect()
            return out, None
        except Exception as e:  # noqa: BLE001
            return out, type(e).__name__


# ---- sentinel test: filter or replace ----------------------------------------------------------------

SENTINELS = [
    ("eq", {"value": 3}, 3, 8, "int64"), ("ne", {"value": 3}, 8, 3, "int64"), ("gt", {"min_value": 5}, 8, 3, "int64"),
    ("ge", {"min_value": 5}, 5, 3, "int64"), ("lt", {"max_value": 5}, 3, 8, "int64"), ("le", {"max_value": 5}, 5, 8, "int64"),
    ("in_range", {"min_value": 2, "max_value": 6}, 4, 9, "int64"), ("isin", {"allowed_values": [1, 4]}, 4, 9, "int64"),
    ("notin", {"forbidden_values": [9]}, 4, 9, "int64"),
    ("str_matches", {"pattern": "ab+"}, "abb", "xab", "str"), ("str_contains", {"pattern": "b+"}, "xbx", "xax", "str"),
    ("str_startswith", {"string": "ab"}, "abz", "xab", "str"), ("str_endswith", {"string": "yz"}, "xyz", "yzx", "str"),
    # literals with regex metacharacters: the recorded region K_C13_literalAsRegex
    ("str_startswith", {"string": "a.c"}, "a.cz", "abcz", "str"), ("str_endswith", {"string": "a+"}, "za+", "zaa", "str"),
    ("str_length", {"min_value": 2, "max_value": 3}, "abc", "abcd", "str"),
]


def sentinel_pass(rep):
    import hypothesis.strategies as st
    import pandera as pa
    from pandera.engines import pandas_engine as pe
    from pandera.strategies import pandas_strategies as ps
    for name, kw, good, bad, dt in SENTINELS:
        case = {"kind": "sentinel", "check": name, "args": kw, "good": good, "bad": bad}
        fn = getattr(ps, name + "_strategy")
        dtype = pe.Engine.dtype(dt)
        # chained onto a strategy that offers one value satisfying the check and one violating it
        vals, err = draws_of(fn(dtype, st.sampled_from([good, bad]), **kw), 12)
        rep.case(case)
        rep.count("sentinel:" + name)
        lit_region = "K_C13_literalAsRegex" if name in ("str_startswith", "str_endswith") and \
            any(ch in kw["string"] for ch in ".+*?()[]{}|^$\\") else None
        if any(v != good for v in vals):
            rep.property_failure(case, f"{name}_strategy chained onto sampled_from([{good!r}, {bad!r}]) produced "
                                       f"{sorted(set(map(repr, vals)))}: the violating value is not filtered out",
                                 region=lit_region)
        # chained onto a strategy that offers only a value *violating* an earlier constraint: nothing else may appear
        vals2, err2 = draws_of(fn(dtype, st.just(bad), **kw), 6)
        if vals2:
            rep.property_failure(case, f"{name}_strategy chained onto just({bad!r}) produced {vals2[:3]!r}: the preceding "
                                       "strategy was replaced, not filtered", region=lit_region)
        # base: what it generates on its own satisfies the check
        base, err3 = draws_of(fn(dtype, None, **kw), 8)
        chk = getattr(pa.Check, name)(**kw)
        for v in base:
            with warnings.catch_warnings():
                warnings.simplefilter("ignore")
                ok = bool(chk(pd.Series([v])).check_passed)
            if not ok:
                region = "K_C13_literalAsRegex" if name in ("str_startswith", "str_endswith") and \
                    any(ch in kw["string"] for ch in ".+*?()[]{}|^$\\") else None
                rep.property_failure(case, f"{name}_strategy generated {v!r}, which fails Check.{name}({kw})", region=region)
                break


# ---- generated schemas ----------------------------------------------------------------------------------

def gen_checks(rng, dtype):
    """a chain of 1-3 abstract checks over the dtype, mostly satisfiable"""
    out = []
    n = rng.choice([0, 1, 1, 2, 2, 3])
    if dtype in ("int64", "float64"):
        mk = A.vint if dtype == "int64" else (lambda i: A.vflt(4 * i))
        lo = rng.randint(-5, 5)
        hi = lo + rng.randint(2, 40)
        pool = [
            {"b": {"gt": {"v": mk(lo)}}}, {"b": {"ge": {"v": mk(lo)}}}, {"b": {"lt": {"v": mk(hi)}}}, {"b": {"le": {"v": mk(hi)}}},
            {"b": {"ne": {"v": mk(lo + 1)}}}, {"b": {"inRange": {"lo": mk(lo), "hi": mk(hi), "incLo": rng.random() < 0.5,
                                                                   "incHi": rng.random() < 0.5}}},
            {"b": {"isin": {"vs": [mk(lo + 1), mk(lo + 2), mk(hi - 1)]}}}, {"b": {"notin": {"vs": [mk(lo + 1), mk(hi)]}}},
            {"b": {"eq": {"v": mk(lo + 1)}}},
        ]
        out = rng.sample(pool, n)
        if rng.random() < 0.1:                       # a contradiction now and then
            out = [{"b": {"gt": {"v": mk(hi)}}}, {"b": {"lt": {"v": mk(lo)}}}]
    elif dtype == "str":
        pool = [
            {"b": {"strStartswith": {"s": rng.choice(["ab", "a.c", "x", "(", "a+"])}}},
            {"b": {"strEndswith": {"s": rng.choice(["b", "z.", "$", "1"])}}},
            {"b": {"strLength": {"lo": rng.choice([None, 1, 2]), "hi": rng.choice([None, 6, 9])}}},
            {"b": {"strContains": {"p": {"chr": {"c": "b"}}}}},
            {"b": {"strMatches": {"p": {"seq": {"a": {"chr": {"c": "a"}}, "b": {"star": {"a": {"cls": {"cs": ["b", "c"]}}}}}}}}},
            {"b": {"isin": {"vs": [A.vstr("ab"), A.vstr("abc"), A.vstr("x1")]}}},
            {"b": {"ne": {"v": A.vstr("ab")}}},
        ]
        out = rng.sample(pool, n)
        out = [c for c in out if not ("strLength" in c["b"] and c["b"]["strLength"]["lo"] is None
                                      and c["b"]["strLength"]["hi"] is None)]
    for c in out:
        c["ignoreNa"] = True
    return out


def gen_case(rng):
    dtype = rng.choice(["int64", "int64", "float64", "str", "str"])
    kind = rng.choice(["series", "series", "column", "index", "frame", "frame", "multiindex", "frame-index"])
    spec = {"name": rng.choice(["a", "b"]), "regex": None, "dtype": dtype, "nullable": rng.random() < 0.3 and dtype != "int64",
            "unique": rng.random() < 0.2, "required": True, "coerce": False, "reportDup": "none",
            "checks": gen_checks(rng, dtype), "default": None}
    c = {"kind": kind, "spec": spec, "size": rng.choice([0, 1, 2, 3, 5])}
    if kind == "frame" and rng.random() < 0.5:
        # uniqueness declared at the dataframe level, or on a regex column (names generated by the strategy)
        c["frame_variant"] = rng.choice(["frame-unique", "regex-unique", "frame-dtype"])
        if c["frame_variant"] == "frame-dtype":
            # a dataframe-level dtype overrides the columns' own (validation accepts only the dataframe-level one)
            if dtype == "str":
                spec["dtype"] = dtype = "int64"
            spec["checks"], spec["nullable"], spec["unique"] = [], False, False
            c["frame_dtype"] = "float64" if dtype == "int64" else "int64"
        else:
            spec["unique"] = c["frame_variant"] == "regex-unique"
            spec["nullable"] = dtype != "int64"
        c["size"] = rng.choice([2, 3, 5])
    return c


def base_sweep():
    """every in_range inclusivity combination as the first (base) check, and dataframe-level / regex uniqueness on
    nullable columns: the branches a random chain reaches rarely"""
    out = []
    for dtype, mk in (("float64", lambda i: A.vflt(4 * i)), ("int64", A.vint)):
        for inc_lo in (False, True):
            for inc_hi in (False, True):
                for kind in ("series", "column", "index", "frame"):
                    chk = {"b": {"inRange": {"lo": mk(1), "hi": mk(3), "incLo": inc_lo, "incHi": inc_hi}}, "ignoreNa": True}
                    if dtype == "int64" and not (inc_lo or inc_hi):
                        chk["b"]["inRange"]["hi"] = mk(4)
                    out.append({"kind": kind, "size": 3, "sweep": True,
                                "spec": {"name": "a", "regex": None, "dtype": dtype, "nullable": False, "unique": False,
                                         "required": True, "coerce": False, "reportDup": "none", "checks": [chk],
                                         "default": None}})
    for dtype, fd in (("int64", "float64"), ("float64", "int64")):
        out.append({"kind": "frame", "size": 3, "sweep": True, "frame_variant": "frame-dtype", "frame_dtype": fd,
                    "spec": {"name": "a", "regex": None, "dtype": dtype, "nullable": False, "unique": False, "required": True,
                             "coerce": False, "reportDup": "none", "checks": [], "default": None}})
    for variant in ("frame-unique", "regex-unique"):
        for dtype in ("float64", "str"):
            out.append({"kind": "frame", "size": 5, "sweep": True, "frame_variant": variant,
                        "spec": {"name": "a", "regex": None, "dtype": dtype, "nullable": True,
                                 "unique": variant == "regex-unique", "required": True, "coerce": False,
                                 "reportDup": "none", "checks": [], "default": None}})
    return out


def build(case):
    import pandera as pa
    spec = case["spec"]
    kw = A.component_kwargs(spec)
    kw.pop("name", None)
    if case["kind"] == "series":
        kw.pop("required", None)
        kw.pop("regex", None)
        return pa.SeriesSchema(name=spec["name"], **kw)
    if case["kind"] == "index":
        kw.pop("required", None)
        kw.pop("regex", None)
        return pa.Index(name=spec["name"], **kw)
    if case["kind"] == "column":
        return pa.Column(name=spec["name"], **kw)
    if case["kind"] == "multiindex":
        kw.pop("required", None)
        kw.pop("regex", None)
        return pa.MultiIndex([pa.Index(name="lv0", **kw), pa.Index(int, pa.Check.in_range(0, 9), name="lv1")])
    other = pa.Column(int, pa.Check.ge(0))
    if case["kind"] == "frame-index":
        return pa.DataFrameSchema({spec["name"]: pa.Column(**kw), "zz": other},
                                  index=pa.Index(int, pa.Check.ge(0), unique=True, name="ix"))
    if case.get("frame_variant") == "frame-dtype":
        return pa.DataFrameSchema({spec["name"]: pa.Column(**kw)}, dtype=case["frame_dtype"])
    if case.get("frame_variant") == "frame-unique":
        return pa.DataFrameSchema({spec["name"]: pa.Column(**kw), "zz": other}, unique=[spec["name"]])
    if case.get("frame_variant") == "regex-unique":
        return pa.DataFrameSchema({"^" + spec["name"] + "_[0-9]$": pa.Column(regex=True, **kw), "zz": other})
    return pa.DataFrameSchema({spec["name"]: pa.Column(**kw), "zz": other})


def elements_of(case, draw):
    spec = case["spec"]
    if case["kind"] == "series":
        return draw.tolist()
    if case["kind"] == "index":
        return list(draw)
    if case["kind"] == "multiindex":
        return list(draw.get_level_values(0))
    if case.get("frame_variant") == "regex-unique":
        return [x for col in draw.columns if col != "zz" for x in draw[col].tolist()]
    return draw[spec["name"]].tolist()


def literal_region(c):
    for cs in c["spec"]["checks"]:
        k = next(iter(cs["b"]))
        if k in ("strStartswith", "strEndswith") and any(ch in cs["b"][k]["s"] for ch in ".+*?()[]{}|^$\\"):
            return "K_C13_literalAsRegex"
    return None


def run_schemas(rep, cases, k):
    import pandera as pa
    todo = []
    for c in cases:
        try:
            S = build(c)
        except Exception as e:  # noqa: BLE001
            rep.count("unbuildable:" + type(e).__name__)
            continue
        with warnings.catch_warnings():
            warnings.simplefilter("ignore")
            try:
                strat = S.strategy(size=c["size"])
            except Exception as e:  # noqa: BLE001
                rep.property_failure(c, f"strategy() raised {type(e).__name__}: {str(e)[:100]}", region=literal_region(c))
                continue
            draws, err = draws_of(strat, k)
        rep.case(c, nontrivial=bool(c["spec"]["checks"]))
        rep.count(f"{c['kind']}:{c['spec']['dtype']}:" + ("draws" if draws else "no-draw:" + str(err)))
        finite = any(next(iter(cs["b"])) in ("eq", "isin") for cs in c["spec"]["checks"])
        if err in ("InvalidArgument", "AssertionError") and c["spec"]["unique"] and finite and not draws:
            rep.count("no-draw:unique-over-a-finite-support")          # reported by hypothesis, nothing emitted
            continue
        if err not in (None, "Unsatisfiable", "FailedHealthCheck") and not draws:
            rep.property_failure(c, f"drawing raised {err}", region=literal_region(c))
            continue
        for d in draws:
            with warnings.catch_warnings():
                warnings.simplefilter("ignore")
                try:
                    if c["kind"] in ("index", "multiindex"):
                        S.validate(pd.DataFrame(index=d))
                    else:
                        S.validate(d)
                except (pa.errors.SchemaError, pa.errors.SchemaErrors) as e:
                    rep.property_failure(c, f"a drawn example fails its own schema: {str(e)[:150]}", region=literal_region(c))
                    break
                except Exception as e:  # noqa: BLE001
                    rep.property_failure(c, f"validating a drawn example raised {type(e).__name__}: {str(e)[:100]}")
                    break
            if c["size"] is not None and len(d) != c["size"]:
                rep.property_failure(c, f"requested size {c['size']}, drew {len(d)} rows")
                break
        else:
            todo.append((c, draws))
    # membership of every drawn element in the model's support (documented predicates evaluated by Lean)
    dcases, meta = [], []
    for c, draws in todo:
        spec = c["spec"]
        if spec["dtype"] == "float64":
            continue
        elems = []
        for d in draws:
            elems += elements_of(c, d)
        try:
            vals = [A.from_py(x) for x in elems]
        except ValueError:
            continue
        if not vals:
            continue
        for cs in spec["checks"]:
            dcases.append({"mode": "builtin", "b": cs["b"], "vals": vals})
            meta.append((c, cs, vals))
    answers = run_driver("C01", dcases) if dcases else []
    for (c, cs, vals), a in zip(meta, answers):
        if "error" in a:
            rep.correspondence_break(c, "driver: " + a["error"])
            continue
        rep.count("support-membership-checked")
        for v, ok in zip(vals, a["doc"]):
            if v != A.NULL and ok is not True:
                rep.correspondence_break(c, f"drawn element {v} is outside the model's support: {list(cs['b'])[0]} is {ok} on it "
                                            "although validate accepted it")
                break


def raw_schemas():
    """schemas outside the abstract vocabulary: temporal dtypes with bounds (a zero duration included), checks without a
    registered strategy (filtered by the check itself) that look at the index of the frame"""
    import pandera as pa
    z, d1, d3 = pd.Timedelta(0), pd.Timedelta("1D"), pd.Timedelta("3D")
    t0, t1 = pd.Timestamp("2020-01-01"), pd.Timestamp("2020-01-05")
    out = []
    for label, chk in (("td-ge-zero", lambda: pa.Check.ge(z)), ("td-le-zero", lambda: pa.Check.le(z)),
                       ("td-in-range-from-zero", lambda: pa.Check.in_range(z, d3)), ("td-ge-1d", lambda: pa.Check.ge(d1)),
                       ("td-gt-zero", lambda: pa.Check.gt(z)), ("td-lt-zero", lambda: pa.Check.lt(z))):
        out.append((f"series:{label}", lambda chk=chk: pa.SeriesSchema("timedelta64[ns]", chk(), name="a"), lambda d: d))
        out.append((f"column:{label}", lambda chk=chk: pa.DataFrameSchema({"a": pa.Column("timedelta64[ns]", chk())}), lambda d: d))
        out.append((f"index:{label}", lambda chk=chk: pa.Index("timedelta64[ns]", chk(), name="a"), lambda d: pd.DataFrame(index=d)))
    for label, chk in (("dt-ge", lambda: pa.Check.ge(t0)), ("dt-in-range", lambda: pa.Check.in_range(t0, t1)),
                       ("dt-le", lambda: pa.Check.le(t1))):
        out.append((f"series:{label}", lambda chk=chk: pa.SeriesSchema("datetime64[ns]", chk(), name="a"), lambda d: d))
        out.append((f"index:{label}", lambda chk=chk: pa.Index("datetime64[ns]", chk(), name="a"), lambda d: pd.DataFrame(index=d)))
    ix = lambda: pa.Index(int, pa.Check.in_range(0, 6), name="ix")  # noqa: E731
    out.append(("frame:df-check-on-index", lambda: pa.DataFrameSchema(
        {"v": pa.Column(int, pa.Check.in_range(0, 9))}, index=ix(), checks=pa.Check(lambda df: df["v"] >= df.index)), lambda d: d))
    out.append(("frame:column-check-on-index", lambda: pa.DataFrameSchema(
        {"v": pa.Column(int, [pa.Check.in_range(0, 9), pa.Check(lambda s_: s_ >= s_.index)])}, index=ix()), lambda d: d))
    out.append(("frame:df-check-index-sorted", lambda: pa.DataFrameSchema(
        {"v": pa.Column(int)}, index=pa.Index(int, pa.Check.in_range(0, 20), name="ix"),
        checks=pa.Check(lambda df: df.index.is_monotonic_increasing)), lambda d: d))
    # several dataframe-level built-in checks: each one filters what the previous ones left
    for label, chks in (("in_range+notin", lambda: [pa.Check.in_range(0, 10), pa.Check.notin([3, 4, 5])]),
                        ("ge+le+ne", lambda: [pa.Check.ge(2), pa.Check.le(6), pa.Check.ne(4)]),
                        ("isin+gt", lambda: [pa.Check.isin([1, 2, 3, 40]), pa.Check.gt(1)])):
        out.append((f"frame:df-checks-chain:{label}", lambda chks=chks: pa.DataFrameSchema(
            {"a": pa.Column(int), "b": pa.Column(int)}, checks=chks()), lambda d: d))
    # named, nullable index components of every kind: drawn alone and as the index of a frame
    for dt in ("float", "str", "datetime64[ns]", "timedelta64[ns]"):
        for uniq in (False, True):
            lab = f"{dt}{'-unique' if uniq else ''}"
            out.append((f"index:nullable-named:{lab}", lambda dt=dt, uniq=uniq: pa.Index(dt, nullable=True, unique=uniq, name="idx"),
                        lambda d: pd.DataFrame(index=d)))
            out.append((f"frame:nullable-named-index:{lab}", lambda dt=dt, uniq=uniq: pa.DataFrameSchema(
                {"v": pa.Column(int)}, index=pa.Index(dt, nullable=True, unique=uniq, name="idx")), lambda d: d))
    out.append(("frame:nullable-named-multiindex", lambda: pa.DataFrameSchema(
        {"v": pa.Column(int)}, index=pa.MultiIndex([pa.Index(float, nullable=True, name="i"), pa.Index(str, name="j")])),
        lambda d: d))
    return out


def run_raw(rep, k):
    import pandera as pa
    for label, mk, wrap in raw_schemas():
        case = {"kind": "raw", "label": label}
        with warnings.catch_warnings():
            warnings.simplefilter("ignore")
            try:
                S = mk()
                strat = S.strategy(size=3)
            except Exception as e:  # noqa: BLE001
                rep.property_failure(case, f"{label}: strategy() raised {type(e).__name__}: {str(e)[:100]}")
                continue
            draws, err = draws_of(strat, k)
        rep.case(case, nontrivial=True)
        rep.evaluations += 1
        rep.count(f"raw:{label.split(':')[0]}:" + ("draws" if draws else "no-draw:" + str(err)))
        if err not in (None, "Unsatisfiable", "FailedHealthCheck") and not draws:
            rep.property_failure(case, f"{label}: drawing raised {err}")
            continue
        for d in draws:
            with warnings.catch_warnings():
                warnings.simplefilter("ignore")
                try:
                    S.validate(wrap(d))
                except (pa.errors.SchemaError, pa.errors.SchemaErrors) as e:
                    rep.property_failure(case, f"{label}: a drawn example fails its own schema: {str(e)[:150]}")
                    break
                except Exception as e:  # noqa: BLE001
                    rep.property_failure(case, f"{label}: validating a drawn example raised {type(e).__name__}: {str(e)[:100]}")
                    break


COLD = r"""
import sys, warnings
warnings.simplefilter("ignore")
sys.path.insert(0, "/verif")
import pandas as pd, pandera as pa
from harness.c13 import draws_of
bad = []
for mk, wrap in ((lambda: pa.Index(float, pa.Check.gt(-2.0), name="a"), lambda d: pd.DataFrame(index=d)),
                 (lambda: pa.SeriesSchema(int, pa.Check.in_range(5, 9), name="a"), lambda d: d),
                 (lambda: pa.DataFrameSchema({"a": pa.Column(int, pa.Check.isin([1, 2]))}), lambda d: d)):
    S = mk()
    draws, err = draws_of(S.strategy(size=3), 6)
    for d in draws:
        try:
            S.validate(wrap(d))
        except Exception as e:
            bad.append(type(S).__name__ + ": " + str(e)[:80].replace("\n", " "))
            break
print("COLD-RESULT " + repr(bad))
"""


def cold_start(rep):
    """strategies built in a fresh interpreter *before* any validation (built-in strategies are registered lazily)"""
    import subprocess
    p = subprocess.run(["/venv/bin/python", "-W", "ignore", "-c", COLD], capture_output=True, text=True, timeout=600)
    line = next((l for l in p.stdout.splitlines() if l.startswith("COLD-RESULT ")), None)
    case = {"kind": "cold-start"}
    rep.case(case)
    rep.count("cold-start")
    if line is None:
        rep.property_failure(case, "strategies in a fresh interpreter crashed: " + p.stderr[-200:])
    elif eval(line[len("COLD-RESULT "):]):  # noqa: S307
        rep.property_failure(case, "a strategy built before the first validation yields invalid data: " + line[12:200])


def run(tier, replay=None):
    rep = Report(PROP, tier)
    warm_up_backends()
    regenerate(("strategyrules",))
    rep.audit = audit(PROP, MODULES)
    rep.audit["modules"] = MODULES
    rng = rng_for(PROP)
    if replay:
        case = json.loads(open(replay).read())["case"]
        if case.get("kind") == "sentinel":
            sentinel_pass(rep)
        elif case.get("kind") == "cold-start":
            cold_start(rep)
        elif case.get("kind") == "raw":
            run_raw(rep, 12)
        else:
            run_schemas(rep, [case], 8)
        return rep.finish(rule="replay")
    sentinel_pass(rep)
    cold_start(rep)
    n, k = (110, 4) if tier == "quick" else (1500, 8)
    run_schemas(rep, base_sweep(), 3 * k)
    run_raw(rep, 3 * k)
    run_schemas(rep, corpus_cases(PROP) + [gen_case(rng) for _ in range(n)], k)
    return rep.finish(
        rule="sentinel strategies for each of the 14 built-in check strategies (chained onto sampled_from([good, bad]) and "
             "onto just(bad); base draws re-checked); generated schemas: dtype in {int64, float64, str} x chains of 0-3 "
             "built-in checks (10% contradictory) x nullable x unique x size in {0,1,2,3,5} x {SeriesSchema, Column, Index, "
             "DataFrameSchema}; derandomised hypothesis draws validated by the schema itself, sizes checked, and every "
             "drawn int / str element tested against Lean's documented predicates",
        level_note=["hypothesis's generation and the probability of drawing are not modelled (supports only); a satisfiable "
                    "schema whose filters exhaust hypothesis counts as 'no draw', never as an alarm"],
    )

"""C19 — check options do only what they document."""
from __future__ import annotations

import json
import warnings

import numpy as np
import pandas as pd

from . import absdata as A
from .common import Report, audit, corpus_cases, rng_for, run_driver
from .regen import regenerate

PROP = "C19"
MODULES = ["PanderaModel.Props.C19"]


# ---- the predicate family, python side --------------------------------------------

def elem_fn(p, log):
    """scalar function for element_wise=True"""
    def f(x):
        log.append(x)
        return ev(p, x)
    return f


def ev(p, x):
    if p == "even":
        return bool(not pd.isna(x) and x % 2 == 0)
    k = next(iter(p))
    a = p[k]
    if k == "gt":
        return bool(not pd.isna(x) and x > a["k"])
    if k == "isin":
        return bool(not pd.isna(x) and x in a["ks"])
    if k == "const":
        return a["b"]
    if k == "nullTrue":
        return True if pd.isna(x) else ev(a["p"], x)
    if k == "raiseOn":
        if not pd.isna(x) and x == a["k"]:
            raise ValueError("marker")
        return ev(a["p"], x)
    raise ValueError(p)


def vec(p, s):
    """genuinely vectorised evaluation (no per-element python call)"""
    if p == "even":
        return (s % 2 == 0)
    k = next(iter(p))
    a = p[k]
    if k == "gt":
        return s > a["k"]
    if k == "isin":
        return s.isin(a["ks"])
    if k == "const":
        return pd.Series([a["b"]] * len(s), index=s.index, dtype=bool)
    if k == "nullTrue":
        return s.isna() | vec(a["p"], s)
    if k == "raiseOn":
        if (s == a["k"]).any():
            raise ValueError("marker")
        return vec(a["p"], s)
    raise ValueError(p)


def gen_pred(rng, depth=2):
    r = rng.random()
    if depth == 0 or r < 0.55:
        c = rng.random()
        if c < 0.4:
            return {"gt": {"k": rng.choice([-1, 0, 1, 2, 3])}}
        if c < 0.6:
            return "even"
        if c < 0.85:
            return {"isin": {"ks": rng.sample([-2, -1, 0, 1, 2, 3, 4, 5], rng.randint(1, 4))}}
        return {"const": {"b": rng.random() < 0.5}}
    if r < 0.8:
        return {"nullTrue": {"p": gen_pred(rng, depth - 1)}}
    return {"raiseOn": {"k": rng.choice([0, 1, 5]), "p": gen_pred(rng, depth - 1)}}


def gen_case(rng):
    dtype = rng.choice(["int64", "float64", "float64"])
    n = rng.choice([0, 1, 2, 3, 4, 5, 6])
    vals = []
    for _ in range(n):
        if dtype == "float64" and rng.random() < 0.25:
            vals.append(A.NULL)
        elif dtype == "float64":
            vals.append(A.vflt(4 * rng.choice([-2, -1, 0, 1, 2, 3, 4, 5])))
        else:
            vals.append(A.vint(rng.choice([-2, -1, 0, 1, 2, 3, 4, 5])))
    labels = list(range(n)) if rng.random() < 0.6 else rng.sample(range(10, 40), n)
    return {"pred": gen_pred(rng), "shape": rng.choice(["elem", "vec", "vec", "agg"]),
            "ignoreNa": rng.random() < 0.6, "nFailure": rng.choice([None, None, 1, 2]),
            "raiseWarning": rng.random() < 0.25, "vals": vals, "dtype": dtype, "labels": labels}


def make_check(c, log, **override):
    import pandera as pa
    A.ensure_backends()
    o = dict(c, **override)
    p = o["pred"]
    if o["shape"] == "elem":
        fn = elem_fn(p, log)
        ew = True
    elif o["shape"] == "vec":
        def fn(s):
            log.extend(s.tolist())
            return vec(p, s)
        ew = False
    else:
        def fn(s):
            log.extend(s.tolist())
            return bool(vec(p, s).all())
        ew = False
    return pa.Check(fn, element_wise=ew, ignore_na=o["ignoreNa"], n_failure_cases=o["nFailure"],
                    raise_warning=o["raiseWarning"])


def call_backend(c, **override):
    """Check(...)(series) -> canonical result + log of the values shown to the function"""
    log = []
    s = A.series_of(c["vals"], c["dtype"], index=pd.Index(c["labels"]))
    chk = make_check(c, log, **override)
    try:
        with warnings.catch_warnings():
            warnings.simplefilter("ignore")
            r = chk(s)
    except Exception as e:  # noqa: BLE001
        return {"kind": "raised", "exc": type(e).__name__}, log
    passed = bool(r.check_passed)
    if passed:
        return {"kind": "passed"}, log
    fc = r.failure_cases
    if fc is None:
        return {"kind": "failedScalar"}, log
    pos = {lab: i for i, lab in enumerate(c["labels"])}
    return {"kind": "failed", "cases": [[pos[ix], A.from_py(v)] for ix, v in zip(fc.index.tolist(), fc.tolist())]}, log


def call_validate(c, **override):
    import pandera as pa
    log = []
    s = A.series_of(c["vals"], c["dtype"], index=pd.Index(c["labels"]))
    schema = pa.SeriesSchema(checks=[make_check(c, log, **override)], nullable=True)
    with warnings.catch_warnings(record=True) as w:
        warnings.simplefilter("always")
        try:
            schema.validate(s)
        except pa.errors.SchemaError as e:
            return "error" if e.reason_code.name == "CHECK_ERROR" else "fail"
        except Exception as e:  # noqa: BLE001
            return "crash:" + type(e).__name__
    if any(issubclass(x.category, pa.errors.SchemaWarning) for x in w):
        return "warn"
    return "pass"


def normcases(cs):
    out = []
    for i, v in cs:
        if isinstance(v, dict) and "int" in v:
            v = {"num": 4 * v["int"]["i"]}
        elif isinstance(v, dict) and "flt" in v:
            v = {"num": v["flt"]["q"]}
        out.append([i, v])
    return out


def run_options(rep, cases):
    ans = run_driver("C19", [{k: c[k] for k in ("pred", "shape", "ignoreNa", "nFailure", "raiseWarning", "vals")}
                             for c in cases])
    for c, a in zip(cases, ans):
        if "error" in a:
            rep.correspondence_break(c, "driver: " + a["error"])
            continue
        r, log = call_backend(c)
        v = call_validate(c)
        rep.case(c, nontrivial=len(c["vals"]) > 0)
        rep.count(f"shape:{c['shape']}")
        rep.count(f"backend:{r['kind']}")
        rep.count(f"validate:{v}")
        has_null = any(x == A.NULL for x in c["vals"])
        # --- the documented relations, on the implementation itself --------------------
        if c["ignoreNa"] and any(pd.isna(x) for x in log):
            rep.property_failure(c, "ignore_na=True but a null element was shown to the check function")
            continue
        if not c["ignoreNa"] and has_null and c["vals"] and not any(pd.isna(x) for x in log) and r["kind"] != "raised":
            rep.property_failure(c, "ignore_na=False but the nulls were hidden from the check function")
            continue
        if c["ignoreNa"] and has_null:
            c2 = dict(c)
            keep = [i for i, x in enumerate(c["vals"]) if x != A.NULL]
            c2["vals"] = [c["vals"][i] for i in keep]
            c2["labels"] = [c["labels"][i] for i in keep]
            v2 = call_validate(c2)
            if (v in ("pass", "warn")) != (v2 in ("pass", "warn")) and "crash" not in v + v2:
                rep.property_failure(c, f"ignore_na=True: verdict {v} changes to {v2} when the null rows are removed")
                continue
        if c["nFailure"] is not None:
            rfull, _ = call_backend(c, nFailure=None)
            vfull = call_validate(c, nFailure=None)
            if (v in ("pass", "warn")) != (vfull in ("pass", "warn")):
                rep.property_failure(c, f"n_failure_cases changes the verdict: {v} vs {vfull}")
                continue
            if r["kind"] == "failed" and rfull["kind"] == "failed":
                full = normcases(rfull["cases"])
                got = normcases(r["cases"])
                if len(got) > c["nFailure"] or any(g not in full for g in got):
                    rep.property_failure(c, "n_failure_cases: reported cases are not a truncation of the full report",
                                         detail={"got": got, "full": full})
                    continue
        if c["raiseWarning"]:
            vno = call_validate(c, raiseWarning=False)
            if v == "fail":
                rep.property_failure(c, "raise_warning=True but validation raised a SchemaError for the failed check")
                continue
            if (v == "warn") != (vno == "fail"):
                rep.property_failure(c, f"raise_warning=True: outcome {v}, without the flag {vno}")
                continue
        if c["shape"] == "elem":
            rvec, _ = call_backend(c, shape="vec")
            if rvec["kind"] != r["kind"] or normcases(rvec.get("cases", [])) != normcases(r.get("cases", [])):
                rep.property_failure(c, "element_wise=True differs from the vectorised map of the same function",
                                     detail={"elem": r, "vec": rvec})
                continue
        # --- correspondence with the model ---------------------------------------------------
        mb = a["backend"]
        same = mb["kind"] == r["kind"] and normcases(mb.get("cases", [])) == normcases(r.get("cases", []))
        shown_model = [A.to_py(x) for x in a["shown"]]
        shown_impl = [None if pd.isna(x) else float(x) for x in log]
        shown_ok = (r["kind"] == "raised" or mb["kind"] == "raised"
                    or [None if x is None else float(x) for x in shown_model] == shown_impl)
        if not same or a["outcome"] != v or not shown_ok:
            rep.correspondence_break(c, "backend model differs from the implementation",
                                     detail={"impl": r, "model": mb, "validate": v, "model_outcome": a["outcome"],
                                             "shown_impl": shown_impl, "shown_model": a["shown"]})


def run_groupby(rep, rng, n):
    import pandera as pa
    cases = []
    for _ in range(n):
        m = rng.randint(0, 6)
        keys = [rng.choice([A.vstr("x"), A.vstr("y"), A.vstr("z"), A.NULL]) for _ in range(m)]
        vals = [A.vint(rng.randint(0, 5)) for _ in range(m)]
        groups = rng.choice([None, None, ["x"], ["x", "y"], ["z"]])
        # a categorical grouping column declares its groups: categories without rows are (empty) groups too
        categories = rng.choice([None, None, ["x", "y", "z"], ["x", "y", "z", "w"]])
        cases.append({"mode": "groups", "keys": keys, "vals": vals, "categories": categories,
                      "groups": [A.vstr(g) for g in groups] if groups else None, "py_groups": groups})
    ans = run_driver("C19", [{k: c[k] for k in ("mode", "keys", "vals", "groups")} for c in cases])
    for c, a in zip(cases, ans):
        df = pd.DataFrame({"v": A.series_of(c["vals"], "int64"), "g": A.series_of(c["keys"], "str")})
        cats = c.get("categories")
        if cats:
            df["g"] = pd.Categorical(df["g"], categories=cats)
        seen = {}

        def fn(d):
            for k, s in d.items():
                seen[k] = s.tolist()
            return True
        present = {A.to_py(k) for k in c["keys"] if k != A.NULL} | set(cats or [])
        level = c.setdefault("level", "column" if (len(c["keys"]) + len(c["vals"]) + sum(map(ord, str(c["py_groups"])))) % 3 else "frame")
        if level == "frame":
            # the same check declared on the DataFrameSchema: the function gets {group: sub-frame}
            def fn(d):  # noqa: F811
                for k, s in d.items():
                    seen[k] = s["v"].tolist()
                return True
            schema = pa.DataFrameSchema({"v": pa.Column(int), "g": pa.Column(None if cats else str, nullable=True)},
                                        checks=pa.Check(fn, groupby="g", groups=c["py_groups"]))
        else:
            schema = pa.DataFrameSchema({"v": pa.Column(int, pa.Check(fn, groupby="g", groups=c["py_groups"])),
                                         "g": pa.Column(None if cats else str, nullable=True)})
        with warnings.catch_warnings():
            warnings.simplefilter("ignore")
            try:
                schema.validate(df)
                raised = None
            except Exception as e:  # noqa: BLE001
                raised = e
        rep.case({k: c.get(k) for k in ("keys", "vals", "py_groups", "categories", "level")}, nontrivial=len(c["keys"]) > 0)
        rep.count("groupby:" + level + (":categorical" if cats else ""))
        expected = {g: [] for g in (cats or []) if c["py_groups"] is None or g in c["py_groups"]}
        for k, v in zip(c["keys"], c["vals"]):
            if k == A.NULL:
                continue
            kk = A.to_py(k)
            if c["py_groups"] is None or kk in c["py_groups"]:
                expected.setdefault(kk, []).append(A.to_py(v))
        invalid = c["py_groups"] is not None and any(g not in present for g in c["py_groups"])
        if invalid:
            # documented: an unknown group is a failed check, not a crash
            if raised is None or not isinstance(raised, pa.errors.SchemaError):
                rep.property_failure({k: c.get(k) for k in ("keys", "vals", "py_groups", "categories", "level")},
                                     f"unknown group key: expected a failed check, got {type(raised).__name__}")
            continue
        if raised is not None:
            rep.property_failure({k: c.get(k) for k in ("keys", "vals", "py_groups", "categories", "level")},
                                 f"groupby check raised {type(raised).__name__}: {str(raised)[:100]}")
            continue
        if seen != expected:
            rep.property_failure({k: c.get(k) for k in ("keys", "vals", "py_groups", "categories", "level")},
                                 f"groupby handed {seen}, the groups are {expected}")
            continue
        model = {A.to_py(k): [A.to_py(x) for x in vs] for k, vs in a}
        if cats:
            continue            # (the Lean `groupsDict` has no notion of declared categories)
        if model != seen:
            rep.correspondence_break({k: c.get(k) for k in ("keys", "vals", "py_groups", "categories", "level")},
                                     "groupsDict model differs", detail={"model": model, "impl": seen})


def run_frames(rep, rng, n):
    """checks applied to (a column of) a dataframe with several columns: `ignore_na` hides the nulls of the checked
    column only; `n_failure_cases` on a check that returns a boolean dataframe reports the first n distinct failure
    cases of the full report"""
    import numpy as np
    import pandera as pa
    for _ in range(n):
        m = rng.randint(1, 6)
        vals = lambda: [rng.choice([-2.0, -1.0, 1.0, 2.0, np.nan]) for _ in range(m)]  # noqa: E731
        labels = rng.sample(range(10, 40), m) if rng.random() < 0.5 else list(range(m))
        df = pd.DataFrame({"v": vals(), "w": vals(), "z": vals()}, index=labels)
        ew = rng.random() < 0.4
        case = {"mode": "frames", "frame": {k: [None if x != x else x for x in df[k].tolist()] for k in df}, "labels": labels,
                "element_wise": ew}
        # (1) a column check inside a frame whose other columns hold nulls too
        seen = []
        fn = (lambda x: (seen.append(x), x > 0)[1]) if ew else (lambda s_: (seen.extend(s_.tolist()), s_ > 0)[1])
        with warnings.catch_warnings():
            warnings.simplefilter("ignore")
            res = pa.Check(fn, element_wise=ew, ignore_na=True)(df, "v")
        want_seen = [x for x in df["v"].tolist() if x == x]
        want_fail = sorted((lab, x) for lab, x in zip(df.index.tolist(), df["v"].tolist()) if x == x and not x > 0)
        got_fail = sorted(zip(res.failure_cases.index.tolist(), res.failure_cases.tolist())) if res.failure_cases is not None else []
        rep.case(case, nontrivial=bool(want_fail))
        rep.evaluations += 1
        rep.count("frames:column-check")
        if sorted(seen) != sorted(want_seen):
            rep.property_failure(case, f"ignore_na=True on column 'v' of a frame: the function was shown {sorted(seen)}, the non-null "
                                       f"elements of the column are {sorted(want_seen)}")
            continue
        if got_fail != want_fail or bool(res.check_passed) != (not want_fail):
            rep.property_failure(case, f"column check on a frame: failure cases {got_fail}, the failing non-null elements are {want_fail}")
            continue
        # (2) n_failure_cases on a dataframe-level check with a boolean dataframe as output
        nf = rng.choice([1, 2, 3])
        with warnings.catch_warnings():
            warnings.simplefilter("ignore")
            full = pa.Check(lambda d: d.fillna(1) > 0)(df)
            cut = pa.Check(lambda d: d.fillna(1) > 0, n_failure_cases=nf)(df)
        rep.count("frames:table-check")
        if bool(full.check_passed) != bool(cut.check_passed):
            rep.property_failure(dict(case, n_failure_cases=nf), "n_failure_cases changes the verdict of a dataframe-level check")
            continue
        if full.failure_cases is None:
            continue
        norm = lambda fc: [json.dumps(r, sort_keys=True, default=str) for r in fc.to_dict("records")]  # noqa: E731
        want = []
        for r in norm(full.failure_cases):
            if r not in want:
                want.append(r)
        got = norm(cut.failure_cases) if cut.failure_cases is not None else []
        if got != want[:nf]:
            rep.property_failure(dict(case, n_failure_cases=nf),
                                 f"n_failure_cases={nf} on a dataframe-level check reports {got}, the first {nf} distinct failure "
                                 f"cases of the full report are {want[:nf]}")


def run_polars_options(rep, rng, n):
    """polars check backend: an element-wise check is the vectorised check that maps the function over the elements —
    same verdict and same failure cases, with nulls hidden under `ignore_na=True` and failing under `ignore_na=False`"""
    try:
        import polars as pl
        import pandera.polars as pap
        import pandera as pa
    except Exception:  # noqa: BLE001
        rep.count("polars:unavailable")
        return
    for _ in range(n):
        m = rng.randint(1, 6)
        vals = [rng.choice([-2, -1, 1, 2, 3, None]) for _ in range(m)]
        thr = rng.choice([0, 1, 2])
        ign = rng.random() < 0.5
        case = {"mode": "polars-options", "vals": vals, "thr": thr, "ignore_na": ign}
        df = pl.DataFrame({"a": vals}, schema={"a": pl.Int64})
        out = {}
        for form, chk in (("element_wise", pap.Check(lambda x, t=thr: x > t, element_wise=True, ignore_na=ign)),
                          ("vectorised", pap.Check(lambda d, t=thr: d.lazyframe.select(pl.col(d.key) > t), ignore_na=ign)),
                          ("built-in", pap.Check.gt(thr, ignore_na=ign))):
            with warnings.catch_warnings():
                warnings.simplefilter("ignore")
                try:
                    pap.DataFrameSchema({"a": pap.Column(pl.Int64, chk, nullable=True)}).validate(df, lazy=True)
                    out[form] = ("ok", [])
                except pa.errors.SchemaErrors as e:
                    fc = e.failure_cases
                    out[form] = ("errors", sorted(str(x) for x in fc["failure_case"].to_list()))
                except Exception as e:  # noqa: BLE001
                    out[form] = ("crash:" + type(e).__name__, [])
        rep.case(case, nontrivial=None in vals)
        rep.evaluations += 1
        bad = sorted(str(v) for v in vals if (v is None and not ign) or (v is not None and not v > thr))
        documented = ("errors", bad) if bad else ("ok", [])
        rep.count(f"polars-options:{documented[0]}")
        for form, got in out.items():
            if got[0] != documented[0] or (got[0] == "errors" and got[1] != documented[1]):
                rep.property_failure(dict(case, form=form),
                                     f"polars {form} check x > {thr} with ignore_na={ign} on {vals}: {got}, documented "
                                     f"{documented} (the forms give {out})")
                break


def run_aliases(rep):
    import pandera as pa
    A.ensure_backends()
    s = pd.Series([-1.0, 0.0, 1.0, 2.0, np.nan])
    pairs = [("eq", "equal_to", (1,)), ("ne", "not_equal_to", (1,)), ("gt", "greater_than", (0,)),
             ("ge", "greater_than_or_equal_to", (0,)), ("lt", "less_than", (1,)),
             ("le", "less_than_or_equal_to", (1,)), ("between", "in_range", (0, 1, False, True))]
    for alias, canon, args in pairs:
        for ign in (True, False):
            ca = getattr(pa.Check, alias)(*args, ignore_na=ign)
            cc = getattr(pa.Check, canon)(*args, ignore_na=ign)
            case = {"alias": alias, "canonical": canon, "args": list(args), "ignore_na": ign}
            rep.case(case)
            rep.count("alias")
            with warnings.catch_warnings():
                warnings.simplefilter("ignore")
                ra, rc = ca(s), cc(s)
            same = (ra.check_output.tolist() == rc.check_output.tolist() and bool(ra.check_passed) == bool(rc.check_passed)
                    and ca == cc and ca.statistics == cc.statistics and ca.error == cc.error)
            if not same:
                rep.property_failure(case, f"Check.{alias} does not behave as Check.{canon}")


def run(tier, replay=None):
    rep = Report(PROP, tier)
    regenerate(("checkapi",))
    rep.audit = audit(PROP, MODULES)
    rep.audit["modules"] = MODULES
    rng = rng_for(PROP)
    if replay:
        case = json.loads(open(replay).read())["case"]
        if "pred" in case:
            run_options(rep, [case])
        elif case.get("mode") == "polars-options":
            run_polars_options(rep, rng_for(PROP, "polars-options"), 250)
        else:
            run_groupby(rep, rng, 200)
            run_aliases(rep)
        return rep.finish(rule="replay")
    n = 1000 if tier == "quick" else 25000
    run_options(rep, [c for c in corpus_cases(PROP) if "pred" in c] + [gen_case(rng) for _ in range(n)])
    run_groupby(rep, rng, n // 5)
    run_frames(rep, rng_for(PROP, "frames"), n // 4)
    run_polars_options(rep, rng_for(PROP, "polars-options"), n // 4)
    run_aliases(rep)
    return rep.finish(
        rule="check functions from a generated predicate family (threshold, parity, membership, constant, "
             "null-accepting, raising) in element-wise / vectorised / aggregate form x ignore_na x n_failure_cases x "
             "raise_warning on int/float Series with nulls and non-default labels; groupby on generated key columns "
             "with null keys and `groups`; every alias against its canonical constructor. non-trivial = non-empty data",
        level_note=["the theorems quantify over every check function; the differential samples the function family "
                    "described in `rule`"],
    )

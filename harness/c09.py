"""C09 — data type resolution is coherent in every engine."""
from __future__ import annotations

import json
import warnings

from .common import Report, audit, rng_for
from .regen import regenerate

PROP = "C09"
MODULES = ["PanderaModel.Props.C09"]

GENERIC = {"PythonDict", "PythonList", "PythonTuple", "PythonTypedDict", "PythonNamedTuple", "Enum"}


def region_for(clause, row):
    if clause == "print_roundtrip" and row["cls"] == "ArrowTimestamp":
        return "K_C09_arrowTimestampStr"
    if clause == "check_reflexive" and row["cls"] in GENERIC:
        return "K_C09_genericNotReflexive"
    if clause == "check_kind" and row["cls"] == "Date" and row["kind"] == "date" and row["bits"] is None:
        return "K_C09_dateChecksObjectTyped"
    return None


def physical(r):
    return r["kind"] in ("int", "float", "complex", "bool", "datetime", "timedelta", "date")


def scan_tables(rep, dumps):
    """the clauses of the property evaluated directly on the dump: gives the concrete key / type / pair"""
    for d in dumps:
        e = d["engine"]
        rows = d["dtypes"]
        for k in d["keys"]:
            rep.evaluations += 1
            if k["resolved"] is None:
                rep.property_failure({"engine": e, "key": k["key"]}, f"{e}: accepted spelling {k['key']} does not resolve ({k['error']})")
        bygroup = {}
        for k in d["keys"]:
            bygroup.setdefault(k["group"], []).append(k)
        for g, ks in bygroup.items():
            for a in ks[1:]:
                if (a["resolved"], a["hash"]) != (ks[0]["resolved"], ks[0]["hash"]):
                    rep.property_failure({"engine": e, "keys": [ks[0]["key"], a["key"]]},
                                         f"{e}: equivalent spellings {ks[0]['key']} and {a['key']} resolve to different / "
                                         "differently hashed types")
        for r in rows:
            rep.evaluations += 1
            rep.case({"engine": e, "dtype": r["str"], "cls": r["cls"]}, nontrivial=True)
            rep.count(f"{e}:dtypes")
            if r["re"] != r["id"] or not r["hash_stable"]:
                rep.property_failure({"engine": e, "dtype": r["str"]}, f"{e}: resolving {r['str']} again does not return an equal, equally hashed type")
            if e != "polars" and r["primitive"] and r["restr"] != r["id"]:
                rep.property_failure({"engine": e, "dtype": r["str"], "cls": r["cls"]},
                                     f"{e}: printed name {r['str']!r} of {r['cls']} does not resolve back to it ({r['restr_err']})",
                                     region=region_for("print_roundtrip", r))
            if not d["check"][r["id"]][r["id"]]:
                rep.property_failure({"engine": e, "dtype": r["str"], "cls": r["cls"]},
                                     f"{e}: {r['cls']} ({r['str']}) does not recognise itself",
                                     region=region_for("check_reflexive", r))
            if physical(r):
                for b in rows:
                    if d["check"][r["id"]][b["id"]] and (r["kind"], r["signed"], r["bits"]) != (b["kind"], b["signed"], b["bits"]):
                        rep.property_failure({"engine": e, "pair": [r["str"], b["str"]], "cls": [r["cls"], b["cls"]]},
                                             f"{e}: {r['str']} recognises {b['str']} of another kind/signedness/width",
                                             region=region_for("check_kind", r))
        rep.count(f"{e}:pairs", len(rows) ** 2)


def run_parametrised(rep, rng, n):
    """sampled parameterisations: time zones, units, categories, decimal precision/scale, pyarrow types"""
    import numpy as np
    import pandas as pd
    from pandera.engines import pandas_engine as pe
    tzs = ["UTC", "Europe/Berlin", "US/Pacific", "Asia/Tokyo", "Etc/GMT+5", "America/Argentina/Buenos_Aires"]
    units = ["ns", "us", "ms", "s"]
    made = []
    for _ in range(n):
        c = rng.random()
        try:
            if c < 0.3:
                made.append(("pandas", pd.DatetimeTZDtype(unit=rng.choice(units), tz=rng.choice(tzs)), True))
            elif c < 0.45:
                cats = rng.sample(["a", "b", "c", "d"], rng.randint(1, 3))
                made.append(("pandas", pd.CategoricalDtype(cats, ordered=rng.random() < 0.5), False))
            elif c < 0.6:
                p = rng.randint(1, 30)
                sc = rng.choice([0, p, rng.randint(0, p)])        # scale 0, scale = precision, anything between
                try:
                    made.append(("pandas", pe.Decimal(p, sc), False))
                except Exception as e:  # noqa: BLE001
                    rep.property_failure({"engine": "pandas", "spelling": f"Decimal({p}, {sc})"},
                                         f"pandas: the legal decimal type Decimal({p}, {sc}) cannot be built: {type(e).__name__}: {e}")
            elif c < 0.8:
                import pyarrow as pa_
                t = rng.choice([pa_.int8(), pa_.int64(), pa_.uint16(), pa_.float32(), pa_.float64(), pa_.string(),
                                pa_.bool_(), pa_.timestamp(rng.choice(units)), pa_.timestamp(rng.choice(units), tz=rng.choice(tzs)),
                                pa_.date32(), pa_.decimal128(rng.randint(1, 20), 0)])
                made.append(("pandas", pd.ArrowDtype(t), True))
            else:
                made.append(("pandas", np.dtype(rng.choice(["int8", "int16", "uint32", "float32", "float64", "bool",
                                                           "datetime64[ns]", "timedelta64[ns]", "complex64"])), True))
        except Exception:  # noqa: BLE001
            continue
    # one data type, several spellings: constructed directly (zone by name / as tzinfo), from the native dtype, from
    # its printed name — all must be equal and equally hashed
    for unit in units:
        for tz in tzs[:4]:
            case = {"engine": "pandas", "spellings": f"DateTime[{unit}, {tz}]"}
            rep.evaluations += 1
            rep.count("parametrised:spellings")
            with warnings.catch_warnings():
                warnings.simplefilter("ignore")
                try:
                    native = pd.DatetimeTZDtype(unit=unit, tz=tz)
                    forms = {"DateTime(tz=name)": pe.DateTime(unit=unit, tz=tz),
                             "DateTime(tz=tzinfo)": pe.DateTime(unit=unit, tz=native.tz),
                             "Engine.dtype(native)": pe.Engine.dtype(native),
                             "Engine.dtype(printed)": pe.Engine.dtype(str(native))}
                except Exception as e:  # noqa: BLE001
                    rep.count("parametrised:spellings:unbuildable:" + type(e).__name__)
                    continue
            ref_name, ref = "Engine.dtype(native)", forms["Engine.dtype(native)"]
            for k, t in forms.items():
                if t != ref or ref != t or hash(t) != hash(ref):
                    rep.property_failure(case, f"{k} and {ref_name} of the same type are not equal / equally hashed "
                                               f"({t!r} vs {ref!r})")
                    break
                try:
                    back = pe.Engine.dtype(str(t))
                except Exception as e:  # noqa: BLE001
                    back = None
                if back != t:
                    rep.property_failure(case, f"{k}: its printed name {str(t)!r} does not resolve back to an equal type")
                    break
    # categories: the native dtype and the directly constructed type are one type, in whatever order the natives are resolved
    # (an unordered categorical compares equal to its permutations as a *pandas* dtype; pandera keeps the order)
    base_cats = ["a", "b", "c"]
    import itertools as _it
    for perm in list(_it.permutations(base_cats))[:4]:
        for ordered in (False, True):
            case = {"engine": "pandas", "spellings": f"Category({list(perm)}, ordered={ordered})"}
            rep.evaluations += 1
            rep.count("parametrised:category-spellings")
            try:
                t_native = pe.Engine.dtype(pd.CategoricalDtype(list(perm), ordered=ordered))
                t_direct = pe.Category(categories=list(perm), ordered=ordered)
            except Exception as e:  # noqa: BLE001
                rep.property_failure(case, f"category spelling does not resolve: {type(e).__name__}: {str(e)[:80]}")
                continue
            if t_native != t_direct or hash(t_native) != hash(t_direct) or list(t_native.categories) != list(perm):
                rep.property_failure(case, f"Engine.dtype(CategoricalDtype({list(perm)})) gives categories "
                                           f"{list(t_native.categories)}: not equal / equally hashed to Category({list(perm)})")
    # polars temporal types: a type recognises only its own kind, with and without time_zone_agnostic
    try:
        import polars as pl_
        from pandera.engines import polars_engine as ple
        temporal = {}
        for u in ("ns", "us", "ms"):
            temporal[f"Datetime[{u}]"] = ("datetime", ple.DateTime(time_unit=u))
            temporal[f"Datetime[{u},agnostic]"] = ("datetime", ple.DateTime(time_unit=u, time_zone_agnostic=True))
            temporal[f"Datetime[{u},UTC]"] = ("datetime", ple.DateTime(time_unit=u, time_zone="UTC"))
            temporal[f"Duration[{u}]"] = ("timedelta", ple.Engine.dtype(pl_.Duration(u)))
        temporal["Date"] = ("date", ple.Engine.dtype(pl_.Date))
        temporal["Time"] = ("time", ple.Engine.dtype(pl_.Time))
        for (n1, (k1, t1)), (n2, (k2, t2)) in _it.product(temporal.items(), repeat=2):
            rep.evaluations += 1
            rep.count("parametrised:polars-temporal-pairs")
            try:
                rec = bool(t1.check(t2))
            except Exception:  # noqa: BLE001
                continue
            if rec and k1 != k2:
                rep.property_failure({"engine": "polars", "pair": [n1, n2]}, f"polars: {n1} recognises {n2}, a type of another kind")
            if n1 == n2 and not rec:
                rep.property_failure({"engine": "polars", "pair": [n1, n2]}, f"polars: {n1} does not recognise itself")
    except ImportError:
        pass
    # decimal spellings across the engines: every 0 <= scale <= precision resolves
    for p_, sc_ in ((4, 4), (4, 0), (10, 2), (1, 1), (18, 18)):
        spellings = {}
        try:
            import pyarrow as pa_
            spellings["pandas: ArrowDtype(decimal128)"] = lambda: pe.Engine.dtype(pd.ArrowDtype(pa_.decimal128(p_, sc_)))
        except Exception:  # noqa: BLE001
            pass
        spellings["pandas: Decimal"] = lambda: pe.Engine.dtype(pe.Decimal(p_, sc_))
        try:
            from pyspark.sql import types as T_
            from pandera.engines import pyspark_engine as pse
            spellings["pyspark: DecimalType"] = lambda: pse.Engine.dtype(T_.DecimalType(p_, sc_))
        except Exception:  # noqa: BLE001
            pass
        try:
            import polars as pl_
            from pandera.engines import polars_engine as ple
            spellings["polars: Decimal"] = lambda: ple.Engine.dtype(pl_.Decimal(p_, sc_))
        except Exception:  # noqa: BLE001
            pass
        for nm, fn in spellings.items():
            rep.evaluations += 1
            rep.count("parametrised:decimal-spelling")
            with warnings.catch_warnings():
                warnings.simplefilter("ignore")
                try:
                    t = fn()
                    again = type(t) is not None
                except Exception as e:  # noqa: BLE001
                    rep.property_failure({"engine": nm.split(":")[0], "spelling": f"{nm} ({p_}, {sc_})"},
                                         f"{nm}({p_}, {sc_}) does not resolve: {type(e).__name__}: {str(e)[:80]}")
    for eng, native, primitive in made:
        case = {"engine": eng, "native": repr(native)}
        rep.evaluations += 1
        rep.count("parametrised:" + type(native).__name__)
        with warnings.catch_warnings():
            warnings.simplefilter("ignore")
            try:
                t = pe.Engine.dtype(native)
            except Exception as e:  # noqa: BLE001
                rep.property_failure(case, f"native dtype {native!r} does not resolve: {type(e).__name__}")
                continue
            try:
                t2 = pe.Engine.dtype(t)
                if t2 != t or hash(t2) != hash(t):
                    rep.property_failure(case, f"resolving {t} again does not return an equal, equally hashed type")
                    continue
                if not t.check(t):
                    rep.property_failure(case, f"{t} does not recognise itself")
                    continue
                if primitive:
                    try:
                        t3 = pe.Engine.dtype(str(t))
                        ok = t3 == t
                    except Exception as e:  # noqa: BLE001
                        ok = False
                    if not ok:
                        region = None
                        s = str(t)
                        if "[pyarrow]" in s and ("timestamp" in s or "decimal" in s or "date" in s or "time" in s or "duration" in s):
                            region = "K_C09_arrowParametrisedStr"
                        rep.property_failure(dict(case, printed=s), f"printed name {s!r} does not resolve back to an equal type",
                                             region=region)
            except Exception as e:  # noqa: BLE001
                rep.property_failure(case, f"clause evaluation raised {type(e).__name__}: {str(e)[:80]}")


PYARROW_ALIASES = ["bool", "boolean", "int8", "int16", "int32", "int64", "uint8", "uint16", "uint32", "uint64", "float", "float32",
                   "halffloat", "float16", "double", "float64", "utf8", "large_string", "large_utf8", "binary", "large_binary",
                   "date32", "date32[day]", "date64", "date64[ms]", "null"]


def run_spelled_aliases(rep):
    """every spelling pandas itself understands (`"<alias>[pyarrow]"`, numpy / extension names) resolves to the type the
    resolved pandas object resolves to — equal and equally hashed, same kind and width"""
    import warnings
    import pandas as pd
    from pandera.engines import pandas_engine as pe
    names = [f"{a}[pyarrow]" for a in PYARROW_ALIASES] + \
        ["int8", "int16", "int32", "int64", "uint8", "uint16", "uint32", "uint64", "float16", "float32", "float64", "bool",
         "Int8", "Int16", "Int32", "Int64", "UInt8", "UInt16", "UInt32", "UInt64", "Float32", "Float64", "boolean", "string",
         "string[python]", "category", "datetime64[ns]", "timedelta64[ns]", "object", "complex64", "complex128"]
    for s_ in names:
        case = {"mode": "spelled-alias", "spelling": s_}
        with warnings.catch_warnings():
            warnings.simplefilter("ignore")
            try:
                native = pd.api.types.pandas_dtype(s_)
            except Exception:  # noqa: BLE001
                rep.count("spelled:pandas-does-not-know")
                continue
            try:
                via_text = pe.Engine.dtype(s_)
            except TypeError:
                rep.count("spelled:unresolved")     # refusing a spelling is not incoherent
                continue
            except Exception as e:  # noqa: BLE001
                rep.property_failure(case, f"Engine.dtype({s_!r}) raised {type(e).__name__}: {str(e)[:80]}")
                continue
            try:
                via_obj = pe.Engine.dtype(native)
            except Exception as e:  # noqa: BLE001
                rep.property_failure(case, f"Engine.dtype({native!r}) raised {type(e).__name__} although the text {s_!r} resolves")
                continue
        rep.case(case)
        rep.evaluations += 1
        rep.count("spelled:resolved")
        if via_text != via_obj or hash(via_text) != hash(via_obj):
            rep.property_failure(case, f"pandas: {s_!r} resolves to {via_text!r}, the dtype it spells ({native!r}) resolves to "
                                       f"{via_obj!r}: not equal / equally hashed")
        elif type(via_text) is not type(via_obj):
            rep.property_failure(case, f"pandas: {s_!r} resolves to a {type(via_text).__name__}, the dtype it spells to a "
                                       f"{type(via_obj).__name__}")


def run(tier, replay=None):
    rep = Report(PROP, tier)
    gen = regenerate(("registry",))
    rep.audit = audit(PROP, MODULES)
    rep.audit["modules"] = MODULES
    rng = rng_for(PROP)
    scan_tables(rep, gen["registry"])
    run_parametrised(rep, rng, 300 if tier == "quick" else 5000)
    run_spelled_aliases(rep)
    return rep.finish(
        rule="exhaustive: every key of every engine's equivalents registry, every distinct resolved data type and every "
             "ordered pair of them (numpy, pandas incl. pyarrow, polars, pyspark), dumped from the engines of the working "
             "tree; sampled: time zones x units, categories, decimal precision/scale, pyarrow parametrised types, numpy "
             "dtypes. non-trivial = every row",
        level_note=["parametrised types are sampled, not exhausted", "the classification (kind, signedness, width) is read "
                    "from the pandera.dtypes base class and attributes of each resolved type"],
        exhaustive=True,
    )

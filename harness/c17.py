"""C17 — decorators gate the call on validation and are otherwise transparent.

Tie: (T) Generated/DecoratorBranches.lean (which `schema.validate` calls forward the validation
options; what the output wrappers return) with `decide` obligations in Props/C17.lean; (D) functions
generated with `exec` for every signature shape x designation x call shape x option, instrumented to
record what their body received, against the Lean model of `check_input._wrapper` /
`check_output.validate` (Driver/C17.lean), plus the property itself on the implementation
(body runs iff inputs accepted, parsed objects reach the body, everything else as in the undecorated
call, equivalent designations agree, options reach `validate`, outputs validated before returning;
check_io and check_types included).
"""
from __future__ import annotations

import asyncio
import itertools
import json
import warnings
from unittest import mock

import pandas as pd

from .common import Report, audit, corpus_cases, rng_for, run_driver, warm_up_backends
from .regen import regenerate

PROP = "C17"
MODULES = ["PanderaModel.Props.C17"]

RAW, PARSED, BAD = 7, 8, 9          # object ids: the frame as passed / as parsed / a rejected frame
SELF = 100


def frames():
    return pd.DataFrame({"a": ["1", "2"]}), pd.DataFrame({"a": ["x", "2"]})


def tag(v):
    if isinstance(v, pd.DataFrame):
        if str(v["a"].dtype) == "int64":
            return PARSED
        return BAD if "x" in list(v["a"]) else RAW
    if isinstance(v, int):
        return v
    if v is None:
        return -1
    return SELF          # the instance / class


# ---------------------------------------------------------------------------------------------
# shapes
# ---------------------------------------------------------------------------------------------

def shapes(tier, rng):
    out = []
    for kind in ("plain", "method", "classmethod", "staticmethod"):
        for before in (0, 1, 2):
            for after in (0, 1, 2):
                for va, ko, vk in itertools.product((False, True), repeat=3):
                    for is_async in (False, True):
                        out.append({"kind": kind, "before": before, "after": after, "varargs": va, "kwonly": ko,
                                    "varkw": vk, "async": is_async})
    return out


def signature(sh):
    """[(name, kind, hasDefault)] incl. self / cls"""
    sig = []
    if sh["kind"] == "method":
        sig.append(("self", "pos", False))
    elif sh["kind"] == "classmethod":
        sig.append(("cls", "pos", False))
    sig += [(f"x{i}", "pos", False) for i in range(sh["before"])]
    sig.append(("df", "pos", False))
    sig += [(f"y{i}", "pos", True) for i in range(sh["after"])]
    if sh["varargs"]:
        sig.append(("rest", "varArgs", False))
    if sh["kwonly"]:
        sig.append(("k", "kwOnly", True))
    if sh["varkw"]:
        sig.append(("kw", "varKw", False))
    return sig


def source(sh, deco_expr):
    sig = signature(sh)
    params = []
    star_done = False
    for n, k, d in sig:
        if k == "pos":
            params.append(f"{n}=5" if d else n)
        elif k == "varArgs":
            params.append("*" + n)
            star_done = True
        elif k == "kwOnly":
            if not star_done:
                params.append("*")
                star_done = True
            params.append(f"{n}=1")
        else:
            params.append("**" + n)
    names = [n for n, k, _ in sig if k in ("pos", "kwOnly")]
    body = "    LOG.append(('body', {" + ", ".join(f"'{n}': tag({n})" for n in names) + "}, " + \
           ("[tag(v) for v in rest]" if sh["varargs"] else "[]") + ", " + \
           ("{k_: tag(v) for k_, v in kw.items()}" if sh["varkw"] else "{}") + "))\n    return df\n"
    head = ("async def" if sh["async"] else "def") + " f(" + ", ".join(params) + "):\n"
    if sh["kind"] == "plain":
        return f"@{deco_expr}\n{head}{body}"
    inner = {"method": "", "classmethod": "    @classmethod\n", "staticmethod": "    @staticmethod\n"}[sh["kind"]]
    ind = "".join("    " + l + "\n" for l in (f"@{deco_expr}\n{head}{body}").splitlines())
    return "class K:\n" + inner + ind


def calls_for(sh, rng, tier):
    """call shapes: how each positional parameter is passed"""
    out = []
    nb, na = sh["before"], sh["after"]
    for df_kw in (False, True):
        for n_after_given in range(na + 1):
            for after_kw in ((False, True) if n_after_given else (False,)):
                for extra_pos in ((0, 2) if sh["varargs"] else (0,)):
                    for extra_kw in ((False, True) if sh["varkw"] else (False,)):
                        for k_given in ((False, True) if sh["kwonly"] else (False,)):
                            if df_kw and n_after_given and not after_kw:
                                continue          # positional after keyword
                            if extra_pos and (df_kw or n_after_given < na or after_kw):
                                continue          # surplus positionals need every positional slot filled
                            out.append({"df_kw": df_kw, "after": n_after_given, "after_kw": after_kw,
                                        "extra_pos": extra_pos, "extra_kw": extra_kw, "k": k_given})
    return out


def build_call(sh, cs, df_obj):
    args, kwargs, ids_args, ids_kwargs = [], {}, [], []
    for i in range(sh["before"]):
        args.append(200 + i)
        ids_args.append(200 + i)
    if cs["df_kw"]:
        kwargs["df"] = df_obj
        ids_kwargs.append(["df", tag(df_obj)])
    else:
        args.append(df_obj)
        ids_args.append(tag(df_obj))
    for i in range(cs["after"]):
        if cs["after_kw"]:
            kwargs[f"y{i}"] = 300 + i
            ids_kwargs.append([f"y{i}", 300 + i])
        else:
            args.append(300 + i)
            ids_args.append(300 + i)
    for i in range(cs["extra_pos"]):
        args.append(400 + i)
        ids_args.append(400 + i)
    if cs["extra_kw"]:
        kwargs["zz"] = 500
        ids_kwargs.append(["zz", 500])
    if cs["k"]:
        kwargs["k"] = 600
        ids_kwargs.append(["k", 600])
    return args, kwargs, ids_args, ids_kwargs


OPTS = [{}, {"lazy": True}, {"head": 1}, {"lazy": True, "tail": 1, "inplace": True}, {"sample": 1, "random_state": 3}]


def getters_for(sh):
    g = ["df", sh["before"]]
    if sh["before"] == 0:
        g.append(None)
    return g


# ---------------------------------------------------------------------------------------------
# running
# ---------------------------------------------------------------------------------------------

LOG = []
VLOG = []


def run_sync(x):
    if asyncio.iscoroutine(x):
        return asyncio.run(x)
    return x


def invoke(ns, sh, args, kwargs):
    if sh["kind"] == "plain":
        return ns["f"](*args, **kwargs)
    if sh["kind"] == "method":
        return ns["K"]().f(*args, **kwargs)
    return ns["K"].f(*args, **kwargs)


def recording_validate(orig):
    def validate(self, check_obj, head=None, tail=None, sample=None, random_state=None, lazy=False, inplace=False):
        VLOG.append({"head": head, "tail": tail, "sample": sample, "random_state": random_state, "lazy": lazy,
                     "inplace": inplace})
        return orig(self, check_obj, head, tail, sample, random_state, lazy, inplace)
    return validate


def exc_kind(e):
    n = type(e).__name__
    return {"SchemaError": "schemaError", "SchemaErrors": "schemaError", "IndexError": "indexError",
            "KeyError": "keyError", "ValueError": "valueError"}.get(n, "raise:" + n)


def run_input_cases(rep, cases):
    import pandera as pa
    from pandera.api.pandas.container import DataFrameSchema as PDS
    S = pa.DataFrameSchema({"a": pa.Column(int, coerce=True)})
    good, bad = frames()
    dcases = []
    for c in cases:
        sh, cs = c["shape"], c["call"]
        sig = signature(sh)
        df_id = RAW if c["data"] == "good" else BAD
        _, _, ids_args, ids_kwargs = build_call(sh, cs, good if c["data"] == "good" else bad)
        if sh["kind"] in ("method", "classmethod"):
            ids_args = [SELF] + ids_args
        dcases.append({"mode": "input", "sig": [{"name": n, "kind": k, "hasDefault": d} for n, k, d in sig],
                       "getter": c["getter"], "args": ids_args, "kwargs": ids_kwargs,
                       "accept": [[str(RAW), PARSED + 1], [str(BAD), 0]]})
    answers = run_driver("C17", dcases)
    orig = PDS.validate
    with mock.patch.object(PDS, "validate", recording_validate(orig)), warnings.catch_warnings():
        warnings.simplefilter("ignore")
        for c, a in zip(cases, answers):
            if "error" in a:
                rep.correspondence_break(c, "driver: " + a["error"])
                continue
            sh, cs, g, opts = c["shape"], c["call"], c["getter"], c["opts"]
            frame = (good if c["data"] == "good" else bad).copy()    # (inplace=True options mutate the argument)
            ns = {"LOG": LOG, "tag": tag, "S": S, "OPTS": opts}
            deco = "check_input(S, %r, **OPTS)" % (g,) if g is not None else "check_input(S, **OPTS)"
            exec("from pandera import check_input\n" + source(sh, deco), ns)  # noqa: S102
            raw_ns = {"LOG": LOG, "tag": tag}
            exec(source(sh, "(lambda f: f)"), raw_ns)  # noqa: S102
            args, kwargs, _, _ = build_call(sh, cs, frame)
            # the undecorated function on the same call
            LOG.clear()
            try:
                pargs, pkwargs, _, _ = build_call(sh, cs, frame.copy())
                run_sync(invoke(raw_ns, sh, list(pargs), dict(pkwargs)))
                plain = LOG[-1]
            except Exception as e:  # noqa: BLE001
                plain = ("raise", type(e).__name__)
            LOG.clear()
            VLOG.clear()
            try:
                res = run_sync(invoke(ns, sh, list(args), dict(kwargs)))
                impl = ("call", LOG[-1] if LOG else None, tag(res))
            except Exception as e:  # noqa: BLE001
                impl = (exc_kind(e), type(e).__name__, bool(LOG))
            rep.case(c, nontrivial=True)
            rep.count("input:" + sh["kind"] + (":async" if sh["async"] else ""))
            rep.count("input:getter:" + ("none" if g is None else type(g).__name__))
            rep.count("input:outcome:" + impl[0])
            if plain[0] == "raise":
                rep.count("input:undecorated-call-invalid")
                continue
            region = None
            failed = False
            # ---- the property on the implementation
            int_kw = isinstance(g, int) and cs["df_kw"]
            if int_kw:
                # documented limit: an integer getter designates a position among the positional arguments
                if impl[0] != "indexError":
                    rep.property_failure(c, f"integer getter with the argument passed by keyword: {impl[:2]}")
                continue
            if c["data"] == "bad":
                if impl[0] != "schemaError" or impl[2]:
                    rep.property_failure(c, f"rejected input: outcome {impl[:2]}, body ran: {impl[2] if len(impl) > 2 else '?'}",
                                         region=region)
                    failed = True
                elif impl[1] != ("SchemaErrors" if opts.get("lazy") else "SchemaError"):
                    rep.property_failure(c, f"lazy={opts.get('lazy', False)} but the decorator raised {impl[1]}")
                    failed = True
            else:
                if impl[0] != "call" or impl[1] is None:
                    rep.property_failure(c, f"accepted input but the call ended with {impl[:2]}", region=region)
                    failed = True
                else:
                    _, named, star, starkw = impl[1]
                    _, pnamed, pstar, pstarkw = plain
                    want = dict(pnamed, df=PARSED)
                    if named != want or star != pstar or starkw != pstarkw:
                        rep.property_failure(c, f"the body received {named} {star} {starkw}; the undecorated function "
                                                f"receives {pnamed} {pstar} {pstarkw} (df must be the parsed frame)")
                        failed = True
                    elif impl[2] != PARSED:
                        rep.property_failure(c, "the result differs from the undecorated function's result on the parsed input")
                        failed = True
            if not failed and VLOG:
                want_opts = {"head": None, "tail": None, "sample": None, "random_state": None, "lazy": False, "inplace": False}
                want_opts.update(opts)
                if VLOG[0] != want_opts:
                    rep.property_failure(c, f"validate received {VLOG[0]}, the decorator was given {want_opts}")
                    failed = True
            # ---- correspondence with the model
            mo = a["outcome"]
            if isinstance(mo, dict):
                mb = mo["call"]
                model = ("call", None if mb is None else (dict(mb["named"]), mb["star"], dict(mb["starKw"])))
                if impl[0] == "call" and impl[1] and mb is not None:
                    # the model binds the arguments of the call; parameters left out take their defaults (5 / 1)
                    given = {k: v for k, v in impl[1][1].items() if k in dict(mb["named"])}
                    dflt_ok = all(v == (5 if k.startswith("y") else 1) for k, v in impl[1][1].items() if k not in given)
                    got = ("call", (given if dflt_ok else impl[1][1], impl[1][2], impl[1][3]))
                else:
                    got = ("call", (impl[1][1], impl[1][2], impl[1][3])) if impl[0] == "call" and impl[1] else impl[:1]
            else:
                model, got = (mo,), impl[:1]
            if model != got and not failed:
                rep.correspondence_break(c, f"model {model} implementation {got}")


def equivalence_pass(rep, cases):
    """equivalent designations give identical behaviour (grouped by everything but the getter)"""
    groups = {}
    for c in cases:
        key = json.dumps([c["shape"], c["call"], c["data"], c["opts"]], sort_keys=True)
        groups.setdefault(key, []).append(c)
    return groups


def gen_input_cases(tier, rng):
    all_shapes = shapes(tier, rng)
    cases = []
    for sh in all_shapes:
        for cs in calls_for(sh, rng, tier):
            for g in getters_for(sh):
                for data in ("good", "bad"):
                    cases.append({"dec": "check_input", "shape": sh, "call": cs, "getter": g, "data": data,
                                  "opts": rng.choice(OPTS)})
    if tier == "quick":
        rng.shuffle(cases)
        cases = cases[:700]
    return cases


# ---- check_output ---------------------------------------------------------------------------------

def run_output_cases(rep, tier, rng):
    import pandera as pa
    from pandera import check_output
    from pandera.api.pandas.container import DataFrameSchema as PDS
    S = pa.DataFrameSchema({"a": pa.Column(int, coerce=True)})
    good, bad = frames()
    cases = []
    for shape, getter in (("single", None), ("tuple", 0), ("tuple", 1), ("list", 1), ("dict", "k"),
                          # negative positions designate from the end (the model is asked the equivalent position)
                          ("tuple", -1), ("tuple", -2), ("list", -1), ("tuple3", -1), ("tuple3", -2), ("tuple3", 1)):
        for is_async in (False, True):
            for data in ("good", "bad"):
                for opts in OPTS:
                    cases.append({"dec": "check_output", "shape": shape, "getter": getter, "async": is_async, "data": data,
                                  "opts": opts})
    dcases = []
    for c in cases:
        fid = RAW if c["data"] == "good" else BAD
        out = {"single": fid, "tuple": [1, fid] if c["getter"] in (1, -1) else [fid, 1], "list": [1, fid],
               "tuple3": [2, fid, 1] if c["getter"] in (1, -2) else [2, 1, fid],
               "dict": [["j", 1], ["k", fid]]}[c["shape"]]
        g = c["getter"]
        if isinstance(g, int) and g < 0:
            g = len(out) + g
        dcases.append({"mode": "output", "getter": g, "out": out, "accept": [[str(RAW), PARSED + 1], [str(BAD), 0]]})
    answers = run_driver("C17", dcases)
    orig = PDS.validate
    with mock.patch.object(PDS, "validate", recording_validate(orig)), warnings.catch_warnings():
        warnings.simplefilter("ignore")
        for c, a in zip(cases, answers):
            frame = (good if c["data"] == "good" else bad).copy()

            def mk():
                return {"single": frame, "tuple": (1, frame) if c["getter"] in (1, -1) else (frame, 1), "list": [1, frame],
                        "tuple3": (2, frame, 1) if c["getter"] in (1, -2) else (2, 1, frame),
                        "dict": {"j": 1, "k": frame}}[c["shape"]]
            if c["async"]:
                @check_output(S, c["getter"], **c["opts"])
                async def f():
                    return mk()
            else:
                @check_output(S, c["getter"], **c["opts"])
                def f():
                    return mk()
            VLOG.clear()
            try:
                res = run_sync(f())
                if c["shape"] == "single":
                    impl = ("ret", tag(res))
                elif c["shape"] == "dict":
                    impl = ("ret", [[k, tag(v)] for k, v in res.items()])
                else:
                    impl = ("ret", [tag(v) for v in res])
                    if type(res).__name__ != c["shape"].rstrip("3"):
                        rep.property_failure(c, f"a {c['shape']} came back as {type(res).__name__}")
            except Exception as e:  # noqa: BLE001
                impl = (exc_kind(e), type(e).__name__)
            rep.case(c)
            rep.count("output:" + c["shape"] + (":async" if c["async"] else "") + ":" + impl[0])
            failed = False
            if c["data"] == "bad":
                if impl[0] != "schemaError":
                    rep.property_failure(c, f"a rejected output reached the caller: {impl}")
                    failed = True
                elif impl[1] != ("SchemaErrors" if c["opts"].get("lazy") else "SchemaError"):
                    rep.property_failure(c, f"lazy={c['opts'].get('lazy', False)} but check_output raised {impl[1]}")
                    failed = True
            else:
                flat = [impl[1]] if c["shape"] == "single" else ([v for _, v in impl[1]] if c["shape"] == "dict" else impl[1]) \
                    if impl[0] == "ret" else []
                if impl[0] != "ret" or PARSED not in flat or RAW in flat:
                    rep.property_failure(c, f"the designated output was not replaced by the validated object: {impl}")
                    failed = True
            if not failed and VLOG:
                want = {"head": None, "tail": None, "sample": None, "random_state": None, "lazy": False, "inplace": False}
                want.update(c["opts"])
                if VLOG[0] != want:
                    rep.property_failure(c, f"validate received {VLOG[0]}, check_output was given {want}")
                    failed = True
            mo = a.get("outcome")
            model = ("ret", mo["ret"]) if isinstance(mo, dict) else (mo,)
            if model != impl[:len(model)] and not failed:
                rep.correspondence_break(c, f"model {model} implementation {impl}")


# ---- check_io and check_types (property on the implementation) -----------------------------------

def run_io_types(rep, tier, rng):
    import typing
    import pandera as pa
    from pandera import check_io, check_types
    from pandera.typing import DataFrame
    S = pa.DataFrameSchema({"a": pa.Column(int, coerce=True)})
    good, bad = frames()

    class M(pa.DataFrameModel):
        a: int = pa.Field(coerce=True)

    from pandera.api.pandas.container import DataFrameSchema as PDS
    for d1, d2, dout, opts, kw in itertools.product(("good", "bad"), ("good", "bad"), ("good", "bad"), OPTS,
                                                    (False, True)):
        c = {"dec": "check_io", "d1": d1, "d2": d2, "out": dout, "opts": opts, "kw": kw}
        if d1 == d2 == dout == "good":
            # every validate call the decorator makes (two inputs, the output) carries the options it was given
            VLOG.clear()
            mine = good.copy()
            seen = []

            @check_io(df1=S, df2=S, out=S, **opts)
            def h(df1, n, df2, m=3):
                seen.append(df1)
                return good.copy()
            with mock.patch.object(PDS, "validate", recording_validate(PDS.validate)), warnings.catch_warnings():
                warnings.simplefilter("ignore")
                try:
                    h(mine, 1, good.copy())
                except Exception as e:  # noqa: BLE001
                    rep.property_failure(c, f"check_io with {opts} raised {type(e).__name__} on accepted frames")
            want_opts = {"head": None, "tail": None, "sample": None, "random_state": None, "lazy": False, "inplace": False}
            want_opts.update(opts)
            rep.evaluations += 1
            if len(VLOG) != 3 or any(v != want_opts for v in VLOG):
                rep.property_failure(c, f"check_io was given {want_opts}; its validate calls received {list(VLOG)}")
            elif opts.get("inplace") and seen and (seen[0] is not mine or str(mine["a"].dtype) != "int64"):
                rep.property_failure(c, "check_io(inplace=True): the body did not receive the caller's own (parsed) frame")
        ran = []

        @check_io(df1=S, df2=S, out=S, **opts)
        def f(df1, n, df2, m=3):
            ran.append((tag(df1), n, tag(df2), m))
            return (good if dout == "good" else bad).copy()
        fr = {"good": good.copy(), "bad": bad.copy()}
        with warnings.catch_warnings():
            warnings.simplefilter("ignore")
            try:
                r = f(fr[d1].copy(), 1, df2=fr[d2].copy()) if kw else f(fr[d1].copy(), 1, fr[d2].copy())
                impl = ("ret", tag(r))
            except Exception as e:  # noqa: BLE001
                impl = (exc_kind(e), type(e).__name__)
        rep.case(c)
        rep.count("check_io:" + impl[0])
        inputs_ok = d1 == "good" and d2 == "good"
        if bool(ran) != inputs_ok:
            rep.property_failure(c, f"check_io: body ran = {bool(ran)} with inputs {d1}, {d2}")
        elif ran and ran[0] != (PARSED, 1, PARSED, 3):
            rep.property_failure(c, f"check_io: the body received {ran[0]}")
        elif inputs_ok and dout == "good" and impl != ("ret", PARSED):
            rep.property_failure(c, f"check_io: accepted output came back as {impl}")
        elif (not inputs_ok or dout == "bad") and impl[0] != "schemaError":
            rep.property_failure(c, f"check_io: a rejected frame did not raise a schema error: {impl}")
        elif impl[0] == "schemaError" and impl[1] != ("SchemaErrors" if opts.get("lazy") else "SchemaError"):
            rep.property_failure(c, f"check_io: lazy={opts.get('lazy', False)} raised {impl[1]}")

    for d1, d2, dout, opts, style, is_async in itertools.product(("good", "bad", "none"), ("good", "bad"), ("good", "bad"),
                                                                 OPTS[:2], ("pos", "kw", "star"), (False, True)):
        c = {"dec": "check_types", "d1": d1, "d2": d2, "out": dout, "opts": opts, "style": style, "async": is_async}
        ran = []
        fr = {"good": good.copy(), "bad": bad.copy(), "none": None}
        src = ("@check_types(**opts)\n" + ("async def" if is_async else "def") +
               " g(df1: typing.Optional[DataFrame[M]], n: int, *more: DataFrame[M], df2: DataFrame[M] = None) -> DataFrame[M]:\n"
               "    ran.append((tag(df1), n, [tag(x) for x in more], tag(df2)))\n"
               "    return fr[dout]\n")
        ns = {"check_types": check_types, "typing": typing, "DataFrame": DataFrame, "M": M, "ran": ran, "tag": tag,
              "fr": fr, "dout": dout, "opts": opts}
        exec(src, ns)  # noqa: S102  (annotations must be real objects: this module uses postponed evaluation)
        g = ns["g"]
        want = (PARSED if d1 == "good" else -1, 1, [PARSED] if style == "star" else [], PARSED)
        with warnings.catch_warnings():
            warnings.simplefilter("ignore")
            try:
                if style == "pos":
                    r = run_sync(g(fr[d1], 1, df2=fr[d2]))
                elif style == "kw":
                    r = run_sync(g(df1=fr[d1], n=1, df2=fr[d2]))
                else:
                    r = run_sync(g(fr[d1], 1, fr[d2], df2=good))
                impl = ("ret", tag(r))
            except Exception as e:  # noqa: BLE001
                impl = (exc_kind(e), type(e).__name__)
        rep.case(c)
        rep.count("check_types:" + impl[0])
        inputs_ok = d1 != "bad" and d2 == "good"
        if bool(ran) != inputs_ok:
            rep.property_failure(c, f"check_types: body ran = {bool(ran)} with inputs {d1}, {d2} ({impl})")
        elif ran and ran[0] != want:
            rep.property_failure(c, f"check_types: the body received {ran[0]}, expected {want}")
        elif inputs_ok and dout == "good" and impl != ("ret", PARSED):
            rep.property_failure(c, f"check_types: accepted output came back as {impl}")
        elif (not inputs_ok or dout == "bad") and impl[0] != "schemaError":
            rep.property_failure(c, f"check_types: a rejected frame did not raise a schema error: {impl}")
        elif impl[0] == "schemaError" and impl[1] != ("SchemaErrors" if opts.get("lazy") else "SchemaError"):
            rep.property_failure(c, f"check_types: lazy={opts.get('lazy', False)} raised {impl[1]}")
    run_types_starkwargs(rep)
    run_types_nonframes(rep)
    run_types_prevalidated(rep)


def run_types_starkwargs(rep):
    """frames handed over through an annotated `**kwargs` (and `*args`) bundle are validated like named parameters:
    plain function, method, sync / async, several frames in the bundle"""
    import pandera as pa
    from pandera import check_types
    from pandera.typing import DataFrame
    good, bad = frames()

    class M(pa.DataFrameModel):
        a: int = pa.Field(coerce=True)

    for kind, is_async, bundle, opts in itertools.product(("plain", "method"), (False, True),
                                                          (("good",), ("bad",), ("good", "good"), ("good", "bad"), ()),
                                                          OPTS[:2]):
        c = {"dec": "check_types", "starkwargs": list(bundle), "kind": kind, "async": is_async, "opts": opts}
        ran = []
        d = "async def" if is_async else "def"
        if kind == "plain":
            src = (f"@check_types(**opts)\n{d} g(n: int, **extra: DataFrame[M]):\n"
                   "    ran.append({k: tag(v) for k, v in extra.items()})\n    return n\n")
        else:
            src = (f"class K:\n    @check_types(**opts)\n    {d} g(self, n: int, **extra: DataFrame[M]):\n"
                   "        ran.append({k: tag(v) for k, v in extra.items()})\n        return n\n")
        ns = {"check_types": check_types, "DataFrame": DataFrame, "M": M, "ran": ran, "tag": tag, "opts": opts}
        exec(compile(src, "<c17-starkw>", "exec", dont_inherit=True), ns)  # noqa: S102
        g = ns["g"] if kind == "plain" else ns["K"]().g
        kwargs = {f"x{i}": (good if b == "good" else bad).copy() for i, b in enumerate(bundle)}
        with warnings.catch_warnings():
            warnings.simplefilter("ignore")
            try:
                r = run_sync(g(1, **kwargs))
                impl = ("ret", r)
            except Exception as e:  # noqa: BLE001
                impl = (exc_kind(e), type(e).__name__)
        rep.case(c)
        rep.evaluations += 1
        rep.count("check_types-starkwargs:" + impl[0])
        ok = all(b == "good" for b in bundle)
        if bool(ran) != ok:
            rep.property_failure(c, f"check_types: body ran = {bool(ran)} with frames {list(bundle)} passed through **kwargs ({impl})")
        elif ran and ran[0] != {f"x{i}": PARSED for i in range(len(bundle))}:
            rep.property_failure(c, f"check_types: the body received {ran[0]} through **kwargs (parsed frames expected)")
        elif not ok and impl[0] != "schemaError":
            rep.property_failure(c, f"check_types: a rejected frame in **kwargs did not raise a schema error: {impl}")


def run_types_nonframes(rep):
    """check_types with values that are not dataframes for a `DataFrame[M]` parameter / return that is not Optional:
    the body must not run (inputs) and the value must not reach the caller (outputs)"""
    import typing
    import pandera as pa
    from pandera import check_types
    from pandera.typing import DataFrame
    good, bad = frames()

    class M(pa.DataFrameModel):
        a: int = pa.Field(coerce=True)
    values = {"None": None, "int": 5, "str": "x", "list": [1, 2], "dict": {"a": [1]}}
    for vname, style, is_async, where in itertools.product(values, ("pos", "kw", "star", "kwonly"), (False, True),
                                                          ("input", "output")):
        c = {"dec": "check_types", "value": vname, "style": style, "async": is_async, "where": where}
        ran = []
        fr = {"good": good.copy(), "value": values[vname]}
        src = ("@check_types\n" + ("async def" if is_async else "def") +
               " g(df1: DataFrame[M], *more: DataFrame[M], df2: DataFrame[M]) -> DataFrame[M]:\n"
               "    ran.append(1)\n"
               "    return fr['value'] if where == 'output' else fr['good']\n")
        ns = {"check_types": check_types, "typing": typing, "DataFrame": DataFrame, "M": M, "ran": ran, "fr": fr, "where": where}
        exec(compile(src, "<c17-types>", "exec", dont_inherit=True), ns)  # noqa: S102
        g = ns["g"]
        v = values[vname] if where == "input" else good.copy()
        with warnings.catch_warnings():
            warnings.simplefilter("ignore")
            try:
                if style == "pos":
                    r = run_sync(g(v, df2=good.copy()))
                elif style == "kw":
                    r = run_sync(g(df1=v, df2=good.copy()))
                elif style == "star":
                    r = run_sync(g(good.copy(), v, df2=good.copy()))
                else:
                    r = run_sync(g(good.copy(), df2=v))
                impl = ("ret", type(r).__name__)
            except Exception as e:  # noqa: BLE001
                impl = ("raise", type(e).__name__)
        rep.case(c)
        rep.evaluations += 1
        rep.count(f"check_types-nonframe:{where}:{vname}:{impl[0]}")
        region = "K_C17_builtinValuesSkipped" if vname != "None" else None
        if where == "input" and ran:
            rep.property_failure(c, f"check_types: the body ran although a {vname} value was passed for a parameter annotated "
                                    f"DataFrame[M] ({style})", region=region)
        elif where == "output" and impl[0] == "ret":
            rep.property_failure(c, f"check_types: a {vname} value returned under `-> DataFrame[M]` reached the caller "
                                    "unvalidated", region=region)


def run_types_prevalidated(rep):
    """a frame that already went through another model's validate (and carries that schema) is still validated against
    the annotated model — also when the two schemas share a name"""
    import pandera as pa
    from pandera import check_types
    from pandera.typing import DataFrame

    class M(pa.DataFrameModel):
        a: int = pa.Field(ge=0)
    loose_same_name = type("M", (pa.DataFrameModel,), {"__annotations__": {"a": int}})
    loose_other_name = type("Loose", (pa.DataFrameModel,), {"__annotations__": {"a": int}})
    loose_config_name = type("Other", (pa.DataFrameModel,), {"__annotations__": {"a": int},
                                                            "Config": type("Config", (), {"name": "M"})})
    for label, other in (("same class name", loose_same_name), ("another name", loose_other_name),
                         ("Config.name equal", loose_config_name)):
        for where in ("input", "output"):
            c = {"dec": "check_types", "prevalidated_by": label, "where": where}
            ran = []
            with warnings.catch_warnings():
                warnings.simplefilter("ignore")
                carried = other.validate(pd.DataFrame({"a": [-1, 2]}))        # valid for the loose model, invalid for M
                ok = M.validate(pd.DataFrame({"a": [1, 2]}))
                ns = {"check_types": check_types, "DataFrame": DataFrame, "M": M, "ran": ran, "carried": carried, "ok": ok,
                      "where": where}
                exec(compile("@check_types\ndef g(df: DataFrame[M]) -> DataFrame[M]:\n    ran.append(1)\n"
                             "    return carried if where == 'output' else df\n", "<c17-prev>", "exec", dont_inherit=True), ns)
                try:
                    ns["g"](carried if where == "input" else ok)
                    impl = "ret"
                except Exception as e:  # noqa: BLE001
                    impl = exc_kind(e)
            rep.case(c)
            rep.evaluations += 1
            rep.count(f"check_types-prevalidated:{where}:{impl}")
            if where == "input" and ran:
                rep.property_failure(c, f"check_types: the body ran on a frame that violates the annotated model; the frame had "
                                        f"been validated by another model ({label})")
            elif where == "output" and impl == "ret":
                rep.property_failure(c, f"check_types: an output that violates the annotated model reached the caller; it had "
                                        f"been validated by another model ({label})")


def designation_equivalence(rep, cases):
    """same shape / call / data / options, different getters: the implementation must behave identically"""
    import pandera as pa
    S = pa.DataFrameSchema({"a": pa.Column(int, coerce=True)})
    good, bad = frames()
    seen = set()
    for c in cases:
        sh, cs = c["shape"], c["call"]
        key = json.dumps([sh, cs, c["data"], c["opts"]], sort_keys=True)
        if key in seen or cs["df_kw"] and sh["before"] != 0:
            continue
        seen.add(key)
        outs = []
        for g in getters_for(sh):
            if isinstance(g, int) and cs["df_kw"]:
                continue
            ns = {"LOG": LOG, "tag": tag, "S": S, "OPTS": c["opts"]}
            deco = "check_input(S, %r, **OPTS)" % (g,) if g is not None else "check_input(S, **OPTS)"
            exec("from pandera import check_input\n" + source(sh, deco), ns)  # noqa: S102
            args, kwargs, _, _ = build_call(sh, cs, (good if c["data"] == "good" else bad).copy())
            LOG.clear()
            with warnings.catch_warnings():
                warnings.simplefilter("ignore")
                try:
                    r = run_sync(invoke(ns, sh, list(args), dict(kwargs)))
                    outs.append((g, ("call", LOG[-1] if LOG else None, tag(r))))
                except Exception as e:  # noqa: BLE001
                    outs.append((g, (type(e).__name__,)))
        rep.count("equivalence:groups")
        if len({json.dumps(o, sort_keys=True, default=str) for _, o in outs}) > 1:
            rep.property_failure(dict(c, getter="*"), f"equivalent designations behave differently: {outs}")


def run(tier, replay=None):
    rep = Report(PROP, tier)
    warm_up_backends()
    regenerate(("decorators",))
    rep.audit = audit(PROP, MODULES)
    rep.audit["modules"] = MODULES
    rng = rng_for(PROP)
    if replay:
        case = json.loads(open(replay).read())["case"]
        if case.get("dec") == "check_input" and case.get("getter") != "*":
            run_input_cases(rep, [case])
        elif case.get("dec") == "check_input":
            designation_equivalence(rep, [dict(case, getter=None)])
        elif case.get("dec") == "check_output":
            run_output_cases(rep, tier, rng)
        else:
            run_io_types(rep, tier, rng)
        return rep.finish(rule="replay")
    cases = [c for c in corpus_cases(PROP) if c.get("dec") == "check_input"] + gen_input_cases(tier, rng)
    run_input_cases(rep, cases)
    designation_equivalence(rep, cases if tier == "thorough" else cases[:250])
    run_output_cases(rep, tier, rng)
    run_io_types(rep, tier, rng)
    return rep.finish(
        rule="check_input: signature shapes {function, method, classmethod, staticmethod} x 0-2 parameters before and 0-2 "
             "defaulted parameters after the designated one x *args x keyword-only x **kwargs x sync/async, every call shape "
             "(positional / keyword / omitted defaults / surplus positionals / extra keywords), getters {None, int, str}, "
             "accepted and rejected frames, five option sets (exhaustive in the thorough tier, 700 sampled in quick); "
             "check_output: single / tuple / list / dict x getter x sync/async x options (exhaustive); check_io and check_types "
             "(Optional, *args, keyword-only, sync/async) exhaustive over accepted/rejected inputs and outputs",
        level_note=["Python's own argument binding is the specification `bind` of the model (checked against the "
                    "undecorated function on every case)"],
        exhaustive=(tier == "thorough"),
    )

"""Abstract data universe <-> Lean JSON encoding <-> pandas / pandera objects.

The abstract case is kept in the JSON shape Lean's derived `FromJson` expects
(constructors as {"ctor": {field: ..}} or "ctor" for nullary ones), so the same
dict is sent to the driver and concretised here.
"""
from __future__ import annotations

import math
import random

import numpy as np
import pandas as pd

# ---- values ---------------------------------------------------------------

NULL = "null"


def vint(i): return {"int": {"i": int(i)}}
def vflt(q): return {"flt": {"q": int(q)}}
def vstr(s): return {"str": {"s": s}}
def vbool(b): return {"bool": {"b": bool(b)}}
def vts(n): return {"ts": {"n": int(n)}}


T0 = pd.Timestamp("2020-01-01")


def is_null(v): return v == NULL


def vkind(v):
    if v == NULL:
        return None
    return {"int": "int64", "flt": "float64", "str": "str", "bool": "bool", "ts": "datetime"}[next(iter(v))]


def to_py(v):
    """abstract value -> python scalar (nulls become None)"""
    if v == NULL:
        return None
    k = next(iter(v))
    x = v[k]
    if k == "int":
        return int(x["i"])
    if k == "flt":
        return x["q"] / 4.0
    if k == "str":
        return x["s"]
    if k == "bool":
        return bool(x["b"])
    if k == "ts":
        return T0 + pd.Timedelta(days=int(x["n"]))
    raise ValueError(v)


def from_py(x):
    """python / numpy scalar -> abstract value; raises ValueError outside the universe"""
    if x is None or x is pd.NaT or x is pd.NA:
        return NULL
    if isinstance(x, (bool, np.bool_)):
        return vbool(bool(x))
    if isinstance(x, (int, np.integer)):
        return vint(int(x))
    if isinstance(x, (float, np.floating)):
        if math.isnan(x):
            return NULL
        q = float(x) * 4
        if q != int(q):
            raise ValueError(f"float {x!r} outside the quarter grid")
        return vflt(int(q))
    if isinstance(x, str):
        return vstr(x)
    if isinstance(x, (pd.Timestamp, np.datetime64)):
        t = pd.Timestamp(x)
        if t is pd.NaT:
            return NULL
        d = (t - T0)
        if d != pd.Timedelta(days=d.days):
            raise ValueError(f"timestamp {x!r} off the day grid")
        return vts(d.days)
    raise ValueError(f"value {x!r} ({type(x)}) outside the abstract universe")


PANDAS_DTYPE = {"int64": "int64", "float64": "float64", "str": "object", "bool": "bool", "datetime": "datetime64[ns]"}
SCHEMA_DTYPE = {"int64": "int64", "float64": "float64", "str": str, "bool": "bool", "datetime": "datetime64[ns]"}


def abs_dtype_of(pd_dtype) -> str | None:
    s = str(pd_dtype)
    return {"int64": "int64", "float64": "float64", "object": "str", "bool": "bool",
            "datetime64[ns]": "datetime"}.get(s)


def series_of(vals, dtype, name=None, index=None):
    py = [to_py(v) for v in vals]
    if dtype == "float64":
        py = [np.nan if x is None else x for x in py]
    if dtype == "datetime":
        py = [pd.NaT if x is None else x for x in py]
    return pd.Series(py, dtype=PANDAS_DTYPE[dtype], name=name, index=index)


def index_of(levels):
    if len(levels) == 1:
        l = levels[0]
        return pd.Index(series_of(l["vals"], l["dtype"]).values, name=l["name"],
                        dtype=PANDAS_DTYPE[l["dtype"]])
    arrays = [series_of(l["vals"], l["dtype"]).values for l in levels]
    return pd.MultiIndex.from_arrays(arrays, names=[l["name"] for l in levels])


def frame_of(fr) -> pd.DataFrame:
    idx = index_of(fr["index"])
    data = {}
    df = pd.DataFrame(index=idx)
    for c in fr["cols"]:
        s = series_of(c["vals"], c["dtype"])
        s.index = idx
        df[c["name"]] = s
    return df


def abs_series(s: pd.Series):
    """pandas Series -> (dtype, vals) in the abstract universe"""
    d = abs_dtype_of(s.dtype)
    if d is None:
        raise ValueError(f"dtype {s.dtype} outside the universe")
    return d, [from_py(x) for x in s.tolist()]


def abs_frame(df: pd.DataFrame):
    cols = []
    for name in df.columns:
        d, vals = abs_series(df[name])
        cols.append({"name": name, "dtype": d, "vals": vals})
    levels = []
    idx = df.index
    for i in range(idx.nlevels):
        lv = idx.get_level_values(i)
        d, vals = abs_series(pd.Series(lv))
        levels.append({"name": idx.names[i], "dtype": d, "vals": vals})
    return {"cols": cols, "index": levels, "nrows": len(df)}


def default_index(n):
    return [{"name": None, "dtype": "int64", "vals": [vint(i) for i in range(n)]}]


# ---- regex patterns ---------------------------------------------------------

import re as _re


def pat_render(p, top=True) -> str:
    if p == "eps":
        return ""
    if p == "empty":
        return "(?!)"
    if p == "any":
        return "."
    k = next(iter(p))
    x = p[k]
    if k == "chr":
        return _re.escape(x["c"])
    if k == "cls":
        return "[" + "".join(_re.escape(c) for c in x["cs"]) + "]"
    if k == "seq":
        return pat_render(x["a"], False) + pat_render(x["b"], False)
    if k == "alt":
        inner = pat_render(x["a"], False) + "|" + pat_render(x["b"], False)
        return inner if top else "(?:" + inner + ")"
    if k == "star":
        return "(?:" + pat_render(x["a"], False) + ")*"
    raise ValueError(p)


def pat_lit(s):
    if not s:
        return "eps"
    return {"seq": {"a": {"chr": {"c": s[0]}}, "b": pat_lit(s[1:])}}


def gen_pat(rng: random.Random, depth=2, alphabet="abx1"):
    r = rng.random()
    if depth == 0 or r < 0.3:
        c = rng.random()
        if c < 0.6:
            return {"chr": {"c": rng.choice(alphabet)}}
        if c < 0.8:
            return "any"
        return {"cls": {"cs": rng.sample(alphabet, 2)}}
    if r < 0.6:
        return {"seq": {"a": gen_pat(rng, depth - 1, alphabet), "b": gen_pat(rng, depth - 1, alphabet)}}
    if r < 0.8:
        return {"alt": {"a": gen_pat(rng, depth - 1, alphabet), "b": gen_pat(rng, depth - 1, alphabet)}}
    return {"star": {"a": gen_pat(rng, depth - 1, alphabet)}}


# ---- checks -----------------------------------------------------------------

_registered = False


def ensure_backends():
    """pandera registers its pandas backends lazily on the first validate; checks called directly
    (`Check(...)(series)`) need them too"""
    global _registered
    if not _registered:
        from pandera.backends.pandas.register import register_pandas_backends
        for fqn in ("pandas.core.series.Series", "pandas.core.frame.DataFrame"):
            register_pandas_backends(fqn)
        _registered = True


def check_of(cs, alias=False):
    """CheckSpec json -> pandera Check (`alias=True`: through the documented short names eq, ne, gt, ge, lt, le, between)"""
    import pandera as pa
    ensure_backends()
    b = cs["b"]
    k = next(iter(b))
    x = b[k]
    kw = {"ignore_na": cs["ignoreNa"]}
    for opt in ("raise_warning", "n_failure_cases"):
        if opt in cs:
            kw[opt] = cs[opt]
    C = pa.Check
    if alias and k in ("eq", "ne", "gt", "ge", "lt", "le"):
        return getattr(C, k)(to_py(x["v"]), **kw)
    if alias and k == "inRange":
        return C.between(to_py(x["lo"]), to_py(x["hi"]), include_min=x["incLo"], include_max=x["incHi"], **kw)
    if k == "eq": return C.equal_to(to_py(x["v"]), **kw)
    if k == "ne": return C.not_equal_to(to_py(x["v"]), **kw)
    if k == "gt": return C.greater_than(to_py(x["v"]), **kw)
    if k == "ge": return C.greater_than_or_equal_to(to_py(x["v"]), **kw)
    if k == "lt": return C.less_than(to_py(x["v"]), **kw)
    if k == "le": return C.less_than_or_equal_to(to_py(x["v"]), **kw)
    if k == "inRange":
        return C.in_range(to_py(x["lo"]), to_py(x["hi"]), include_min=x["incLo"], include_max=x["incHi"], **kw)
    if k == "isin": return C.isin([to_py(v) for v in x["vs"]], **kw)
    if k == "notin": return C.notin([to_py(v) for v in x["vs"]], **kw)
    if k == "strMatches": return C.str_matches(pat_render(x["p"]), **kw)
    if k == "strContains": return C.str_contains(pat_render(x["p"]), **kw)
    if k == "strStartswith": return C.str_startswith(x["s"], **kw)
    if k == "strEndswith": return C.str_endswith(x["s"], **kw)
    if k == "strLength": return C.str_length(x["lo"], x["hi"], **kw)
    raise ValueError(b)


KEEP = {"first": "exclude_first", "last": "exclude_last", "none": "all"}


def component_kwargs(spec):
    kw = dict(
        dtype=SCHEMA_DTYPE[spec["dtype"]] if spec["dtype"] is not None else None,
        checks=[check_of(c) for c in spec["checks"]],
        nullable=spec["nullable"], unique=spec["unique"], coerce=spec["coerce"],
        report_duplicates=KEEP[spec["reportDup"]],
    )
    if spec.get("default") is not None:
        kw["default"] = to_py(spec["default"])
    if spec.get("componentDrop"):
        kw["drop_invalid_rows"] = True      # the component's own flag (meant for stand-alone use)
    return kw


def column_of(spec):
    import pandera as pa
    kw = component_kwargs(spec)
    name = spec["name"]
    if spec["regex"] is not None:
        name = pat_render(spec["regex"])
    return name, pa.Column(name=name, regex=spec["regex"] is not None, required=spec["required"], **kw)


def index_schema_of(spec):
    import pandera as pa
    kw = component_kwargs(spec)
    return pa.Index(name=spec["name"], **kw)


def series_schema_of(spec, index_spec=None):
    import pandera as pa
    kw = component_kwargs(spec)
    return pa.SeriesSchema(name=spec["name"], index=index_schema_of(index_spec) if index_spec else None, **kw)


def schema_of(S, **extra):
    import pandera as pa
    cols = {}
    for spec in S["columns"]:
        n, c = column_of(spec)
        cols[n] = c
    strict = {"no": False, "yes": True, "filter": "filter"}[S["strict"]]
    return pa.DataFrameSchema(
        columns=cols,
        index=index_schema_of(S["index"]) if S["index"] is not None else None,
        strict=strict, ordered=S["ordered"],
        unique=S["unique"] or None,
        report_duplicates=KEEP[S["reportDup"]],
        coerce=S.get("coerce", False), add_missing_columns=S.get("addMissing", False),
        drop_invalid_rows=S.get("dropInvalid", False),
        **extra,
    )


# ---- generators -------------------------------------------------------------

POOL = {
    "int64": [vint(i) for i in (-2, -1, 0, 1, 2, 3, 4, 5)],
    "float64": [vflt(q) for q in (-8, -2, 0, 1, 2, 4, 6, 8, 10, 12, 16, 20)],
    "str": [vstr(s) for s in ("a", "b", "ab", "abc", "ba", "", "xb", "b1", "x")],
    "bool": [vbool(False), vbool(True)],
    "datetime": [vts(n) for n in range(0, 6)],
}
DTYPES = ["int64", "float64", "str", "bool", "datetime"]
NAMES = ["a", "b", "c", "ab", "x1", "b1", "ax"]


def can_null(dtype): return dtype not in ("int64", "bool")


def gen_check(rng: random.Random, dtype: str, data_can_null=True):
    pool = POOL[dtype]
    pick = lambda: rng.choice(pool)
    kinds = ["eq", "ne", "isin", "notin"]
    if dtype in ("int64", "float64", "datetime", "str"):
        kinds += ["gt", "ge", "lt", "le", "inRange", "inRange"]
    if dtype == "str":
        kinds += ["strStartswith", "strEndswith", "strLength", "strMatches", "strContains"] * 2
    k = rng.choice(kinds)
    if k in ("eq", "ne", "gt", "ge", "lt", "le"):
        b = {k: {"v": pick()}}
    elif k == "inRange":
        lo, hi = pick(), pick()
        if to_py(hi) < to_py(lo):
            lo, hi = hi, lo
        il, ih = rng.random() < 0.5, rng.random() < 0.5
        if to_py(lo) == to_py(hi):
            il = ih = True
        b = {k: {"lo": lo, "hi": hi, "incLo": il, "incHi": ih}}
    elif k in ("isin", "notin"):
        b = {k: {"vs": rng.sample(pool, rng.randint(1, min(3, len(pool))))}}
    elif k in ("strStartswith", "strEndswith"):
        b = {k: {"s": rng.choice(["a", "b", "ab", "", "x"])}}
    elif k == "strLength":
        lo = rng.choice([None, 0, 1, 2])
        hi = rng.choice([None, 1, 2, 3])
        if lo is None and hi is None:
            lo = 1
        b = {k: {"lo": lo, "hi": hi}}
    else:
        b = {k: {"p": gen_pat(rng)}}
    return {"b": b, "ignoreNa": rng.random() < 0.7}


def gen_colspec(rng: random.Random, name, dtype, regex=None, nchecks=None):
    nchecks = rng.choice([0, 0, 1, 1, 2]) if nchecks is None else nchecks
    return {
        "name": name, "regex": regex,
        "dtype": dtype if rng.random() < 0.85 else None,
        "nullable": rng.random() < 0.4, "unique": rng.random() < 0.25,
        "required": rng.random() < 0.85, "coerce": False,
        "reportDup": rng.choice(["first", "last", "none"]),
        "checks": [gen_check(rng, dtype) for _ in range(nchecks)],
        "default": None,
    }


def satisfying_pool(spec, dtype):
    """values of the pool that satisfy all of the spec's checks (evaluated by pandera itself is
    not available here without running it, so this uses a light python evaluation)"""
    return POOL[dtype]


def gen_values(rng: random.Random, dtype, n, null_rate=0.15, dup_rate=0.3):
    pool = POOL[dtype]
    vals = []
    for _ in range(n):
        if vals and rng.random() < dup_rate:
            vals.append(rng.choice(vals))
        elif can_null(dtype) and rng.random() < null_rate:
            vals.append(NULL)
        else:
            vals.append(rng.choice(pool))
    return vals

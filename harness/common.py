"""Shared machinery for every property check (see DESIGN.md §2.3).

A check is: regenerate Generated/*.lean from /repo -> build the property's Lean
root (proof obligations) -> axiom audit -> differential correspondence between
the Lean model (line-protocol driver) and the real pandera -> decision rule ->
evidence file.
"""
from __future__ import annotations

import fcntl
import hashlib
import json
import os
import random
import re
import subprocess
import sys
import time
from pathlib import Path

VERIF = Path(__file__).resolve().parent.parent
LEAN = VERIF / "lean"
REPO = Path(os.environ.get("VERIF_REPO", "/repo"))
EVIDENCE = VERIF / "evidence"
REPLAYS = VERIF / "replays"
CORPUS = VERIF / "corpus"
ALLOWED_AXIOMS = {"propext", "Classical.choice", "Quot.sound"}
FORBIDDEN = re.compile(
    r"\bsorry\b|\badmit\b|^axiom\s|native_decide|bv_decide|implemented_by|\bunsafe\s|maxHeartbeats\s+0"
)

TRUSTED_BASE = [
    "Lean 4.33.0 kernel (thorough tier: re-checked with leanchecker)",
    "axioms allowed: propext, Classical.choice, Quot.sound (audited with #print axioms on every run)",
    "the specification definitions in lean/PanderaModel (Spec.lean and per-property spec functions)",
    "the Python extractors in /verif/extract and the concretiser/abstracter in /verif/harness",
    "differential correspondence on generated inputs as the evidence that the hand-written model matches pandas/polars/pandera",
]


def seed() -> int:
    try:
        return int(os.environ.get("VERIF_SEED", "0"))
    except ValueError:
        return 0


def rng_for(prop: str, salt: str = "") -> random.Random:
    h = hashlib.sha256(f"{prop}:{seed()}:{salt}".encode()).hexdigest()
    return random.Random(int(h[:16], 16))


# --------------------------------------------------------------------------
# Lean side
# --------------------------------------------------------------------------

class LeanLock:
    def __enter__(self):
        (LEAN / ".lake").mkdir(exist_ok=True)
        self.f = open(LEAN / ".lake" / "verif.lock", "w")
        fcntl.flock(self.f, fcntl.LOCK_EX)
        return self

    def __exit__(self, *a):
        fcntl.flock(self.f, fcntl.LOCK_UN)
        self.f.close()


def write_if_changed(path: Path, text: str) -> bool:
    path.parent.mkdir(parents=True, exist_ok=True)
    if path.exists() and path.read_text() == text:
        return False
    path.write_text(text)
    return True


def lake_build(targets: list[str], timeout: int = 1500) -> tuple[bool, str]:
    with LeanLock():
        p = subprocess.run(
            ["lake", "build", *targets], cwd=LEAN, capture_output=True, text=True, timeout=timeout
        )
    return p.returncode == 0, (p.stdout + p.stderr)


def lean_run_file(relpath: str, stdin: str | None = None, timeout: int = 1500) -> tuple[int, str, str]:
    p = subprocess.run(
        ["lake", "env", "lean", relpath] if stdin is None else ["lake", "env", "lean", "--run", relpath],
        cwd=LEAN, input=stdin, capture_output=True, text=True, timeout=timeout,
    )
    return p.returncode, p.stdout, p.stderr


def theorems_in(module_rel: str) -> list[str]:
    """fully qualified names of the theorems declared in a Props file"""
    src = (LEAN / module_rel).read_text()
    ns: list[str] = []
    out = []
    for line in src.splitlines():
        m = re.match(r"\s*namespace\s+(\S+)", line)
        if m:
            ns.append(m.group(1))
            continue
        m = re.match(r"\s*end\s+(\S+)", line)
        if m and ns and ns[-1] == m.group(1):
            ns.pop()
            continue
        m = re.match(r"\s*(?:@\[[^\]]*\]\s*)?(?:private\s+|protected\s+)?theorem\s+(\S+)", line)
        if m:
            out.append(".".join(ns + [m.group(1)]))
    return out


def strip_comments(src: str) -> str:
    src = re.sub(r"/-.*?-/", "", src, flags=re.S)
    return re.sub(r"--.*", "", src)


def grep_forbidden() -> list[str]:
    hits = []
    for p in list((LEAN / "PanderaModel").rglob("*.lean")):
        for i, line in enumerate(strip_comments(p.read_text()).splitlines(), 1):
            if FORBIDDEN.search(line):
                hits.append(f"{p.relative_to(LEAN)}:{i}: {line.strip()}")
    return hits


def audit(prop: str, props_modules: list[str]) -> dict:
    """Build the property's roots, then #print axioms for every theorem in them.

    Returns obligations / discharged / failures."""
    t0 = time.time()
    res = {"obligations": 0, "discharged": 0, "failures": [], "theorems": [], "axioms": {}}
    targets = [m for m in props_modules]
    ok, out = lake_build(targets)
    thms: list[str] = []
    for m in props_modules:
        thms += theorems_in(m.replace(".", "/") + ".lean")
    res["theorems"] = thms
    res["obligations"] = len(thms)
    if not ok:
        # find which modules failed
        failed = re.findall(r"^✖ \[\d+/\d+\] (?:Building|Built) (\S+)", out, flags=re.M)
        errs = [l for l in out.splitlines() if "error" in l][:20]
        res["failures"].append({"kind": "build", "modules": failed, "errors": errs})
        res["build_log_tail"] = out[-3000:]
        res["wall_s"] = time.time() - t0
        return res
    hits = grep_forbidden()
    if hits:
        res["failures"].append({"kind": "forbidden-token", "hits": hits})
    audit_src = "\n".join(f"import {m}" for m in props_modules) + "\n" + "\n".join(
        f"#print axioms {t}" for t in thms
    ) + "\n"
    write_if_changed(LEAN / "Audit" / f"{prop}.lean", audit_src)
    rc, so, se = lean_run_file(f"Audit/{prop}.lean")
    txt = so + se
    for t in thms:
        m = re.search(
            r"'" + re.escape(t) + r"' (does not depend on any axioms|depends on axioms: \[([^\]]*)\])", txt, flags=re.S
        )
        if not m:
            res["failures"].append({"kind": "audit-missing", "theorem": t})
            continue
        axs = [a.strip() for a in (m.group(2) or "").replace("\n", " ").split(",") if a.strip()]
        res["axioms"][t] = axs
        bad = [a for a in axs if a not in ALLOWED_AXIOMS]
        if bad:
            res["failures"].append({"kind": "axiom", "theorem": t, "axioms": bad})
        else:
            res["discharged"] += 1
    if hits:
        res["discharged"] = 0
    if os.environ.get("VERIF_TIER_ACTIVE") == "thorough" and not res["failures"]:
        # independent re-check of the compiled property modules (and everything they import) by the toolchain's
        # stand-alone checker: replays every declaration through the kernel, outside `lean` itself
        try:
            ok2, out2 = leanchecker(props_modules)
            res["leanchecker"] = {"ok": ok2, "modules": props_modules, "tail": out2[-300:]}
            if not ok2:
                res["failures"].append({"kind": "leanchecker", "modules": props_modules, "errors": [out2[-600:]]})
        except subprocess.TimeoutExpired:
            res["leanchecker"] = {"ok": None, "note": "timed out; not counted"}
    res["wall_s"] = time.time() - t0
    return res


def leanchecker(mods: list[str], timeout: int = 1500) -> tuple[bool, str]:
    p = subprocess.run(["lake", "env", "leanchecker", *mods], cwd=LEAN, capture_output=True, text=True, timeout=timeout)
    return p.returncode == 0, (p.stdout + p.stderr)[-2000:]


def run_driver(driver: str, cases: list[dict], timeout: int = 1500) -> list[dict]:
    """pipe one JSON object per line to lean --run Driver/<driver>.lean"""
    # only this driver: a proof obligation of another property that fails on the current tree must not
    # take this property's check down with it (drivers import model and generated files, never Props)
    ok, out = lake_build([f"Driver.{driver}"])
    if not ok:
        raise InfraError("driver build failed:\n" + out[-3000:])
    data = "\n".join(json.dumps(c, separators=(",", ":")) for c in cases) + "\n"
    p = subprocess.run(
        ["lake", "env", "lean", "--run", f"Driver/{driver}.lean"],
        cwd=LEAN, input=data, capture_output=True, text=True, timeout=timeout,
    )
    if p.returncode != 0:
        raise InfraError(f"driver {driver} failed: {p.stderr[-3000:]}")
    lines = [l for l in p.stdout.splitlines() if l.strip()]
    if len(lines) != len(cases):
        raise InfraError(f"driver {driver}: {len(lines)} answers for {len(cases)} cases\n{p.stderr[-2000:]}")
    return [json.loads(l) for l in lines]


def warm_up_backends():
    """Register every pandera backend / built-in check implementation before schemas are built.

    Check equality compares the bytecode of all functions registered in a check's dispatcher; schema
    components that were deep-copied before the first validation (which registers further
    implementations lazily) would otherwise compare unequal to components built afterwards."""
    import warnings
    with warnings.catch_warnings():
        warnings.simplefilter("ignore")
        import pandas as pd
        import pandera as pa
        try:
            pa.DataFrameSchema({"a": pa.Column(int, pa.Check.gt(0))},
                               index=pa.MultiIndex([pa.Index(int, name="i"), pa.Index(int, name="j")])).validate(
                pd.DataFrame({"a": [1]}, index=pd.MultiIndex.from_tuples([(1, 2)], names=["i", "j"])))
        except Exception:  # noqa: BLE001
            pass
        try:
            import polars as pl
            import pandera.polars as pap
            pap.DataFrameSchema({"a": pap.Column(int, pap.Check.gt(0))}).validate(pl.DataFrame({"a": [1]}))
        except Exception:  # noqa: BLE001
            pass


class InfraError(Exception):
    pass


# --------------------------------------------------------------------------
# findings, reporting, evidence
# --------------------------------------------------------------------------

def known_findings(prop: str) -> dict[str, dict]:
    f = VERIF / "known_findings.json"
    if not f.exists():
        return {}
    data = json.loads(f.read_text())
    return {e["region"]: e for e in data.get("findings", []) if e["property"] == prop}


class Report:
    """Collects the outcome of one check run and applies the decision rule."""

    def __init__(self, prop: str, tier: str):
        self.prop = prop
        self.tier = tier
        self.t0 = time.time()
        self.known = known_findings(prop)
        self.rule_is_full_run = True
        self.known_hit: dict[str, dict] = {}
        self.violations: list[dict] = []
        self.corr_breaks: list[dict] = []
        self.evaluations = 0
        self.nontrivial: set[str] = set()
        self.samples: list = []
        self.dist: dict[str, int] = {}
        self.audit: dict = {}
        self.extra: dict = {}
        self.notes: list[str] = []
        self.traces_validated = 0

    # -- bookkeeping ------------------------------------------------------
    def count(self, key: str, n: int = 1):
        self.dist[key] = self.dist.get(key, 0) + n

    def case(self, case, nontrivial: bool = True, sample: bool = False):
        self.evaluations += 1
        if nontrivial:
            self.nontrivial.add(hashlib.sha1(json.dumps(case, sort_keys=True, default=str).encode()).hexdigest())
        if sample or len(self.samples) < 3:
            if len(self.samples) < 6:
                self.samples.append(case)

    # -- outcomes ---------------------------------------------------------
    def property_failure(self, case, what: str, region: str | None = None, detail=None):
        """The property fails on the implementation for this case."""
        if region is not None and region in self.known:
            if region not in self.known_hit:
                self.known_hit[region] = {"case": case, "what": what}
            self.count("known:" + region)
            return
        self.violations.append({"case": case, "what": what, "region": region, "detail": detail})

    def correspondence_break(self, case, what: str, detail=None):
        """model and implementation disagree but the property itself holds here"""
        self.corr_breaks.append({"case": case, "what": what, "detail": detail})

    # -- finish -----------------------------------------------------------
    def finish(self, rule: str, level_note: list[str] | None = None, exhaustive: bool = False) -> int:
        if rule.startswith("replay"):
            self.rule_is_full_run = False
        REPLAYS.mkdir(exist_ok=True)
        EVIDENCE.mkdir(exist_ok=True)
        rc = 0
        for region, hit in self.known_hit.items():
            print(f"KNOWN-FINDING: property={self.prop} {region}: {self.known[region]['what']}")
        if self.rule_is_full_run:
            # every listed finding of this property gets its line; the ones this run's sample did not reach say so
            for region, f in self.known.items():
                if region not in self.known_hit:
                    print(f"KNOWN-FINDING: property={self.prop} {region}: {f['what']} [listed; not reached by this "
                          f"run's cases (seed {seed()}, tier {self.tier})]")
        proof_broken = bool(self.audit.get("failures")) or (
            self.audit and self.audit.get("discharged") != self.audit.get("obligations")
        )
        if self.violations:
            v = self.violations[0]
            path = REPLAYS / f"{self.prop}-{seed()}.json"
            path.write_text(json.dumps(
                {"property": self.prop, "kind": "failing-input", "what": v["what"], "case": v["case"],
                 "detail": v["detail"], "more": len(self.violations) - 1,
                 "violation_classes": _classes(self.violations),
                 "broken_obligations": self.audit.get("failures", []),
                 "correspondence_breaks": self.corr_breaks[:3]}, indent=1, default=str))
            print(f"VIOLATION property={self.prop} replay={path}")
            rc = 1
        elif proof_broken or self.corr_breaks:
            path = REPLAYS / f"{self.prop}-{seed()}.json"
            path.write_text(json.dumps(
                {"property": self.prop, "kind": "no-failing-input-found",
                 "broken_obligations": self.audit.get("failures", []),
                 "build_log_tail": self.audit.get("build_log_tail"),
                 "correspondence_breaks": self.corr_breaks[:5],
                 "correspondence_break_classes": _classes(self.corr_breaks),
                 "searched": self.evaluations}, indent=1, default=str))
            print(f"VIOLATION property={self.prop} replay={path} no-failing-input-found")
            rc = 1
        if rc == 0:
            stale = REPLAYS / f"{self.prop}-{seed()}.json"
            if stale.exists():
                stale.unlink()
        ev = {
            "property_id": self.prop,
            "tier": self.tier,
            "seed": seed(),
            "level": "proof",
            "coverage": {
                "obligations": max(1, self.audit.get("obligations", 0)),
                "discharged": self.audit.get("discharged", 0),
                "checker_cmd": f"cd lean && lake build {' '.join(self.audit.get('modules', []))} && lake env lean Audit/{self.prop}.lean",
                "trusted_base": TRUSTED_BASE + (level_note or []),
                "theorems": self.audit.get("theorems", []),
                "axioms": self.audit.get("axioms", {}),
                "evaluations": max(1, self.evaluations),
                "distinct_nontrivial": len(self.nontrivial),
                "rule": rule,
                "samples": self.samples[:6] or ["(none)"],
                "traces_validated_against_impl": self.traces_validated or self.evaluations,
                "distribution": dict(sorted(self.dist.items())),
                "known_findings_hit": sorted(self.known_hit),
                "correspondence_breaks": len(self.corr_breaks),
                "exhaustive": exhaustive,
                "source_tree": _source_tree(),
                **self.extra,
            },
            "assumptions": self.notes,
            "wall_s": round(time.time() - self.t0, 2),
            "violations": len(self.violations) + (1 if rc == 1 and not self.violations else 0),
        }
        (EVIDENCE / f"{self.prop}.json").write_text(json.dumps(ev, indent=1, default=str))
        return rc


def _source_tree() -> dict:
    """which pandera the harness ran against (path of the imported package, tree and commit the translators read)"""
    out = {"translators_read": str(REPO)}
    try:
        import pandera
        out["pandera_imported_from"] = os.path.dirname(pandera.__file__)
    except Exception as e:  # noqa: BLE001
        out["pandera_imported_from"] = f"not imported in the harness process ({type(e).__name__})"
    try:
        out["commit"] = subprocess.run(["git", "-C", str(REPO), "rev-parse", "--short", "HEAD"], capture_output=True,
                                       text=True).stdout.strip()
        out["dirty"] = bool(subprocess.run(["git", "-C", str(REPO), "status", "--porcelain", "--", "pandera"],
                                           capture_output=True, text=True).stdout.strip())
    except Exception:  # noqa: BLE001
        pass
    return out


def _classes(items: list[dict]) -> dict:
    out: dict[str, int] = {}
    for v in items:
        k = re.sub(r"\d+", "#", str(v.get("what", "")))[:90]
        out[k] = out.get(k, 0) + 1
    return dict(sorted(out.items(), key=lambda kv: -kv[1])[:25])


def corpus_cases(prop: str) -> list[dict]:
    d = CORPUS / prop
    if not d.exists():
        return []
    out = []
    for f in sorted(d.glob("*.json")):
        try:
            out.append(json.loads(f.read_text()))
        except Exception:
            pass
    return out


def shrink_list(items: list, still_fails) -> list:
    """ddmin-style one-at-a-time removal"""
    changed = True
    while changed:
        changed = False
        for i in range(len(items)):
            cand = items[:i] + items[i + 1:]
            try:
                if still_fails(cand):
                    items = cand
                    changed = True
                    break
            except Exception:
                continue
    return items

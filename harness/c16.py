"""C16 — a DataFrameModel means the same as the DataFrameSchema it describes.

Tie: (T) Generated/ModelRules.lean (override rules of the check / parser collectors, non-consuming
to_check / to_parser) with a `decide` obligation in Props/C16.lean; (D) generated class hierarchies
(linear chains of depth 1-4 with overriding fields, Fields, checks, parsers, dataframe checks,
Config options) built with `exec`, whose compiled schema is compared attribute by attribute with the
Lean model of the compiler (Driver/C16.lean), plus the property on the implementation: equal
verdicts of Model.validate and of the object-API schema built from the specification, stability of
to_schema (also across cleared caches), parents unaffected by defining / compiling subclasses in
either order; pandas and polars.
"""
from __future__ import annotations

import itertools
import json
import warnings

import pandas as pd

from . import absdata as A
from .common import Report, audit, corpus_cases, rng_for, run_driver, warm_up_backends
from .regen import regenerate

PROP = "C16"
MODULES = ["PanderaModel.Props.C16"]

ATTRS = ["a", "b", "c", "d"]
DTYPES = ["int", "float", "str"]
PRED = {"gt-5": "s > -5", "lt99": "s < 99", "ne7": "s != 7", "notnull": "s.notna()", "len": "s.astype(str).str.len() < 9",
        # reads a constant of the class the check is *called for* (every class of a chain defines its own `_limit`)
        "lim": "s < cls._limit"}
LIMITS = [200, 100, 5, 2, 1]
REGEX_TARGETS = [{"chr": {"c": "a"}}, {"cls": {"cs": ["b", "c"]}}, {"alt": {"a": {"chr": {"c": "a"}}, "b": {"chr": {"c": "d"}}}},
                 {"seq": {"a": {"chr": {"c": "a"}}, "b": {"chr": {"c": "_"}}}}, "any"]
DFPRED = {"rows": "len(df) < 50", "cols": "df.shape[1] < 9"}
PARSE = {"+1": "s + 1", "*2": "s * 2", "id": "s"}
CONFIG_OPTS = {"strict": [True, False], "ordered": [True, False], "coerce": [True, False],
               "title": ["T1", "T2"], "description": ["D1"], "unique_column_names": [True, False],
               "add_missing_columns": [False], "drop_invalid_rows": [False]}
FIELD_OWN = {"int": ["ge=-100", "le=1000", "ne=12345"], "float": ["ge=-100.0", "lt=1000.0"], "str": ["str_length={'min_value': 0}"]}


def gen_chain(rng, backend="pandas"):
    depth = rng.choice([1, 2, 2, 3, 3, 4])
    chain, annotated = [], {}
    for k in range(depth):
        cls = {"cname": f"M{k}", "fields": [], "checks": [], "dfChecks": [], "parsers": [], "dfParsers": [], "config": None}
        for attr in ATTRS:
            r = rng.random()
            if k == 0:
                kind = "both" if r < 0.45 else "ann" if r < 0.75 else None
            else:
                kind = ("both" if r < 0.15 else "ann" if r < 0.25 else "field" if (r < 0.35 and attr in annotated) else None)
            if kind is None:
                continue
            ann = None
            if kind in ("both", "ann"):
                dt = annotated.get(attr, (rng.choice(DTYPES),))[0] if (attr in annotated and rng.random() < 0.7) \
                    else rng.choice(DTYPES)
                ann = [dt, rng.random() < 0.2]
                annotated[attr] = ann
            field = None
            if kind in ("both", "field"):
                dt = annotated[attr][0]
                field = {"nullable": rng.random() < 0.3, "unique": rng.random() < 0.15, "coerce": rng.random() < 0.3,
                         "title": rng.choice([None, None, f"t{k}"]), "description": rng.choice([None, None, f"d{k}"]),
                         "metadata": rng.choice([None, None, {"k": k}]),
                         "own": rng.sample(FIELD_OWN[dt], rng.choice([0, 0, 1])) if dt in FIELD_OWN else [],
                         # an alias; now and then the empty string, a legal column label that is falsy
                         "alias": (lambda r: f"{attr}_x" if r < 0.08 else "" if (r < 0.11 and attr == "a") else None)(rng.random())}
            cls["fields"].append({"attr": attr, "ann": ann, "field": field})
        have = sorted(annotated)
        if have:
            for m in rng.sample(["c1", "c2", "c3"], rng.choice([0, 1, 1, 2])):
                tg = rng.sample(have, rng.randint(1, min(2, len(have))))
                chk = {"mname": m, "targets": tg, "regex": False, "pred": rng.choice(sorted(PRED)),
                       "name": rng.choice([None, None, f"named_{m}"]), "cls": k}
                if rng.random() < 0.2:
                    # fields selected by a pattern that covers only the beginning of their names (`re.match` semantics)
                    chk["regex"] = True
                    chk["pats"] = [rng.choice(REGEX_TARGETS)]
                    chk["targets"] = []
                cls["checks"].append(chk)
            if backend == "pandas":
                for m in rng.sample(["p1", "p2"], rng.choice([0, 0, 1])):
                    cls["parsers"].append({"mname": m, "targets": rng.sample(have, 1), "regex": False,
                                           "fn": rng.choice(sorted(PARSE)), "name": rng.choice([None, f"named_{m}"]), "cls": k})
        for m in rng.sample(["d1", "d2"], rng.choice([0, 0, 1])):
            cls["dfChecks"].append({"mname": m, "pred": rng.choice(sorted(DFPRED)), "name": rng.choice([None, f"named_{m}"]),
                                    "cls": k})
        if rng.random() < 0.5:
            opts = rng.sample(sorted(CONFIG_OPTS), rng.randint(0, 3))
            cls["config"] = {o: rng.choice(CONFIG_OPTS[o]) for o in opts}
            if rng.random() < 0.2:
                cls["config"]["name"] = f"custom{k}"
        chain.append(cls)
    case = {"backend": backend, "chain": chain}
    # the same classes wired as a diamond (M1 and M2 derive from M0, M3 from both) or with M3 joining in the other order
    if depth == 4 and rng.random() < 0.5:
        case["bases"] = rng.choice([[[], [0], [0], [1, 2]], [[], [0], [0], [2, 1]], [[], [0], [1], [2, 0]][:3] + [[2]]])
    return case


def lineages_of(case):
    """for every class the classes it inherits from, most basic first — Python's own MRO (C3) on plain classes"""
    n = len(case["chain"])
    bases = case.get("bases") or [[] if i == 0 else [i - 1] for i in range(n)]
    dummies = []
    for i in range(n):
        dummies.append(type(f"D{i}", tuple(dummies[j] for j in bases[i]) or (object,), {}))
    return [[dummies.index(k) for k in reversed(d.__mro__) if k is not object] for d in dummies]


# ---- source generation ------------------------------------------------------------------------------

def payload_check(m):
    return f"check:{m['mname']}@{m['cls']}:{m['pred']}:{m['name']}"


def payload_parser(m):
    return f"parser:{m['mname']}@{m['cls']}:{m['fn']}:{m['name']}"


def field_expr(f):
    kw = []
    for k in ("nullable", "unique", "coerce", "title", "description", "metadata", "alias"):
        if f.get(k) not in (None, False):
            kw.append(f"{k}={f[k]!r}")
    kw += f["own"]
    return "pa.Field(" + ", ".join(kw) + ")"


def A_pat(p_):
    from . import absdata as A_
    return A_.pat_render(p_)


def class_source(cls, base, pol):
    lines = [f"class {cls['cname']}({base}):"]
    body = [f"_limit = {LIMITS[int(cls['cname'][1:])]}"]
    for f in cls["fields"]:
        ann = None
        if f["ann"] is not None:
            ann = f["ann"][0]
            if f["ann"][1]:
                ann = f"typing.Optional[{ann}]"
        if ann and f["field"] is not None:
            body.append(f"{f['attr']}: {ann} = {field_expr(f['field'])}")
        elif ann:
            body.append(f"{f['attr']}: {ann}")
        else:
            body.append(f"{f['attr']} = {field_expr(f['field'])}")
    for m in cls["checks"]:
        kw = f", name={m['name']!r}" if m["name"] else ""
        tg = ", ".join(repr(t) for t in m["targets"])
        if m.get("regex"):
            tg = ", ".join(repr(A_pat(p_)) for p_ in m["pats"])
            kw += ", regex=True"
        expr = PRED[m["pred"]] if not pol else {"gt-5": "s.lazyframe.select(pl.col(s.key) > -5)",
                                                "lt99": "s.lazyframe.select(pl.col(s.key) < 99)",
                                                "ne7": "s.lazyframe.select(pl.col(s.key) != 7)",
                                                "notnull": "s.lazyframe.select(pl.col(s.key).is_not_null())",
                                                "len": "s.lazyframe.select(pl.col(s.key).cast(pl.String).str.len_chars() < 9)",
                                                "lim": "s.lazyframe.select(pl.col(s.key) < cls._limit)"}[m["pred"]]
        body += [f"@pa.check({tg}{kw}, description={payload_check(m)!r})", f"def {m['mname']}(cls, s):", f"    return {expr}"]
    for m in cls["parsers"]:
        kw = f", name={m['name']!r}" if m["name"] else ""
        tg = ", ".join(repr(t) for t in m["targets"])
        body += [f"@pa.parser({tg}{kw}, description={payload_parser(m)!r})", f"def {m['mname']}(cls, s):",
                 f"    return {PARSE[m['fn']]}"]
    for m in cls["dfChecks"]:
        kw = f"name={m['name']!r}, " if m["name"] else ""
        expr = DFPRED[m["pred"]] if not pol else {"rows": "True", "cols": "True"}[m["pred"]]
        body += [f"@pa.dataframe_check({kw}description={payload_check(m)!r})", f"def {m['mname']}(cls, df):",
                 f"    return {expr}"]
    if cls["config"] is not None:
        body.append("class Config:")
        body += [f"    {k} = {v!r}" for k, v in cls["config"].items()] or ["    pass"]
    if not body:
        body = ["pass"]
    return "\n".join(lines + ["    " + b for b in body]) + "\n"


def build_classes(case, upto=None, order=None):
    """exec the chain; returns {cname: class}"""
    pol = case["backend"] == "polars"
    if pol:
        import pandera.polars as pa
        import polars as pl
        ns = {"pa": pa, "pl": pl, "typing": __import__("typing")}
        root = "pa.DataFrameModel"
    else:
        import pandera as pa
        ns = {"pa": pa, "typing": __import__("typing")}
        root = "pa.DataFrameModel"
    n = len(case["chain"])
    bases = case.get("bases") or [[] if i == 0 else [i - 1] for i in range(n)]
    for i, cls in enumerate(case["chain"][:upto]):
        base = ", ".join(case["chain"][j]["cname"] for j in bases[i]) or root
        exec(compile(class_source(cls, base, pol), "<c16>", "exec", dont_inherit=True), ns)  # noqa: S102
    return ns


# ---- model side ---------------------------------------------------------------------------------------

def canon_field(f):
    """Field options as the model's attribute map (alias kept for column naming)"""
    if f is None:
        return None
    out = [["nullable", repr(bool(f["nullable"]))], ["unique", repr(bool(f["unique"]))], ["coerce", repr(bool(f["coerce"]))],
           ["title", repr(f["title"])], ["description", repr(f["description"])], ["metadata", repr(f["metadata"])],
           ["own", ";".join(f["own"])]]
    if f.get("alias") is not None:
        out.append(["alias", f["alias"]])
    return out


DEFAULT_OPTS = [["nullable", "False"], ["unique", "False"], ["coerce", "False"], ["title", "None"], ["description", "None"],
                ["metadata", "None"], ["own", ""]]


def model_case(case):
    chain = []
    for cls in case["chain"]:
        cfg = dict(cls["config"] or {})
        cfg.setdefault("name", cls["cname"])           # __init_subclass__ names every Config after its class
        chain.append({
            "cname": cls["cname"],
            "fields": [{"attr": f["attr"], "ann": f["ann"], "field": canon_field(f["field"])} for f in cls["fields"]],
            "checks": [{"mname": m["mname"], "targets": ([{"pat": p_} for p_ in m["pats"]] if m.get("regex") else m["targets"]),
                        "regex": bool(m.get("regex")), "payload": payload_check(m)}
                       for m in cls["checks"]],
            "dfChecks": [{"mname": m["mname"], "targets": [], "regex": False, "payload": payload_check(m)} for m in cls["dfChecks"]],
            "parsers": [{"mname": m["mname"], "targets": m["targets"], "regex": m["regex"], "payload": payload_parser(m)}
                        for m in cls["parsers"]],
            "dfParsers": [],
            "config": [[k, repr(v)] for k, v in cfg.items()]})
    return {"chain": chain, "lineages": lineages_of(case)}


DT = {"int": "int64", "float": "float64", "str": "str", "Int64": "int64", "Float64": "float64", "String": "str"}


def fp_impl(S, pol):
    cols = []
    for k, c in S.columns.items():
        own = [x for x in c.checks if x.description is None]
        meth = [x for x in c.checks if x.description is not None]
        opts = [["nullable", repr(c.nullable)], ["unique", repr(c.unique)], ["coerce", repr(c.coerce)],
                ["title", repr(c.title)], ["description", repr(c.description)], ["metadata", repr(c.metadata)],
                ["own", len(own)]]
        cols.append({"name": k, "dtype": DT.get(str(c.dtype), str(c.dtype)), "required": c.required, "opts": opts,
                     "checks": [[x.description, x.name] for x in meth],
                     "parsers": [[p.description, p.name] for p in getattr(c, "parsers", [])]})
    cfg = {k: getattr(S, k) for k in ("strict", "ordered", "title", "description", "unique_column_names", "add_missing_columns",
                                       "drop_invalid_rows", "name")}
    cfg["coerce"] = S._coerce if hasattr(S, "_coerce") else S.coerce
    return {"columns": cols, "dfChecks": [[x.description, x.name] for x in S.checks], "config": cfg}


def fp_model(m):
    """the model's SchemaOut in the shape of fp_impl"""
    def named(payload):
        nm = payload.rsplit(":", 1)[1]
        fn = payload.split(":")[1].split("@")[0]
        return [payload, fn if nm == "None" else nm]
    cols = []
    for c in m["columns"]:
        opts = [[k, v] for k, v in c["opts"]] or None
        o = dict(c["opts"]) if c["opts"] else dict(DEFAULT_OPTS)
        own = o.get("own", "")
        cols.append({"name": c["name"], "dtype": DT.get(c["dtype"], c["dtype"]), "required": c["required"],
                     "opts": [[k, o.get(k, dict(DEFAULT_OPTS)[k])] for k, _ in DEFAULT_OPTS[:-1]] +
                             [["own", len([x for x in own.split(";") if x])]],
                     "checks": [named(p) for p in c["checks"]], "parsers": [named(p) for p in c["parsers"]]})
    defaults = {"strict": False, "ordered": False, "title": None, "description": None, "unique_column_names": False,
                "add_missing_columns": False, "drop_invalid_rows": False, "coerce": False}
    cfg = dict(defaults)
    for k, v in m["config"]:
        cfg[k] = eval(v)  # noqa: S307 (reprs of literals written by this harness)
    return {"columns": cols, "dfChecks": [named(p) for p in m["dfChecks"]], "config": cfg}


def diff(a, b):
    if a["config"] != b["config"]:
        return "config: " + ", ".join(f"{k}: spec {a['config'].get(k)!r} impl {b['config'].get(k)!r}" for k in a["config"]
                                      if a["config"].get(k) != b["config"].get(k))
    if a["dfChecks"] != b["dfChecks"]:
        return f"dataframe checks: spec {a['dfChecks']} impl {b['dfChecks']}"
    if [c["name"] for c in a["columns"]] != [c["name"] for c in b["columns"]]:
        return f"columns: spec {[c['name'] for c in a['columns']]} impl {[c['name'] for c in b['columns']]}"
    for ca, cb in zip(a["columns"], b["columns"]):
        for k in ca:
            if ca[k] != cb[k]:
                return f"column {ca['name']}.{k}: spec {ca[k]} impl {cb[k]}"
    return ""


# ---- verdicts -------------------------------------------------------------------------------------------

def probe_frames(spec_fp, rng):
    vals = {"int64": [1, 2, 3], "float64": [1.5, 2.5, 3.5], "str": ["x", "y", "z"]}
    bad = {"int64": [1, 7, 120], "float64": [1.5, 7.0, -20.5], "str": ["x", None, "waytoolongvalue"]}
    good = pd.DataFrame({c["name"]: vals[c["dtype"]] for c in spec_fp["columns"] if c["dtype"] in vals})
    frames = [good]
    for c in spec_fp["columns"][:2]:
        if c["dtype"] in bad:
            b = good.copy()
            b[c["name"]] = bad[c["dtype"]]
            frames.append(b)
        # values between the per-class limits of the `lim` predicate
        for hi in ((150, 50, 4) if c["dtype"] == "int64" else (150.5, 50.5, 4.5) if c["dtype"] == "float64" else ()):
            b = good.copy()
            b[c["name"]] = [good[c["name"]].iloc[0], good[c["name"]].iloc[1], hi]
            frames.append(b)
    if len(good.columns):
        frames.append(good.iloc[:, ::-1])
        frames.append(good.drop(columns=[good.columns[0]]))
        e = good.copy()
        e["zz"] = 1
        frames.append(e)
    return frames


def verdict(validate, df, pol):
    with warnings.catch_warnings():
        warnings.simplefilter("ignore")
        try:
            if pol:
                import polars as pl
                df = pl.from_pandas(df)
            out = validate(df, lazy=True)
            if pol:
                out = out.to_pandas()
            return "ok:" + json.dumps(out.astype(str).values.tolist())
        except Exception as e:  # noqa: BLE001
            n = type(e).__name__
            if n == "SchemaErrors":
                return "reject:" + ",".join(sorted({str(getattr(x.reason_code, "name", x.reason_code)) for x in e.schema_errors}))
            return "raise:" + n


def object_api_schema(case, spec, pol, target=None):
    """the object-API schema built from the specification (the Lean model's compiled schema) of class number `target`"""
    LIM = LIMITS[len(case["chain"]) - 1 if target is None else target]
    if pol:
        import pandera.polars as pa
        import polars as pl
    else:
        import pandera as pa
    by_payload = {}
    for cls in case["chain"]:
        for m in cls["checks"] + cls["dfChecks"] + cls["parsers"]:
            by_payload[(payload_check(m) if "pred" in m else payload_parser(m))] = m
    own_by_col = {}
    for cls in case["chain"]:
        for f in cls["fields"]:
            if f["field"] is not None or f["ann"] is not None:
                al = (f["field"] or {}).get("alias")
                own_by_col[al if al is not None else f["attr"]] = (f["field"] or {}).get("own", [])

    def mk_check(payload, df_level=False):
        m = by_payload[payload]
        name = m["name"] or m["mname"]
        if df_level:
            src = DFPRED[m["pred"]] if not pol else "True"
            return pa.Check(eval("lambda df: " + src), name=name, description=payload)  # noqa: S307
        if pol:
            src = {"gt-5": "s.lazyframe.select(pl.col(s.key) > -5)", "lt99": "s.lazyframe.select(pl.col(s.key) < 99)",
                   "ne7": "s.lazyframe.select(pl.col(s.key) != 7)", "notnull": "s.lazyframe.select(pl.col(s.key).is_not_null())",
                   "len": "s.lazyframe.select(pl.col(s.key).cast(pl.String).str.len_chars() < 9)",
                   "lim": f"s.lazyframe.select(pl.col(s.key) < {LIM})"}[m["pred"]]
            return pa.Check(eval("lambda s: " + src, {"pl": pl}), name=name, description=payload)  # noqa: S307
        return pa.Check(eval("lambda s: " + PRED[m["pred"]].replace("cls._limit", str(LIM))), name=name, description=payload)  # noqa: S307

    cols = {}
    for c in spec["columns"]:
        o = dict(c["opts"]) if c["opts"] else dict(DEFAULT_OPTS)
        own = [x for x in o.get("own", "").split(";") if x]
        own_checks = []
        for x in own:
            k, v = x.split("=", 1)
            val = eval(v)  # noqa: S307
            own_checks.append(getattr(pa.Check, k)(**val) if isinstance(val, dict) else getattr(pa.Check, k)(val))
        kw = dict(nullable=eval(o.get("nullable", "False")), unique=eval(o.get("unique", "False")),  # noqa: S307
                  coerce=eval(o.get("coerce", "False")), title=eval(o.get("title", "None")),  # noqa: S307
                  description=eval(o.get("description", "None")), metadata=eval(o.get("metadata", "None")),  # noqa: S307
                  required=c["required"], checks=own_checks + [mk_check(p) for p in c["checks"]])
        if not pol:
            kw["parsers"] = [pa.Parser(eval("lambda s: " + PARSE[by_payload[p]["fn"]]),  # noqa: S307
                                       name=by_payload[p]["name"] or by_payload[p]["mname"], description=p) for p in c["parsers"]]
        dt = {"int": int, "float": float, "str": str}[c["dtype"]]
        cols[c["name"]] = pa.Column(dt, **kw)
    cfg = {k: eval(v) for k, v in spec["config"]}  # noqa: S307
    return pa.DataFrameSchema(cols, checks=[mk_check(p, True) for p in spec["dfChecks"]], **cfg)


# ---- the run ---------------------------------------------------------------------------------------------

def clear_caches():
    from pandera.api.dataframe import model as mdl
    mdl.MODEL_CACHE.clear()


def compile_fp(cls, pol):
    with warnings.catch_warnings():
        warnings.simplefilter("ignore")
        try:
            return fp_impl(cls.to_schema(), pol)
        except Exception as e:  # noqa: BLE001
            return "raise:" + type(e).__name__


def run_cases(rep, cases, rng):
    answers = run_driver("C16", [model_case(c) for c in cases])
    for c, a in zip(cases, answers):
        pol = c["backend"] == "polars"
        if "error" in a:
            rep.correspondence_break(c, "driver: " + a["error"])
            continue
        try:
            ns = build_classes(c)
        except Exception as e:  # noqa: BLE001
            rep.count(f"{c['backend']}:class-definition-raises:" + type(e).__name__)
            continue
        rep.case(c, nontrivial=len(c["chain"]) > 1)
        rep.count(f"{c['backend']}:depth:{len(c['chain'])}")
        names = [cls["cname"] for cls in c["chain"]]
        clear_caches()
        failed = False
        # 1. every class of the chain means its specification (compile base first)
        impl_fps = []
        for i, nm in enumerate(names):
            spec = a["schemas"][i]
            got = compile_fp(ns[nm], pol)
            impl_fps.append(got)
            if isinstance(spec, str):
                rep.count(f"{c['backend']}:spec:{spec}")
                if got != "raise:SchemaInitError":
                    rep.property_failure(c, f"class {nm}: the specification is invalid ({spec}) but to_schema gives {str(got)[:80]}")
                    failed = True
                continue
            want = fp_model(spec)
            if isinstance(got, str):
                rep.property_failure(c, f"class {nm}: to_schema {got}, the specification compiles")
                failed = True
            elif got != want:
                rep.property_failure(c, f"class {nm}: compiled schema differs from its specification: {diff(want, got)}")
                failed = True
            else:
                rep.count(f"{c['backend']}:class-matches-spec")
        if failed:
            continue
        # 2. stability: again, and from cleared caches
        for i, nm in enumerate(names):
            if compile_fp(ns[nm], pol) != impl_fps[i]:
                rep.property_failure(c, f"class {nm}: a second to_schema() differs from the first")
                failed = True
        clear_caches()
        # 3. most derived class first, then its parents: nobody's schema may depend on the order
        for i in reversed(range(len(names))):
            if compile_fp(ns[names[i]], pol) != impl_fps[i]:
                rep.property_failure(c, f"class {names[i]}: its schema depends on the order in which the hierarchy was "
                                        f"compiled (subclass first): {diff(impl_fps[i], compile_fp(ns[names[i]], pol)) if not isinstance(impl_fps[i], str) else ''}")
                failed = True
                break
        # 4. defining the chain again (fresh classes) and compiling only the parent: unaffected by its subclasses
        if not failed and len(names) > 1:
            clear_caches()
            ns2 = build_classes(c, upto=1)
            if compile_fp(ns2[names[0]], pol) != impl_fps[0]:
                rep.property_failure(c, "the base class compiles differently when its subclasses do not exist")
                failed = True
        # 5. verdicts: Model.validate vs the object-API schema of the specification
        for ci in (range(len(names)) if not failed else ()):
            spec = a["schemas"][ci]
            if failed or isinstance(spec, str):
                continue
            try:
                S = object_api_schema(c, spec, pol, target=ci)
            except Exception as e:  # noqa: BLE001
                rep.count("object-api-unbuildable:" + type(e).__name__)
                continue
            M = ns[names[ci]]
            for df in probe_frames(fp_model(spec), rng):
                v1, v2 = verdict(M.validate, df, pol), verdict(S.validate, df, pol)
                rep.count(f"{c['backend']}:verdict:" + v1.split(":")[0])
                if v1 != v2:
                    rep.property_failure(c, f"class {names[ci]}: Model.validate gives {v1[:90]}, the object-API schema "
                                            f"of its specification {v2[:90]}")
                    failed = True
                    break


def check_fp(c):
    return [c.name, sorted((k, repr(v)) for k, v in (c.statistics or {}).items()), c.ignore_na, c.raise_warning,
            c.n_failure_cases, bool(c.element_wise)]


FIELD_FORMS = [("int", "ge", "3"), ("int", "in_range", "{'min_value': 1, 'max_value': 5}"), ("int", "isin", "[1, 2, 3]"),
               ("int", "notin", "[7]"), ("int", "eq", "4"), ("float", "lt", "2.5"),
               ("float", "in_range", "{'min_value': 0.0, 'max_value': 1.0, 'include_min': False}"),
               ("str", "str_length", "{'min_value': 1, 'max_value': 4}"), ("str", "str_length", "{'max_value': 3}"),
               ("str", "str_startswith", "'a'"), ("str", "isin", "['na', 'b']"), ("str", "str_matches", "'^a'")]
CHECK_OPTS = [{}, {"ignore_na": False}, {"raise_warning": True}, {"n_failure_cases": 1}, {"ignore_na": False, "raise_warning": True}]
EXTRA_FORMS = [("isin", "[0, 1, 2, 3]"), ("notin", "['na']"), ("notin", "[7, 8]"), ("in_range", "(0, 5)"),
               ("in_range", "{'min_value': 0, 'max_value': 5}"), ("ge", "0"), ("str_length", "(1, 3)"),
               ("eq", "'x'")]


def forms_sweep(rep):
    """every way of spelling a built-in check in a model — a `Field` keyword with a scalar, a list or a dict of arguments,
    with and without the check options, and a `Config` attribute with a scalar, list, tuple or dict — compiles to the
    check the object API builds from the same arguments (pandas and polars models, own class and inherited)"""
    import pandera as pa
    import pandera.polars as pap
    for mod, label in ((pa, "pandas"), (pap, "polars")):
        for (dt, name, arg), opts in itertools.product(FIELD_FORMS, CHECK_OPTS):
            c = {"forms": "Field", "backend": label, "dtype": dt, "check": name, "arg": arg, "opts": opts}
            src = (f"class M(pa.DataFrameModel):\n    a: {dt} = pa.Field({name}={arg}"
                   + "".join(f", {k}={v!r}" for k, v in opts.items()) + ")\nclass N(M):\n    b: int\n")
            ns = {"pa": mod}
            try:
                exec(compile(src, "<c16-forms>", "exec", dont_inherit=True), ns)  # noqa: S102
                val = eval(arg)  # noqa: S307
                want = getattr(mod.Check, name)(**val, **opts) if isinstance(val, dict) else getattr(mod.Check, name)(val, **opts)
                got = [[check_fp(x) for x in ns[k].to_schema().columns["a"].checks] for k in ("M", "N")]
            except Exception as e:  # noqa: BLE001
                rep.property_failure(c, f"{label} model with Field({name}={arg}, {opts}): {type(e).__name__}: {str(e)[:100]}")
                continue
            rep.evaluations += 1
            rep.count(f"forms:Field:{label}")
            if got != [[check_fp(want)]] * 2:
                rep.property_failure(c, f"{label}: Field({name}={arg}, {opts}) compiles to {got[0]} (subclass: {got[1]}); "
                                        f"Check.{name} with the same arguments is {check_fp(want)}")
        for name, arg in EXTRA_FORMS:
            c = {"forms": "Config", "backend": label, "check": name, "arg": arg}
            src = (f"class M(pa.DataFrameModel):\n    a: int\n    class Config:\n        {name} = {arg}\n"
                   f"class N(M):\n    b: int\n    class Config:\n        strict = False\n")
            ns = {"pa": mod}
            try:
                val = eval(arg)  # noqa: S307
                want = (getattr(mod.Check, name)(*val) if isinstance(val, tuple) else
                        getattr(mod.Check, name)(**val) if isinstance(val, dict) else getattr(mod.Check, name)(val))
                exec(compile(src, "<c16-forms>", "exec", dont_inherit=True), ns)  # noqa: S102
                got = [[check_fp(x) for x in ns[k].to_schema().checks] for k in ("M", "N")]
            except Exception as e:  # noqa: BLE001
                rep.property_failure(c, f"{label} model with Config.{name} = {arg}: {type(e).__name__}: {str(e)[:100]}")
                continue
            rep.evaluations += 1
            rep.count(f"forms:Config:{label}")
            if got != [[check_fp(want)]] * 2:
                rep.property_failure(c, f"{label}: Config.{name} = {arg} compiles to {got[0]} (subclass: {got[1]}); "
                                        f"Check.{name} with the same arguments is {check_fp(want)}")


def run(tier, replay=None):
    rep = Report(PROP, tier)
    warm_up_backends()
    regenerate(("modelrules",))
    rep.audit = audit(PROP, MODULES)
    rep.audit["modules"] = MODULES
    rng = rng_for(PROP)
    if replay:
        case = json.loads(open(replay).read())["case"]
        if case.get("forms"):
            forms_sweep(rep)
        else:
            run_cases(rep, [case], rng)
        return rep.finish(rule="replay")
    n = 300 if tier == "quick" else 4000
    cases = corpus_cases(PROP) + [gen_chain(rng, "pandas") for _ in range(n)] + [gen_chain(rng, "polars") for _ in range(n // 4)]
    run_cases(rep, cases, rng)
    forms_sweep(rep)
    return rep.finish(
        rule="linear class chains of depth 1-4 over four attributes: per class annotation + Field / bare annotation / bare "
             "Field override, Optional, Field options and own checks, aliases, @check / @dataframe_check / @parser methods "
             "with overriding names and custom name=, Config options; per class of the chain: compiled schema vs the "
             "specification, repeated and cache-cleared compilation, subclass-first compilation order, parent without its "
             "subclasses, verdicts of Model.validate vs the object-API schema on probe frames; pandas and polars",
        level_note=["models are declared with plain annotations (`a: int`): `Series[...]` / `Index[...]` annotations do not "
                    "resolve in this environment (numpy / pandas typing), so index fields are not generated",
                    "multiple inheritance is not generated; the theorems speak about linear chains"],
    )

"""C03 — whatever validate returns conforms to the schema (parse postcondition)."""
from __future__ import annotations

import copy
import json
import warnings

import pandas as pd

from . import absdata as A
from . import pipeline as P
from .common import Report, audit, corpus_cases, rng_for, run_driver
from .regen import regenerate

PROP = "C03"
MODULES = ["PanderaModel.Props.C03"]
TARGETS = ["int64", "float64", "str"]
SRC_STR_POOL = [A.vstr(s) for s in ("1", "0", "-2", "3", "1.5", "0.25", "a", "")]


def strip(S):
    """the same schema with every parsing option switched off"""
    T = copy.deepcopy(S)
    T["coerce"] = False
    T["addMissing"] = False
    T["dropInvalid"] = False
    if T["strict"] == "filter":
        T["strict"] = "yes"
    for c in T["columns"] + ([T["index"]] if T["index"] else []):
        c["coerce"] = False
        c["default"] = None
    return T


def gen_source_values(rng, target, n, nullable):
    """values of another physical dtype that mostly convert to `target`"""
    src = rng.choice([d for d in ("int64", "float64", "str", "bool") if d != target])
    if src == "str":
        pool = SRC_STR_POOL if rng.random() < 0.5 else SRC_STR_POOL[:4]
        if target == "float64" and rng.random() < 0.5:
            pool = SRC_STR_POOL[:6]
    else:
        pool = A.POOL[src]
    vals = []
    for _ in range(n):
        if A.can_null(src) and rng.random() < (0.2 if nullable else 0.05):
            vals.append(A.NULL)
        else:
            vals.append(rng.choice(pool))
    return src, vals


def gen_case(rng, drop_rate=0.2):
    frame_coerce = rng.random() < 0.2
    c = P.gen_case(rng, regex_rate=0.1, index_schema_rate=0.25, conform_bias=0.9, max_rows=5)
    S, D = c["schema"], c["frame"]
    n = D["nrows"]
    S["coerce"] = frame_coerce
    cols = {col["name"]: col for col in D["cols"]}
    for spec in S["columns"]:
        if spec["dtype"] is None:
            continue
        if frame_coerce and spec["dtype"] not in TARGETS:
            spec["dtype"] = rng.choice(TARGETS)
            spec["checks"] = []
        if spec["dtype"] in TARGETS and rng.random() < 0.5:
            spec["coerce"] = True
        if (spec["coerce"] or frame_coerce) and spec["regex"] is None and spec["name"] in cols and rng.random() < 0.7:
            src, vals = gen_source_values(rng, spec["dtype"], n, spec["nullable"])
            cols[spec["name"]]["dtype"] = src
            cols[spec["name"]]["vals"] = vals
        if rng.random() < 0.3 and spec["regex"] is None and (
                spec["name"] not in cols or cols[spec["name"]]["dtype"] == spec["dtype"]):
            spec["default"] = rng.choice(A.POOL[spec["dtype"]])
            if spec["name"] in cols and A.can_null(cols[spec["name"]]["dtype"]) and n:
                cols[spec["name"]]["vals"][rng.randrange(n)] = A.NULL
    if S["index"] is not None:
        ix = S["index"]
        if frame_coerce and ix["dtype"] not in TARGETS:
            ix["dtype"] = "int64"
            ix["checks"] = []
        if ix["dtype"] in TARGETS and rng.random() < 0.5:
            ix["coerce"] = True
            if rng.random() < 0.6 and n:
                lv = D["index"][0]
                if ix["dtype"] == "int64":
                    labs = rng.sample(range(1, 30), n)
                    D["index"] = [dict(lv, dtype="str", vals=[A.vstr(str(i)) for i in labs])]
    if rng.random() < 0.3:
        S["addMissing"] = True
        # drop a declared column from the frame; give it a default or make it nullable (mostly)
        cand = [s for s in S["columns"] if s["regex"] is None and s["name"] in cols and s["required"]]
        if cand:
            sp = rng.choice(cand)
            D["cols"] = [col for col in D["cols"] if col["name"] != sp["name"]]
            if sp["dtype"] is not None and rng.random() < 0.85:
                if rng.random() < 0.6:
                    sp["default"] = rng.choice(A.POOL[sp["dtype"]])
                elif A.can_null(sp["dtype"]):
                    sp["nullable"] = True
                    sp["default"] = None
    # keep coercion sources inside the modelled universe (no datetime -> number conversions)
    import re
    for spec in S["columns"]:
        if not (spec["coerce"] or S["coerce"]) or spec["dtype"] is None:
            continue
        for col in D["cols"]:
            hit = (re.match(A.pat_render(spec["regex"]), col["name"]) is not None) if spec["regex"] is not None \
                else col["name"] == spec["name"]
            if hit and col["dtype"] == "datetime":
                col["dtype"] = "int64"
                col["vals"] = [rng.choice(A.POOL["int64"]) for _ in range(n)]
    if rng.random() < 0.3:
        S["strict"] = "filter"
    if rng.random() < drop_rate:
        S["dropInvalid"] = True
    if S["dropInvalid"]:
        unique_labels(D)      # rows are dropped by label (documented): keep labels unique
    # joint uniqueness over columns that survive parsing (an empty subset makes pandas raise inside
    # `duplicated`, which is C06's finding, not this property's subject)
    declared = {s["name"] for s in S["columns"] if s["regex"] is None}
    present = {col["name"] for col in D["cols"]}
    S["unique"] = [x for x in S["unique"] if x in declared and x in present]
    return c


def unique_labels(D):
    lv = D["index"][0]
    seen, vals = set(), []
    for v in lv["vals"]:
        k = json.dumps(v)
        while k in seen:
            if lv["dtype"] == "int64":
                v = A.vint(A.to_py(v) + 31)
            else:
                v = A.vstr(A.to_py(v) + "'")       # labels with quotes
            k = json.dumps(v)
        seen.add(k)
        vals.append(v)
    D["index"] = [dict(lv, vals=vals)]


def validate(S, df):
    return P.run_validate(A.schema_of(S), df, lazy=True)


def normframe(fr):
    """compare numbers by value (an int64 4 and a float 4.0 are distinct dtypes, kept in `dtype`)"""
    return json.dumps(fr, sort_keys=True)


def run_cases(rep, cases):
    ans = run_driver("C03", [{"schema": c["schema"], "frame": c["frame"]} for c in cases])
    for c, a in zip(cases, ans):
        if "error" in a:
            rep.correspondence_break(c, "driver: " + a["error"])
            continue
        if not a["wf"]:
            rep.count("skipped:not-wellformed")
            continue
        S, D = c["schema"], c["frame"]
        if not P.checks_typed(c):
            rep.count("skipped:check-of-another-kind-than-the-column")
            continue
        df = A.frame_of(D)
        kind, out = validate(S, df.copy())
        opts = "+".join(k for k, on in (
            ("coerce", S["coerce"] or any(s["coerce"] for s in S["columns"]) or bool(S["index"] and S["index"]["coerce"])),
            ("default", any(s["default"] is not None for s in S["columns"])),
            ("addMissing", S["addMissing"]), ("filter", S["strict"] == "filter"), ("drop", S["dropInvalid"])) if on)
        rep.count("opts:" + (opts or "none"))
        rep.count("impl:" + kind)
        rep.case(c, nontrivial=bool(opts) and kind == "ok")
        model_kind = a["out"]["kind"]
        if kind == "crash":
            # an internal exception: C06's subject; here it only means "no object returned"
            rep.count("crash:" + type(out).__name__)
            if model_kind != "crash":
                rep.count("crash-not-predicted-by-model")
            continue
        if kind == "ok":
            # (a) the result conforms to the stripped schema
            k2, o2 = validate(strip(S), out.copy())
            if k2 != "ok":
                rep.property_failure(c, f"the returned object does not satisfy the schema with parsing switched off ({k2})",
                                     region=known_region(c, out, "strip"),
                                     detail={"returned": safe_abs(out),
                                             "errors": [str(e.reason_code) for e in getattr(o2, "schema_errors", [])][:4]})
                continue
            # (b) validating it again returns it unchanged
            k3, o3 = validate(S, out.copy())
            if k3 != "ok" or not P.frames_equal(o3, out):
                rep.property_failure(c, "validating the returned object again does not return it unchanged"
                                        f" ({k3})", region=known_region(c, out, "fixpoint"),
                                     detail={"returned": safe_abs(out), "again": safe_abs(o3) if k3 == "ok" else None})
                continue
        # correspondence with the model (only where the model speaks: checks applied to values of their
        # own kind, and no duplicated nulls under drop_invalid_rows — C02's recorded finding)
        parsed = a.get("parsed")
        if parsed is None or not P.well_typed({"schema": S, "frame": dict(parsed["frame"], nrows=D["nrows"])}):
            rep.count("corr-skipped:ill-typed-after-parsing")
            continue
        if S["dropInvalid"] and null_dups(S, parsed["frame"]):
            rep.count("corr-skipped:null-duplicates")
            continue
        if kind == "ok":
            impl_fr = safe_abs(out)
            if model_kind != "ok" or impl_fr is None or normframe(strip_nrows(impl_fr)) != normframe(strip_nrows(a["out"]["frame"])):
                rep.correspondence_break(c, "model's returned table differs from the implementation's",
                                         detail={"impl": impl_fr, "model": a["out"]})
        elif kind == "errors" and model_kind != "errors":
            rep.correspondence_break(c, f"implementation raises SchemaErrors, model says {model_kind}",
                                     detail={"reasons": [e.reason_code.name for e in out.schema_errors][:5]})


def null_dups(S, fr):
    cols = {c["name"]: c for c in fr["cols"]}
    for spec in S["columns"]:
        if spec["unique"]:
            for c in fr["cols"]:
                if sum(1 for v in c["vals"] if v == A.NULL) >= 2:
                    return True
    if S["index"] is not None and S["index"]["unique"]:
        if sum(1 for v in fr["index"][0]["vals"] if v == A.NULL) >= 2:
            return True
    if S["unique"]:
        sub = [cols[n]["vals"] for n in S["unique"] if n in cols]
        rows = list(zip(*sub)) if sub else []
        seen = set()
        for r in rows:
            k = json.dumps(r)
            if k in seen and any(v == A.NULL for v in r):
                return True
            seen.add(k)
    return False


def strip_nrows(fr):
    return {"cols": fr["cols"], "index": fr["index"]}


def safe_abs(df):
    try:
        return A.abs_frame(df)
    except Exception:  # noqa: BLE001
        return None


def known_region(c, out, which):
    """K_C03_dropKeepsNullDuplicates: with drop_invalid_rows, duplicated *null* values are not reported
    (C02's finding), hence not dropped, so the result still violates `unique`"""
    S = c["schema"]
    k, o = validate(strip(S), out.copy())
    if k != "errors":
        return None
    if S["addMissing"] and S["ordered"] and all(e.reason_code.name == "COLUMN_NOT_ORDERED" for e in o.schema_errors):
        return "K_C03_staleColumnInfo"
    if not S["dropInvalid"]:
        return None
    from pandera.api.pandas.components import Index
    labels = out.index.tolist()
    regions = []
    for e in o.schema_errors:
        if isinstance(e.schema, Index) and labels != list(range(len(labels))):
            regions.append("K_C03_dropIndexErrorsByPosition")
            continue
        fc = e.failure_cases
        if e.reason_code.name in ("SERIES_CONTAINS_DUPLICATES", "DUPLICATES") and not (
                isinstance(fc, pd.DataFrame) and len(fc) and fc["failure_case"].notna().any()):
            regions.append("K_C03_dropKeepsNullDuplicates")
            continue
        return None
    return regions[0] if regions else None


def run_series(rep, rng, n):
    """SeriesSchema with and without an index schema (the path repaired by the `fix:` commit)"""
    import pandera as pa
    for _ in range(n):
        tgt = rng.choice(TARGETS)
        m = rng.randint(0, 4)
        src, vals = gen_source_values(rng, tgt, m, nullable=True)
        itgt = rng.choice(["int64", "str"])
        labs = rng.sample(range(1, 30), m)
        with_index = rng.random() < 0.7
        idx_kind = rng.choice(["int", "str", "str", "mixed", "mixed"])
        if idx_kind == "int":
            labels = list(labs)
        elif idx_kind == "str":
            labels = [str(i) for i in labs]
        else:       # an object index holding labels of several python types
            labels = [rng.choice([i, str(i), float(i), i + 0.5]) for i in labs]
        case = {"series": {"dtype": src, "vals": vals}, "target": tgt, "index_target": itgt if with_index else None,
                "labels": [repr(x) for x in labels], "labels_kind": idx_kind}
        s = A.series_of(vals, src, index=pd.Index(labels, dtype=object if idx_kind == "mixed" else None))
        schema = pa.SeriesSchema(A.SCHEMA_DTYPE[tgt], coerce=True, nullable=True,
                                 index=pa.Index(A.SCHEMA_DTYPE[itgt], coerce=True) if with_index else None)
        stripped = pa.SeriesSchema(A.SCHEMA_DTYPE[tgt], nullable=True,
                                   index=pa.Index(A.SCHEMA_DTYPE[itgt]) if with_index else None)
        with warnings.catch_warnings():
            warnings.simplefilter("ignore")
            try:
                out = schema.validate(s.copy(), lazy=True)
            except (pa.errors.SchemaErrors, pa.errors.SchemaError):
                rep.count("series:rejected")
                rep.case(case, nontrivial=False)
                continue
            except Exception as e:  # noqa: BLE001
                rep.count("series:crash:" + type(e).__name__)
                continue
            rep.count("series:ok")
            rep.case(case, nontrivial=True)
            try:
                stripped.validate(out.copy(), lazy=True)
                again = schema.validate(out.copy(), lazy=True)
            except Exception as e:  # noqa: BLE001
                rep.property_failure(case, f"SeriesSchema: the returned series does not conform ({type(e).__name__}: "
                                           f"dtype {out.dtype}, index {out.index.dtype})")
                continue
            if not (again.equals(out) and again.index.equals(out.index) and again.dtype == out.dtype):
                rep.property_failure(case, "SeriesSchema: validating the returned series again changes it")


def run_columns(rep, rng, n):
    """a Column of the schema validated on its own with its parsing options (coercion, default): the returned frame conforms
    to the same Column with the options switched off, and a second validation returns it unchanged"""
    import pandera as pa
    for _ in range(n):
        c = gen_case(rng, drop_rate=0.0)
        S, D = c["schema"], c["frame"]
        present = {col["name"] for col in D["cols"]}
        specs = [sp for sp in S["columns"] if sp["regex"] is None and sp["name"] in present and
                 (sp["coerce"] or S["coerce"] or sp["default"] is not None)]
        if not specs:
            continue
        sp = dict(rng.choice(specs))
        sp["coerce"] = sp["coerce"] or S["coerce"]
        case = {"entry": "Column", "spec": sp, "frame": D}
        try:
            _, col = A.column_of(sp)
            _, bare = A.column_of(dict(sp, coerce=False, default=None))
            df = A.frame_of(D)
        except Exception:  # noqa: BLE001
            continue
        with warnings.catch_warnings():
            warnings.simplefilter("ignore")
            try:
                out = col.validate(df.copy(), lazy=True)
            except (pa.errors.SchemaErrors, pa.errors.SchemaError):
                rep.count("column:rejected")
                continue
            except Exception as e:  # noqa: BLE001
                rep.count("column:crash:" + type(e).__name__)
                continue
            rep.count("column:ok")
            rep.case(case, nontrivial=True)
            rep.evaluations += 1
            try:
                bare.validate(out.copy(), lazy=True)
                again = col.validate(out.copy(), lazy=True)
            except Exception as e:  # noqa: BLE001
                rep.property_failure(case, f"Column.validate: the returned frame does not conform to the column without its parsing "
                                           f"options ({type(e).__name__}; column dtype {out[sp['name']].dtype})")
                continue
            if not (again.equals(out) and list(map(str, again.dtypes)) == list(map(str, out.dtypes))):
                rep.property_failure(case, "Column.validate: validating the returned frame again changes it")


def column_parser_sweep(rep, rng, n):
    """parsing steps that exist at component level only — idempotent custom parsers of a column / an index, defaults of
    regex-selected columns — inside a DataFrameSchema: the returned frame holds the parsed values, passes the schema without
    the parsing options, and validating it again returns it unchanged"""
    import pandas as pd
    import pandera as pa
    parsers = {"strip": (lambda s_: s_.str.strip(), "str"), "abs": (lambda s_: s_.abs(), "num"), "clip": (lambda s_: s_.clip(0, 5), "num"),
               "upper": (lambda s_: s_.str.upper(), "str")}
    for _ in range(n):
        m = rng.randint(1, 5)
        pname = rng.choice(sorted(parsers))
        fn, kind = parsers[pname]
        if kind == "str":
            raw = [rng.choice([" a", "b ", "a", " b "]) for _ in range(m)]
            chk = pa.Check.isin(["a", "b"]) if pname == "strip" else pa.Check.isin([" A", "B ", "A", " B "])
            dt = str
        else:
            raw = [rng.choice([-3, -1, 0, 2, 4, 7]) for _ in range(m)]
            chk = pa.Check.ge(0) if pname == "abs" else pa.Check.in_range(0, 5)
            dt = int
        other = [float("nan") if rng.random() < 0.4 else float(rng.randint(0, 3)) for _ in range(m)]
        lazy = rng.random() < 0.5
        mk = lambda parsing: pa.DataFrameSchema({  # noqa: E731
            "code": pa.Column(dt, checks=chk, parsers=pa.Parser(fn) if parsing else None),
            "^x_": pa.Column(float, regex=True, nullable=not parsing, default=1.5 if parsing else None)})
        df = pd.DataFrame({"code": raw, "x_1": other, "x_2": list(reversed(other))}, index=[f"r{i}" for i in range(m)])
        case = {"mode": "column-parser", "parser": pname, "code": raw, "x": [None if v != v else v for v in other], "lazy": lazy}
        with warnings.catch_warnings():
            warnings.simplefilter("ignore")
            try:
                out = mk(True).validate(df.copy(), lazy=lazy)
            except Exception as e:  # noqa: BLE001
                rep.property_failure(case, f"DataFrameSchema with a column parser ({pname}) and regex defaults raised "
                                           f"{type(e).__name__}: {str(e)[:100]}")
                continue
            rep.case(case, nontrivial=True)
            rep.evaluations += 1
            rep.count("column-parser:" + pname)
            want = df.copy()
            want["code"] = fn(want["code"])
            want[["x_1", "x_2"]] = want[["x_1", "x_2"]].fillna(1.5)
            if not out.equals(want):
                rep.property_failure(case, f"the returned frame is not the parsed data: code {out['code'].tolist()} "
                                           f"(parsed: {want['code'].tolist()}), x_1 {out['x_1'].tolist()}")
                continue
            try:
                mk(False).validate(out.copy(), lazy=True)
            except Exception as e:  # noqa: BLE001
                rep.property_failure(case, f"the returned frame does not conform to the schema without its parsing options "
                                           f"({type(e).__name__})")
                continue
            try:
                again = mk(True).validate(out.copy(), lazy=lazy)
                if not again.equals(out):
                    rep.property_failure(case, "validating the returned frame again changes it")
            except Exception as e:  # noqa: BLE001
                rep.property_failure(case, f"validating the returned frame again raises {type(e).__name__}")


def run_polars(rep, rng, n):
    try:
        import polars as pl  # noqa: F401
        import pandera.polars as pap
        from . import polars_abs as PA
    except Exception:  # noqa: BLE001
        rep.count("polars:unavailable")
        return
    for it in range(n):
        c = gen_case(rng, drop_rate=0.0)
        S, D = c["schema"], c["frame"]
        if it % 4 == 0:
            # directed: an ordered schema whose frame lacks a declared column that is *not* the last one, to be inserted by
            # add_missing_columns (the returned frame has to carry it at its place)
            c = P.gen_case(rng, regex_rate=0.0, index_schema_rate=0.0, conform_bias=1.0, max_rows=4)
            S, D = c["schema"], c["frame"]
            S.update(ordered=True, addMissing=True, strict="no", coerce=False)
            declared = [sp for sp in S["columns"] if sp["regex"] is None and sp["dtype"] in A.POOL]
            present = [col["name"] for col in D["cols"]]
            cand = [sp for sp in declared[:-1] if sp["name"] in present]
            if len(declared) >= 2 and cand and [n_ for n_ in present if n_ in {sp["name"] for sp in declared}] == [sp["name"] for sp in declared if sp["name"] in present]:
                sp = rng.choice(cand)
                D["cols"] = [col for col in D["cols"] if col["name"] != sp["name"]]
                sp["default"] = rng.choice(A.POOL[sp["dtype"]])
                sp["checks"] = []
                sp["unique"] = False
        if it % 4 == 2:
            # directed: drop_invalid_rows with several row-level errors on one column, in different rows
            c = P.gen_case(rng, regex_rate=0.0, index_schema_rate=0.0, conform_bias=1.0, max_rows=5)
            S, D = c["schema"], c["frame"]
            S.update(addMissing=False, strict="no", coerce=False, ordered=False, dropInvalid=True)
            num = [sp for sp in S["columns"] if sp["dtype"] == "float64" and any(col["name"] == sp["name"] and
                                                                             col["dtype"] == "float64" for col in D["cols"])]
            if num and D["nrows"] >= 3:
                sp = rng.choice(num)
                sp.update(nullable=False, unique=False, coerce=False, default=None,
                          checks=[{"b": {"ge": {"v": A.vflt(0)}}, "ignoreNa": True}, {"b": {"le": {"v": A.vflt(40)}}, "ignoreNa": True}])
                col = next(col for col in D["cols"] if col["name"] == sp["name"])
                i, j, k = rng.sample(range(D["nrows"]), 3)
                col["vals"][i], col["vals"][j], col["vals"][k] = A.NULL, A.vflt(-8), A.vflt(400)
        if it % 4 == 1:
            # directed: a non-nullable regex column with a default and a missing value in a matched column, no other
            # parsing option
            c = P.gen_case(rng, regex_rate=0.6, index_schema_rate=0.0, conform_bias=1.0, max_rows=4)
            S, D = c["schema"], c["frame"]
            S.update(addMissing=False, strict="no", coerce=False, ordered=False)
            for sp in S["columns"]:
                sp["coerce"] = False
                if sp["regex"] is not None:
                    sp["nullable"] = False
        if not D["cols"]:
            continue
        S["index"] = None
        S["unique"] = []
        for s in S["columns"]:
            s["unique"] = False
        # defaults (also on regex columns) with nulls / NaNs in the matched columns
        import re as _re
        for s in S["columns"]:
            if s["dtype"] is None or s["dtype"] not in A.POOL:
                continue
            hits = [col for col in D["cols"] if col["dtype"] == s["dtype"] and (
                (_re.fullmatch(A.pat_render(s["regex"]), col["name"]) is not None) if s["regex"] is not None
                else col["name"] == s["name"])]
            if s["regex"] is not None and hits and rng.random() < 0.7 or (s["regex"] is None and s.get("default") is not None):
                s["default"] = s.get("default") if s.get("default") is not None else rng.choice(A.POOL[s["dtype"]])
                for col in hits:
                    if col["vals"] and rng.random() < 0.8:
                        col["vals"][rng.randrange(len(col["vals"]))] = {"nan": True} if s["dtype"] == "float64" else A.NULL
            elif s["regex"] is not None:
                s["default"] = None
        try:
            df = PA.frame_of(D)
            schema = PA.schema_of(S, with_defaults=True, coerce=S["coerce"], add_missing_columns=S["addMissing"],
                                  drop_invalid_rows=bool(S.get("dropInvalid")))
            stripped = PA.schema_of(strip(S))
        except Exception:  # noqa: BLE001
            rep.count("polars:unbuildable")
            continue
        with warnings.catch_warnings():
            warnings.simplefilter("ignore")
            try:
                out = schema.validate(df, lazy=True)
            except (pap.errors.SchemaErrors, pap.errors.SchemaError):
                rep.count("polars:rejected")
                continue
            except Exception as e:  # noqa: BLE001
                rep.count("polars:crash:" + type(e).__name__)
                continue
            rep.count("polars:ok")
            c2 = dict(c, backend="polars")
            rep.case(c2, nontrivial=True)
            try:
                stripped.validate(out, lazy=True)
                again = schema.validate(out, lazy=True)
            except Exception as e:  # noqa: BLE001
                region = None
                if S.get("dropInvalid"):
                    # recorded: the polars backend drops rows even when an error that no row can be blamed for was collected
                    # (missing / undeclared column, wrong dtype, a check that raised): it is swallowed and the frame returned
                    try:
                        PA.schema_of(S, with_defaults=True, coerce=S["coerce"], add_missing_columns=S["addMissing"]).validate(df, lazy=True)
                    except pap.errors.SchemaErrors as e2:
                        nonrow = {"COLUMN_NOT_IN_DATAFRAME", "COLUMN_NOT_IN_SCHEMA", "COLUMN_NOT_ORDERED", "WRONG_DATATYPE",
                                  "CHECK_ERROR", "DATATYPE_COERCION", "DUPLICATES"}
                        if any(x.reason_code.name in nonrow for x in e2.schema_errors):
                            region = "K_C03_polarsDropSwallowsNonRowErrors"
                    except Exception:  # noqa: BLE001
                        pass
                rep.property_failure(c2, f"polars: the returned frame does not conform ({type(e).__name__}: {str(e)[:120]})",
                                     region=region)
                continue
            if not again.equals(out):
                rep.property_failure(c2, "polars: validating the returned frame again changes it")


def run(tier, replay=None):
    rep = Report(PROP, tier)
    regenerate(("scopemap", "builtin"))
    rep.audit = audit(PROP, MODULES)
    rep.audit["modules"] = MODULES
    rng = rng_for(PROP)
    if replay:
        case = json.loads(open(replay).read())["case"]
        if case.get("mode") == "column-parser":
            column_parser_sweep(rep, rng_for(PROP, "column-parser"), 200)
        elif "schema" in case and case.get("backend") != "polars":
            run_cases(rep, [case])
        return rep.finish(rule="replay")
    n = 1000 if tier == "quick" else 25000
    run_cases(rep, [c for c in corpus_cases(PROP) if "schema" in c] + [gen_case(rng) for _ in range(n)])
    run_series(rep, rng, n // 4)
    run_columns(rep, rng, n // 3)
    column_parser_sweep(rep, rng_for(PROP, "column-parser"), n // 5)
    run_polars(rep, rng, n // 4)
    return rep.finish(
        rule="C01's generator plus every subset of {column/frame/index coercion (int64, float64, str targets from "
             "int/float/str/bool sources), default, add_missing_columns, strict='filter', drop_invalid_rows}; the "
             "returned object is re-validated with the real stripped schema and with the schema itself; "
             "SeriesSchema with/without index schema; polars frames. non-trivial = an object was returned under at "
             "least one parsing option",
        level_note=["user parsers are assumed idempotent in the theorems and are not generated",
                    "coercion targets bool/datetime and frame-level dtype= are outside the modelled universe"],
    )

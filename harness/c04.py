"""C04 — validation never modifies the caller's data unless inplace=True; container kind preserved."""
from __future__ import annotations

import json
import warnings

import numpy as np
import pandas as pd

from . import absdata as A
from . import pipeline as P
from . import c03
from .common import Report, audit, corpus_cases, rng_for
from .regen import regenerate

PROP = "C04"
MODULES = ["PanderaModel.Props.C04"]


def snap(obj):
    """deep, representation-level snapshot of a pandas object"""
    if isinstance(obj, pd.DataFrame):
        return ("df", [str(c) for c in obj.columns], [str(t) for t in obj.dtypes],
                [obj[c].tolist() if obj.columns.is_unique else None for c in obj.columns] if obj.columns.is_unique
                else obj.values.tolist(),
                snap_index(obj.index))
    if isinstance(obj, pd.Series):
        return ("series", str(obj.dtype), obj.tolist(), obj.name, snap_index(obj.index))
    raise TypeError(type(obj))


def snap_index(idx):
    return (type(idx).__name__, [str(n) for n in idx.names], idx.tolist(),
            [str(idx.get_level_values(i).dtype) for i in range(idx.nlevels)])


def norm(x):
    return json.dumps(x, default=lambda o: "nan" if (isinstance(o, float) and o != o) else repr(o), sort_keys=True)


def call(schema, obj, **kw):
    import pandera as pa
    with warnings.catch_warnings():
        warnings.simplefilter("ignore")
        try:
            return "ok", schema.validate(obj, **kw)
        except pa.errors.SchemaErrors as e:
            return "errors", e
        except pa.errors.SchemaError as e:
            return "error", e
        except Exception as e:  # noqa: BLE001
            return "crash:" + type(e).__name__, e


def judge(rep, case, entry, obj, before, outcome, out, kind_of):
    rep.count(f"{entry}:{outcome.split(':')[0]}")
    after = norm(snap(obj))
    if after != before:
        rep.property_failure(case, f"{entry}: the object passed to validate(inplace=False) was modified "
                                   f"(outcome {outcome})")
        return
    if outcome == "ok" and not isinstance(out, kind_of):
        rep.property_failure(case, f"{entry}: returned a {type(out).__name__} for a {kind_of.__name__}")


def run_frames(rep, cases):
    for c in cases:
        S, D = c["schema"], c["frame"]
        try:
            schema = A.schema_of(S)
        except Exception:  # noqa: BLE001
            rep.count("unbuildable")
            continue
        for lazy in (False, True):
            if S["dropInvalid"] and not lazy:
                continue
            df = A.frame_of(D)
            before = norm(snap(df))
            outcome, out = call(schema, df, lazy=lazy)
            case = dict(c, lazy=lazy, entry="DataFrameSchema")
            rep.case(case, nontrivial=any([S["coerce"], S["addMissing"], S["strict"] == "filter", S["dropInvalid"]]
                                          + [s["coerce"] or s["default"] is not None for s in S["columns"]]))
            judge(rep, case, "DataFrameSchema", df, before, outcome, out, pd.DataFrame)
            # the same call under each validation depth: parsing happens at every depth, always on a copy
            from pandera.config import ValidationDepth, config_context
            for depth in ("SCHEMA_ONLY", "DATA_ONLY"):
                df = A.frame_of(D)
                with config_context(validation_depth=getattr(ValidationDepth, depth)):
                    outcome, out = call(schema, df, lazy=lazy)
                judge(rep, dict(case, entry=f"DataFrameSchema@{depth}"), f"DataFrameSchema@{depth}", df, before, outcome, out,
                      pd.DataFrame)
            # an object that came out of an earlier validation with this very schema object and was changed by the
            # caller since: validating it again leaves it alone as well
            df = A.frame_of(D)
            o1, first = call(schema, df, lazy=lazy)
            if o1 == "ok" and isinstance(first, pd.DataFrame) and len(first.columns):
                k0 = first.columns[0]
                try:
                    first[k0] = first[k0].astype(object)
                    if len(first):
                        first.iloc[0, 0] = None
                    first["added_by_caller"] = 1
                except Exception:  # noqa: BLE001
                    first = None
                if first is not None:
                    before2 = norm(snap(first))
                    outcome, out = call(schema, first, lazy=lazy)
                    judge(rep, dict(case, entry="DataFrameSchema-revalidation"), "DataFrameSchema-revalidation", first, before2,
                          outcome, out, pd.DataFrame)
        # standalone components on the same data
        import pandera as pa
        for spec in S["columns"]:
            if spec["regex"] is not None or not any(col["name"] == spec["name"] for col in D["cols"]):
                continue
            try:
                name, col = A.column_of(dict(spec))
            except Exception:  # noqa: BLE001
                continue
            for lazy in (False, True):
                df = A.frame_of(D)
                before = norm(snap(df))
                outcome, out = call(col, df, lazy=lazy)
                case = {"entry": "Column", "spec": spec, "frame": D, "lazy": lazy}
                rep.case(case, nontrivial=spec["coerce"] or spec["default"] is not None)
                judge(rep, case, "Column", df, before, outcome, out, pd.DataFrame)
            # the same column with a value-changing parser and no coercion / default (the parsed values are
            # written back to the frame: they must land in a copy)
            try:
                kw = A.component_kwargs(dict(spec, coerce=False, default=None))
                kw.pop("default", None)
                pcol = pa.Column(name=spec["name"], required=spec["required"],
                                 parsers=[pa.Parser(lambda s_: s_.iloc[::-1].set_axis(s_.index))], **kw)
            except Exception:  # noqa: BLE001
                pcol = None
            if pcol is not None:
                for lazy in (False, True):
                    df = A.frame_of(D)
                    before = norm(snap(df))
                    outcome, out = call(pcol, df, lazy=lazy)
                    case = {"entry": "Column+parser", "spec": dict(spec, coerce=False, default=None), "frame": D, "lazy": lazy}
                    rep.case(case, nontrivial=len(set(map(repr, df[spec["name"]].tolist()))) > 1)
                    judge(rep, case, "Column+parser", df, before, outcome, out, pd.DataFrame)
                    # and inside a DataFrameSchema
                    df = A.frame_of(D)
                    outcome, out = call(pa.DataFrameSchema({spec["name"]: pcol}), df, lazy=lazy)
                    judge(rep, dict(case, entry="DataFrameSchema+parser"), "DataFrameSchema+parser", df, before, outcome,
                          out, pd.DataFrame)
            # a stand-alone Column with a parser that also drops its invalid rows (lazy): still a dataframe for a dataframe
            try:
                kwd = A.component_kwargs(dict(spec, coerce=False, default=None))
                kwd.pop("default", None)
                dcol = pa.Column(name=spec["name"], required=spec["required"], drop_invalid_rows=True,
                                 parsers=[pa.Parser(lambda s_: s_)], **kwd)
            except Exception:  # noqa: BLE001
                dcol = None
            if dcol is not None:
                df = A.frame_of(D)
                before = norm(snap(df))
                outcome, out = call(dcol, df, lazy=True)
                case = {"entry": "Column+parser+drop_invalid_rows", "spec": dict(spec, coerce=False, default=None), "frame": D,
                        "lazy": True}
                rep.case(case, nontrivial=True)
                judge(rep, case, "Column+parser+drop_invalid_rows", df, before, outcome, out, pd.DataFrame)
            # a user parser that edits its argument in place and returns it (legal: it is handed pandera's own copy)
            def _edit_in_place(s_):
                if len(s_):
                    s_.iloc[:] = s_.iloc[::-1].values
                return s_
            try:
                kw = A.component_kwargs(dict(spec, coerce=False, default=None))
                kw.pop("default", None)
                ipss = pa.SeriesSchema(parsers=[pa.Parser(_edit_in_place)], **kw)
                ipcol = pa.Column(name=spec["name"], required=spec["required"], parsers=[pa.Parser(_edit_in_place)], **kw)
            except Exception:  # noqa: BLE001
                ipss = ipcol = None
            if ipss is not None:
                for lazy in (False, True):
                    for entry, schema_, mk in (("SeriesSchema+in-place parser", ipss, lambda: A.frame_of(D)[spec["name"]]),
                                               ("Column+in-place parser", ipcol, lambda: A.frame_of(D)),
                                               ("DataFrameSchema+in-place parser", pa.DataFrameSchema({spec["name"]: ipcol}),
                                                lambda: A.frame_of(D))):
                        obj = mk()
                        before = norm(snap(obj))
                        outcome, out = call(schema_, obj, lazy=lazy)
                        case = {"entry": entry, "spec": dict(spec, coerce=False, default=None), "frame": D, "lazy": lazy}
                        rep.case(case, nontrivial=len(set(map(repr, A.frame_of(D)[spec["name"]].tolist()))) > 1)
                        judge(rep, case, entry, obj, before, outcome, out, pd.Series if entry.startswith("Series") else pd.DataFrame)
            # the same column as a SeriesSchema
            try:
                ss = A.series_schema_of(dict(spec, name=None), index_spec=S["index"])
            except Exception:  # noqa: BLE001
                continue
            for lazy in (False, True):
                s = A.frame_of(D)[spec["name"]]
                before = norm(snap(s))
                outcome, out = call(ss, s, lazy=lazy)
                case = {"entry": "SeriesSchema", "spec": spec, "index": S["index"], "frame": D, "lazy": lazy}
                rep.case(case, nontrivial=spec["coerce"] or bool(S["index"] and S["index"]["coerce"]))
                judge(rep, case, "SeriesSchema", s, before, outcome, out, pd.Series)
        if S["index"] is not None:
            ix = A.index_schema_of(S["index"])
            for lazy in (False, True):
                for as_series in (False, True):
                    df = A.frame_of(D)
                    if as_series:
                        if not len(df.columns):
                            continue
                        df = df[df.columns[0]]
                    before = norm(snap(df))
                    outcome, out = call(ix, df, lazy=lazy)
                    case = {"entry": "Index", "index": S["index"], "frame": D, "lazy": lazy, "series": as_series}
                    rep.case(case, nontrivial=S["index"]["coerce"])
                    judge(rep, case, "Index", df, before, outcome, out, pd.Series if as_series else pd.DataFrame)


def run_multiindex(rep, rng, n):
    import pandera as pa
    for _ in range(n):
        m = rng.randint(0, 4)
        a = rng.sample(range(1, 40), m)
        b = [rng.choice(["x", "y", "z"]) for _ in range(m)]
        as_str = rng.random() < 0.6
        names = rng.choice([[None, None], ["k1", "k2"]])
        idx = pd.MultiIndex.from_arrays([[str(i) for i in a] if as_str else a, b], names=names)
        df = pd.DataFrame({"v": list(range(m))}, index=idx)
        coerce = rng.random() < 0.7
        mi = pa.MultiIndex([pa.Index(int, name=names[0], coerce=rng.random() < 0.5),
                            pa.Index(str, name=names[1], checks=pa.Check.isin(["x", "y"]))], coerce=coerce)
        for lazy in (False, True):
            d = df.copy(deep=True)
            before = norm(snap(d))
            outcome, out = call(mi, d, lazy=lazy)
            case = {"entry": "MultiIndex", "a": a, "b": b, "as_str": as_str, "names": names, "coerce": coerce, "lazy": lazy}
            rep.case(case, nontrivial=coerce)
            judge(rep, case, "MultiIndex", d, before, outcome, out, pd.DataFrame)
            # inside a DataFrameSchema
            d = df.copy(deep=True)
            before = norm(snap(d))
            outcome, out = call(pa.DataFrameSchema({"v": pa.Column(int)}, index=mi), d, lazy=lazy)
            judge(rep, dict(case, entry="DataFrameSchema+MultiIndex"), "DataFrameSchema+MultiIndex", d, before,
                  outcome, out, pd.DataFrame)


def run_polars(rep, rng, n):
    try:
        import polars as pl
        import pandera.polars as pap
        from . import polars_abs as PA
    except Exception:  # noqa: BLE001
        rep.count("polars:unavailable")
        return
    for _ in range(n):
        c = c03.gen_case(rng, drop_rate=0.15)
        S, D = c["schema"], c["frame"]
        if any(s["regex"] is not None for s in S["columns"]) or not D["cols"]:
            continue
        S["index"] = None
        try:
            df = PA.frame_of(D)
            schema = PA.schema_of(S, coerce=S["coerce"], add_missing_columns=S["addMissing"],
                                  drop_invalid_rows=S["dropInvalid"])
        except Exception:  # noqa: BLE001
            continue
        for lazy in (False, True):
            if S["dropInvalid"] and not lazy:
                continue
            for obj, kind in ((df, pl.DataFrame), (df.lazy(), pl.LazyFrame)):
                ref = df.clone()
                with warnings.catch_warnings():
                    warnings.simplefilter("ignore")
                    try:
                        out = schema.validate(obj, lazy=lazy)
                        outcome = "ok"
                    except Exception as e:  # noqa: BLE001
                        out, outcome = e, "raised"
                case = {"entry": "polars.DataFrameSchema", "schema": S, "frame": D, "lazy": lazy, "kind": kind.__name__}
                rep.case(case)
                rep.count(f"polars.DataFrameSchema[{kind.__name__}]:{outcome}")
                now = obj.collect() if kind is pl.LazyFrame else obj
                if not (now.equals(ref) and now.schema == ref.schema):
                    rep.property_failure(case, "polars: the frame passed to validate was modified")
                elif outcome == "ok" and not isinstance(out, kind):
                    rep.property_failure(case, f"polars DataFrameSchema.validate returned a {type(out).__name__} for a "
                                               f"{kind.__name__}")
            # Column on the same data
            for spec in S["columns"]:
                if not any(col["name"] == spec["name"] for col in D["cols"]):
                    continue
                try:
                    _, col = PA.column_of(spec)
                except Exception:  # noqa: BLE001
                    continue
                for obj, kind in ((df, pl.DataFrame), (df.lazy(), pl.LazyFrame)):
                    with warnings.catch_warnings():
                        warnings.simplefilter("ignore")
                        try:
                            out = col.validate(obj, lazy=lazy)
                            outcome = "ok"
                        except Exception as e:  # noqa: BLE001
                            out, outcome = e, "raised"
                    case = {"entry": "polars.Column", "spec": spec, "frame": D, "lazy": lazy, "kind": kind.__name__}
                    rep.case(case)
                    rep.count(f"polars.Column[{kind.__name__}]:{outcome}")
                    if outcome == "ok" and not isinstance(out, kind):
                        rep.property_failure(case, f"polars Column.validate returned a {type(out).__name__} for a "
                                                   f"{kind.__name__}")
        # with validation switched off every entry point hands back its argument (same kind, same object)
        from pandera.config import config_context
        first = next((sp for sp in S["columns"] if any(col["name"] == sp["name"] for col in D["cols"])), None)
        for obj, kind in ((df, pl.DataFrame), (df.lazy(), pl.LazyFrame)):
            entries = [("polars.DataFrameSchema", schema)]
            if first is not None:
                try:
                    entries.append(("polars.Column", PA.column_of(first)[1]))
                except Exception:  # noqa: BLE001
                    pass
            for entry, sch in entries:
                case = {"entry": entry + " (validation disabled)", "schema": S, "frame": D, "kind": kind.__name__}
                with warnings.catch_warnings():
                    warnings.simplefilter("ignore")
                    try:
                        with config_context(validation_enabled=False):
                            out = sch.validate(obj)
                    except Exception as e:  # noqa: BLE001
                        rep.property_failure(case, f"{entry}: validation disabled but validate raised {type(e).__name__}")
                        continue
                rep.count(f"{entry}[{kind.__name__}]:disabled")
                if not isinstance(out, kind):
                    rep.property_failure(case, f"{entry}.validate with validation disabled returned a {type(out).__name__} "
                                               f"for a {kind.__name__}")


def run(tier, replay=None):
    rep = Report(PROP, tier)
    regenerate(("alias", "kindprograms"))
    rep.audit = audit(PROP, MODULES)
    rep.audit["modules"] = MODULES
    rng = rng_for(PROP)
    if replay:
        case = json.loads(open(replay).read())["case"]
        if "schema" in case and not str(case.get("entry", "")).startswith("polars"):
            run_frames(rep, [case])
        return rep.finish(rule="replay")
    n = 300 if tier == "quick" else 6000
    run_frames(rep, [c for c in corpus_cases(PROP) if "schema" in c] + [c03.gen_case(rng) for _ in range(n)])
    run_multiindex(rep, rng, n // 3)
    run_polars(rep, rng, n // 2)
    return rep.finish(
        rule="C03's generator (every parsing option) validated eagerly and lazily through every entry point on the same "
             "data: DataFrameSchema, each declared column as a standalone Column and as a SeriesSchema (with the index "
             "schema), Index on the frame and on a Series, MultiIndex (standalone and inside a DataFrameSchema), polars "
             "DataFrameSchema/Column on DataFrame and LazyFrame; a representation-level snapshot of the argument "
             "(values, dtypes, labels, index, names) is compared before/after and the result's container kind is "
             "checked; non-trivial = a parsing option is on",
        level_note=["numpy-level view aliasing below the pandas API is not modelled; its effects would show in the snapshot",
                    "method calls on a pandas object without inplace=True are trusted not to mutate their receiver",
                    "kind programs (extract/kind_programs.py, Kind.lean): .lazy() yields a LazyFrame, LazyFrame.collect() a "
                    "DataFrame, the polars backend returns the kind it was given — modelled, checked by the differential"],
    )

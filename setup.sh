#!/bin/bash
# Build the Lean project from files on disk only (offline): regenerate Generated/*.lean from /repo,
# then compile every model, lemma, property and driver module.
set -e
cd "$(dirname "$0")"
export PYTHONPATH="$PWD:$PYTHONPATH"
/venv/bin/python -W ignore -c "from harness.regen import regenerate; regenerate(None)"
cd lean
lake build 2>&1 | tail -5

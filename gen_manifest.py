#!/usr/bin/env python3
"""Writes MANIFEST.json from the table below (kept in one place so it stays valid)."""
import json

CHECKS = {
 "C01": ("Lean theorem validate_accepts_iff_sat_partial (pipeline model accepts <=> declarative Sat, all schemas/frames) + differential tie of the model's verdict to pandera on generated (schema, frame) pairs; scope table regenerated from source",
         "Lean 4 refinement proof (pipeline = Sat) + differential correspondence", "5/C01"),
 "C02": ("Lean theorems: generic eager/lazy handler relation for every step list, instantiated to the frame pipeline; exactness of null/check failure cells for every check function; differential tie of eager vs lazy runs and of the lazy report to the model",
         "Lean 4 proof (handler theorem, cell exactness) + differential correspondence", "5/C02"),
 "C18": ("Lean theorems: config_context restores the context for every nesting tree with/without exceptions; env parsing honoured (over expressions regenerated from _config_from_env_vars); disabled = identity; depth decomposition SAD <=> SO and DO for every scope table; SCHEMA_ONLY = schema part and DATA_ONLY = data part (partial outside a recorded region) over the scope table regenerated from the @validate_scope decorators; polars default depth. Differential: exhaustive nestings, all 108 env settings, every entry point, verdicts per depth",
         "Lean 4 proof (induction over nesting trees, depth decomposition) + translators (scope map, env parsing) + exhaustive differential", "5/C18"),
 "C20": ("Lean theorem kept_eq_requested: de-duplicating the concatenated head/tail/sample by key equals de-duplicating by position whenever keys of distinct rows are distinct (all n, h, t, all sample draws), plus witnesses for the two recorded regions; differential: verdict with options vs verdict on the positional frame, pandas and polars",
         "Lean 4 proof (selection = positional selection under injective keys) + differential correspondence", "5/C20"),
 "C19": ("Lean theorems for every check function: element_wise = vectorised map; ignore_na hides nulls / verdict independent of null rows; n_failure_cases keeps the verdict and truncates to a prefix; raise_warning never fails and warns iff the check would fail; groupby hands exactly the requested groups; aliases = canonical built-ins over the table regenerated from api/checks.py. Differential: Check(...)(series) results, values shown to the function and validate outcomes vs the backend model, metamorphic relations on the implementation",
         "Lean 4 proof (check backend model, all functions) + translator (Check API table) + differential correspondence", "5/C19"),
 "C03": ("Lean theorems: the core checks ignore every parsing option, hence whatever the lazy run returns satisfies the stripped schema (any scope table / depth); strict='filter' leaves no undeclared column; coercion is idempotent, is the identity on conforming data and yields data passing the dtype's own check; fillna/filter idempotent; column-level fixpoint. Differential: returned table vs model of add_missing/filter/defaults/coerce/drop, and the metamorphic oracle on the implementation (re-validate with the stripped schema and with the schema itself), SeriesSchema+index, polars",
         "Lean 4 proof (parse pipeline model, postcondition, idempotence lemmas) + differential correspondence + metamorphic re-validation", "5/C03"),
 "C11": ("Lean theorems: the result of drop_invalid_rows is the parsed frame at the kept positions in original order; a row is kept iff no collected error names it; the rows named by a field's errors are exactly the rows violating nullability / uniqueness-as-reported / a check (every check that evaluates). Differential: surviving positions vs the Lean row-level spec on the parsed frame, survivor values vs the parse model, non-row violations must raise; pandas and polars",
         "Lean 4 proof (row exactness of the error report and of dropRows) + differential correspondence", "5/C11"),
 "C05": ("Lean: Effects IR with a verified analyser (restores_sound: accepted skeletons restore every tracked location on every path, any callback raising); history theorem by induction over operation lists; per-run obligations restores(skeleton)=true for the mutate-then-revert functions translated from the source (run_schema_component_checks, validate_column, config_context, polars validate). Differential: random operation histories on real schemas with a structural fingerprint of the object graph after every operation and verdict stability on probe frames",
         "Lean 4 proof (verified save/restore analyser + history induction) + translator (Effects skeletons) + differential fingerprints", "5/C05"),
 "C06": ("Lean theorems: a raising check function (element-wise or vectorised, any options) is reported as a check error, never an escaping exception; the parse/validate model has no internal failure mode (validate_channel: returns or raises the collected errors); every exceptional execution of the mutate-then-revert skeletons regenerated from the source restores the tracked state (restores_sound). Differential: exhaustive fault injection at every invocation of every user callback (checks, parsers) with outcome class, schema fingerprint, config context and input snapshot; fault-free scans of pandas and polars for leaked exception classes",
         "Lean 4 proof (verified analyser over regenerated skeletons, fault-to-failure theorems) + exhaustive fault-position enumeration against the implementation", "5/C06"),
 "C04": ("Lean: ownership/aliasing model with a verified analysis (safe_sound: an accepted program never changes an object that existed on entry, on any path through branches, loops and handlers); per-run obligations isSafe(program)=true for the inplace=False programs of the six pandas validate entry points translated from the source with callee summaries; container-kind table. Differential: representation-level snapshots of the argument before/after every entry point x parsing option x eager/lazy, result kind, pandas and polars",
         "Lean 4 proof (verified ownership analysis) + translator (alias programs with callee summaries) + differential snapshots", "5/C04"),
 "C07": ("Lean theorem noninterference: for any number of threads and EVERY schedule, a thread whose footprint no other thread writes ends each of its turns exactly as in its solo run (same private state, same observations, same shared footprint); witness (decide) for the recorded shared-schema race; per-run obligation that the context configuration is a ContextVar (thread-local). Differential: deterministic settrace scheduler on the real code (all sequential orders, every schedule prefix, random schedules) comparing each thread's outcome with its solo run, configuration and schema fingerprints after the join",
         "Lean 4 proof (non-interference over all schedules) + deterministic scheduler correspondence", "5/C07"),
 "C09": ("Lean: every clause (keys resolve, resolution idempotent with equal hash, equivalent spellings equal and equally hashed, print/resolve round trip of primitive types, check reflexive, check implies same kind/signedness/width over all ordered pairs) decided exhaustively by `decide +kernel` over the registry tables of numpy, pandas(+pyarrow), polars and pyspark regenerated from the engines of the working tree; intensional lemma for the numeric families at every bit width. Failing-input search evaluates the same clauses on the dump (concrete key / pair); sampled parametrised types",
         "Lean 4 proof by kernel evaluation over regenerated registry tables (translator tie) + sampled parameterisations", "5/C09"),
 "C15": ("Lean theorems generic in the attribute vocabulary: update_column(s) keep every attribute the call does not name and set the named ones (rebuild_keeps / updateColumn_frame); set_index / reset_index carry every Index attribute both ways (levelOf_attrs, columnOf_attrs, reset_set_attrs); inverse laws select-all and remove-after-add; invalid requests are errors (no schema); any operation sequence leaves the dataframe-level attributes alone (applyAll_top); remove_columns and reset_index mirror df.drop / df.reset_index for an arbitrary component verdict (reset partial: not ordered, with a witness for the recorded region). Per-run obligations by `decide` over the tables regenerated from the source: every Column.__init__ parameter is a Column.properties key (pandas, polars); set_index/reset_index copy every Index.__init__ parameter. Differential: random operation sequences on real schemas carrying every attribute vs the model, frame conditions, inverse laws, verdict of the transformed schema on the transformed frame",
         "Lean 4 proof (attribute-map model of the transformation methods) + translator (constructor / properties / keyword tables) + differential correspondence over operation sequences", "5/C15"),
 "C12": ("Lean theorems: the check-statistics codec round-trips (deser_ser_check: unary collapse, the `value` special case, `options`), checks keyed by name round-trip exactly when the names are distinct (deser_ser_checks; same_kind_checks_collapse is the witness of the recorded region); a script slot reads back as the value it was filled with whenever its filling mode is adequate for the kind of value (seen_lit_of_modeOk) and bare/hand-quoted text does not (witnesses). Per-run obligations by `decide` over tables regenerated from pandas_io.py / checks.py: every serialisable attribute of Column, Index and DataFrameSchema has a template slot filled from that attribute in an adequate mode; filled keywords = slots = constructor parameters; the fills read existing statistics keys; writer and reader key sets agree; a unary built-in's statistic is the first positional parameter. Differential: from_yaml(to_yaml(S)), from_json(to_json(S)), exec(to_script(S)) compared attribute by attribute and with ==, text idempotence, verdicts on probe frames; the model's codec vs serialize_schema",
         "Lean 4 proof (check codec, slot modes) + translator (script slot / key tables) + differential round trips", "5/C12"),
 "C14": ("Lean theorems over the abstract data universe: the component inferred from an array (dtype, nullable iff a null occurs, >= min and <= max through float()) is satisfied by that array under C01's declarative semantics (infer_field_ok, every array whose values fit its dtype), lifted to frames (infer_frame_sat); the bounds are attained by elements of the data (bounds_tight); conversion to double is exact on the 53-bit range (roundF64_small) and for any monotone conversion the converted minimum/maximum bound every converted element (float_bounds_accept). Per-run obligation by `decide` over the table regenerated from _get_array_check_statistics (which check, which aggregate, which conversion per dtype kind; all-null guard; nullable = any null). Differential: inferred dtype / nullable / bounds per component vs the model (exact, incl. 2^53..2^63 neighbours), and the property on the implementation (infer, validate, values unchanged, tight bounds, yaml/json round trip with the same verdict) for frames inside and outside the universe",
         "Lean 4 proof (inference model satisfies the declarative semantics) + translator (inferred-statistics table) + differential correspondence", "5/C14"),
}
NA = {}
for i in range(1, 21):
    pid = f"C{i:02d}"
    if pid not in CHECKS:
        NA[pid] = "check not built yet in this round (planned, see DESIGN.md §5)"

m = {
 "version": 1,
 "setup_cmd": "./setup.sh",
 "hooks": {"guard": "PANDERA_VERIF", "enable": "no source hook is required; checks import /repo/pandera in-process",
           "baseline_off_cmd": "cd /repo && /venv/bin/python -m pytest -ra -q -p no:cacheprovider --timeout=900 --continue-on-collection-errors",
           "source_commits": [], "add_only": True},
 "engines": [{"name": "lean-model", "path": "lean/", "serves_properties": sorted(CHECKS),
              "kind_free_text": "Lean 4 executable models + theorems; Generated/*.lean regenerated from /repo (translator tie); line-protocol drivers for the differential tie"}],
 "checks": [],
 "not_applicable": [{"property_id": k, "reason": v} for k, v in sorted(NA.items())],
 "notes": "Every check: regenerate Generated/*.lean from /repo -> lake build of the property's root -> #print axioms audit -> differential correspondence (model driver vs real pandera) -> decision rule of DESIGN.md §2.3. Exit 2 = infrastructure failure.",
}
for pid, (text, tech, ref) in sorted(CHECKS.items()):
    m["checks"].append({
        "property_id": pid,
        "quick_cmd": f"./check {pid} --tier quick",
        "thorough_cmd": f"./check {pid} --tier thorough",
        "evidence_file": f"evidence/{pid}.json",
        "replay_cmd_template": f"./check {pid} --replay {{path}}",
        "engine": "lean-model",
        "level_claimed": {"category": "proof", "text": text, "design_ref": f"DESIGN.md §{ref}"},
        "level_note": "Trusted: Lean kernel; axioms propext/Classical.choice/Quot.sound only; the spec definitions; the Python extractors and concretiser; pandas/polars behaviour on the abstract universe is tied to the model by differential testing only.",
        "technique": tech,
    })
json.dump(m, open("MANIFEST.json", "w"), indent=1)
print("ok", len(m["checks"]), "checks")

"""Translator (T): the functions of pandera that mutate shared state temporarily -> the Effects IR.

Python subset handled:
  X = obj.attr                      -> .save  loc(obj.attr) slot(X)      (obj.attr tracked)
  X = get_config_context(...)       -> .save  loc(ctx) slot(X)
  obj.attr = X   (X a slot)         -> .restore loc slot
  obj.attr = <other>                -> .setv loc 0
  obj.set_name(..) anywhere         -> .setv loc(obj.name) 0   (set_name is `self.name = …; return self`)
  reset_config_context(X)           -> .restore loc(ctx) slot(X)   (body of reset_config_context verified)
  _CONTEXT_CONFIG.attr = v          -> .setv loc(ctx) 0
  any other call / yield / return / raise -> .call   (may or may not raise; `return`/`raise` leave the
                                       block, which the nondeterministic `.call` over-approximates)
  try/except/finally, for/while, if/else, with config_context(...)
Anything else that assigns to an attribute of a non-local object is translated to a `.setv` on a
fresh location, so an unexpected new mutation makes `restores` fail rather than being skipped.
"""
from __future__ import annotations

import ast
from pathlib import Path

CTX = "_CONTEXT_CONFIG"


class Tr:
    def __init__(self, fn, tracked_roots, extra_locals=()):
        self.fn = fn
        self.roots = set(tracked_roots)         # names whose attributes are shared state
        self.locs: dict[str, int] = {}
        self.slots: dict[str, int] = {}
        self.slot_of_loc: dict[str, str] = {}

    def loc(self, key):
        if key not in self.locs:
            self.locs[key] = len(self.locs)
        return self.locs[key]

    def slot(self, name):
        if name not in self.slots:
            self.slots[name] = len(self.slots)
        return self.slots[name]

    # ---- helpers -------------------------------------------------------
    def attr_key(self, node):
        """obj.attr with obj a tracked root -> 'obj.attr'"""
        if isinstance(node, ast.Attribute) and isinstance(node.value, ast.Name) and node.value.id in self.roots:
            return f"{node.value.id}.{node.attr}"
        return None

    def has_call(self, node):
        return any(isinstance(n, (ast.Call, ast.Yield, ast.YieldFrom, ast.Await)) for n in ast.walk(node))

    def set_names(self, node):
        """obj.set_name(...) calls inside an expression -> setv on obj.name"""
        out = []
        for n in ast.walk(node):
            if (isinstance(n, ast.Call) and isinstance(n.func, ast.Attribute) and n.func.attr == "set_name"
                    and isinstance(n.func.value, ast.Name) and n.func.value.id in self.roots):
                out.append(f"(.setv {self.loc(n.func.value.id + '.name')} 0)")
        return out

    def seq(self, parts):
        parts = [p for p in parts if p != ".skip"]
        if not parts:
            return ".skip"
        out = parts[-1]
        for p in reversed(parts[:-1]):
            out = f"(.seq {p} {out})"
        return out

    # ---- statements ----------------------------------------------------
    def stmt(self, s) -> str:
        if isinstance(s, (ast.Expr,)) and isinstance(s.value, ast.Constant):
            return ".skip"
        if isinstance(s, ast.Assign) and len(s.targets) == 1:
            t, v = s.targets[0], s.value
            # X = obj.attr
            if isinstance(t, ast.Name):
                k = self.attr_key(v)
                # X = getattr(obj, "_attr", obj.attr): the stored flag behind the property `attr`
                if (k is None and isinstance(v, ast.Call) and getattr(v.func, "id", None) == "getattr"
                        and len(v.args) == 3 and isinstance(v.args[1], ast.Constant)
                        and self.attr_key(v.args[2]) is not None and isinstance(v.args[0], ast.Name)
                        and v.args[0].id in self.roots
                        and v.args[1].value == "_" + v.args[2].attr and v.args[2].value.id == v.args[0].id):
                    k = self.attr_key(v.args[2])
                if k is not None:
                    return f"(.save {self.loc(k)} {self.slot(t.id)})"
                if (isinstance(v, ast.Call) and getattr(v.func, "id", None) == "get_config_context"):
                    return f"(.save {self.loc(CTX)} {self.slot(t.id)})"
                parts = self.set_names(v)
                if self.has_call(v):
                    parts.append(".call")
                return self.seq(parts)
            # obj.attr = …
            k = self.attr_key(t)
            if k is None and isinstance(t, ast.Attribute) and isinstance(t.value, ast.Name) and t.value.id == CTX:
                k = CTX
                if self.has_call(v):
                    return self.seq([".call", f"(.setv {self.loc(CTX)} 0)"])
                return f"(.setv {self.loc(CTX)} 0)"
            if k is not None:
                if isinstance(v, ast.Name) and v.id in self.slots:
                    return f"(.restore {self.loc(k)} {self.slots[v.id]})"
                pre = [".call"] if self.has_call(v) else []
                return self.seq(pre + [f"(.setv {self.loc(k)} 0)"])
            # subscript / attribute of something else: local containers are not shared state
            parts = self.set_names(v)
            if self.has_call(v):
                parts.append(".call")
            return self.seq(parts)
        if isinstance(s, ast.Expr):
            v = s.value
            if (isinstance(v, ast.Call) and isinstance(v.func, ast.Attribute) and v.func.attr == "set"
                    and getattr(v.func.value, "id", None) == CTX and len(v.args) == 1):
                pre = [".call"] if self.has_call(v.args[0]) else []
                return self.seq(pre + [f"(.setv {self.loc(CTX)} 0)"])
            if (isinstance(v, ast.Call) and getattr(v.func, "id", None) == "reset_config_context"
                    and len(v.args) == 1 and isinstance(v.args[0], ast.Name) and v.args[0].id in self.slots):
                return f"(.restore {self.loc(CTX)} {self.slots[v.args[0].id]})"
            parts = self.set_names(v)
            if self.has_call(v):
                parts.append(".call")
            return self.seq(parts)
        if isinstance(s, (ast.Return, ast.Raise)):
            parts = self.set_names(s) if getattr(s, "value", None) is not None or isinstance(s, ast.Raise) else []
            return self.seq(parts + [".call"])
        if isinstance(s, ast.If):
            pre = [".call"] if self.has_call(s.test) else []
            return self.seq(pre + [f"(.choice {self.block(s.body)} {self.block(s.orelse)})"])
        if isinstance(s, (ast.For, ast.While)):
            head = s.iter if isinstance(s, ast.For) else s.test
            pre = [".call"] if self.has_call(head) else []
            return self.seq(pre + [f"(.loop {self.block(s.body)})"] + ([self.block(s.orelse)] if s.orelse else []))
        if isinstance(s, ast.Try):
            body = self.block(s.body + s.orelse)
            if s.handlers:
                hs = [self.block(h.body) for h in s.handlers]
                h = hs[0]
                for x in hs[1:]:
                    h = f"(.choice {h} {x})"
                # an exception no handler matches propagates: choice with re-raise (= call)
                body = f"(.tryCatch {body} (.choice {h} .call))"
            if s.finalbody:
                body = f"(.tryFinally {body} {self.block(s.finalbody)})"
            return body
        if isinstance(s, ast.With):
            # with config_context(...): body   ==   save ctx; set ctx; try body finally restore ctx
            item = s.items[0].context_expr
            if isinstance(item, ast.Call) and getattr(item.func, "id", None) == "config_context":
                k = self.loc(CTX)
                sl = self.slot("__with_ctx_%d" % s.lineno)
                pre = [".call"] if any(self.has_call(a) for a in list(item.args) + [kw.value for kw in item.keywords]) else []
                return self.seq(pre + [f"(.save {k} {sl})", f"(.setv {k} 0)",
                                       f"(.tryFinally {self.block(s.body)} (.restore {k} {sl}))"])
            return self.seq([".call", self.block(s.body)])
        if isinstance(s, (ast.FunctionDef, ast.Pass, ast.Global, ast.Nonlocal, ast.Import, ast.ImportFrom)):
            return ".skip"
        if isinstance(s, (ast.AugAssign, ast.AnnAssign)):
            return ".call" if self.has_call(s) else ".skip"
        if isinstance(s, ast.Assert):
            return ".call"
        if isinstance(s, ast.Delete):
            return ".skip"
        return ".call"

    def block(self, stmts) -> str:
        return self.seq([self.stmt(s) for s in stmts])


def find_fn(tree, path):
    """path like ['DataFrameSchemaBackend', 'run_schema_component_checks'] or
    ['ColumnBackend', 'validate', 'validate_column']"""
    node = tree
    for name in path:
        body = node.body
        nxt = None
        for n in body:
            if isinstance(n, (ast.FunctionDef, ast.ClassDef, ast.AsyncFunctionDef)) and n.name == name:
                nxt = n
        if nxt is None:
            # nested inside statements of a function
            for n in ast.walk(node):
                if isinstance(n, ast.FunctionDef) and n.name == name:
                    nxt = n
                    break
        if nxt is None:
            return None
        node = nxt
    return node


def reset_ok(tree) -> bool:
    """reset_config_context(conf): global _CONTEXT_CONFIG; _CONTEXT_CONFIG = copy(conf or CONFIG)"""
    fn = find_fn(tree, ["reset_config_context"])
    if fn is None:
        return False
    body = [s for s in fn.body if not (isinstance(s, ast.Expr) and isinstance(s.value, ast.Constant))]
    # ContextVar form: `_CONTEXT_CONFIG.set(copy(conf or CONFIG))`
    if len(body) == 1 and isinstance(body[0], ast.Expr) and isinstance(body[0].value, ast.Call):
        c = body[0].value
        if (isinstance(c.func, ast.Attribute) and c.func.attr == "set" and getattr(c.func.value, "id", None) == CTX
                and len(c.args) == 1 and isinstance(c.args[0], ast.Call)
                and getattr(c.args[0].func, "id", None) == "copy" and len(c.args[0].args) == 1):
            arg = c.args[0].args[0]
            return (isinstance(arg, ast.BoolOp) and isinstance(arg.op, ast.Or)
                    and getattr(arg.values[0], "id", None) == "conf")
        return False
    if len(body) != 2 or not isinstance(body[0], ast.Global) or body[0].names != [CTX]:
        return False
    a = body[1]
    if not (isinstance(a, ast.Assign) and getattr(a.targets[0], "id", None) == CTX and isinstance(a.value, ast.Call)
            and getattr(a.value.func, "id", None) == "copy" and len(a.value.args) == 1):
        return False
    arg = a.value.args[0]
    return (isinstance(arg, ast.BoolOp) and isinstance(arg.op, ast.Or) and getattr(arg.values[0], "id", None) == "conf")


def context_var_ok(tree) -> bool:
    declared = False
    for node in tree.body:
        tgt = None
        if isinstance(node, ast.AnnAssign) and getattr(node.target, "id", None) == CTX:
            tgt = node.value
        elif isinstance(node, ast.Assign) and getattr(node.targets[0], "id", None) == CTX:
            tgt = node.value
        if tgt is not None:
            declared = isinstance(tgt, ast.Call) and getattr(tgt.func, "id", None) == "ContextVar"
            if not declared:
                return False
    if not declared:
        return False
    # every other use is `_CONTEXT_CONFIG.get(...)` / `_CONTEXT_CONFIG.set(...)`; never rebound via `global`
    for node in ast.walk(tree):
        if isinstance(node, ast.Global) and CTX in node.names:
            return False
        if isinstance(node, ast.Attribute) and getattr(node.value, "id", None) == CTX and node.attr not in ("get", "set"):
            return False
    return True


SPECS = [
    # lean name, file, path, tracked roots
    ("configContext", "pandera/config.py", ["config_context"], []),
    ("runSchemaComponentChecks", "pandera/backends/pandas/container.py",
     ["DataFrameSchemaBackend", "run_schema_component_checks"], ["schema_component", "schema"]),
    ("validateColumn", "pandera/backends/pandas/components.py",
     ["ColumnBackend", "validate", "validate_column"], ["schema"]),
    ("polarsContainerValidate", "pandera/api/polars/container.py", ["DataFrameSchema", "validate"], ["self"]),
    ("polarsColumnValidate", "pandera/api/polars/components.py", ["Column", "validate"], ["self"]),
    ("indexBackendValidate", "pandera/backends/pandas/components.py", ["IndexBackend", "validate"], ["schema"]),
    ("arrayBackendValidate", "pandera/backends/pandas/array.py", ["ArraySchemaBackend", "validate"], ["schema"]),
    ("collectSchemaComponents", "pandera/backends/pandas/container.py",
     ["DataFrameSchemaBackend", "collect_schema_components"], ["col", "schema"]),
]


def render(repo: Path) -> str:
    lines = ["import PanderaModel.Effects",
             "/-! GENERATED by /verif/extract/skeletons.py from /repo — do not edit. -/",
             "namespace Pandera.Generated", "open Pandera.Eff", ""]
    cfg_tree = ast.parse((repo / "pandera/config.py").read_text())
    lines.append(f"def resetConfigContextOk : Bool := {'true' if reset_ok(cfg_tree) else 'false'}")
    lines.append("/-- `_CONTEXT_CONFIG` is declared as a `ContextVar` (local to the thread / task) and is only ever")
    lines.append("accessed through `.get()` / `.set()` -/")
    lines.append(f"def contextConfigIsContextVar : Bool := {'true' if context_var_ok(cfg_tree) else 'false'}")
    lines.append("")
    for lean, file, path, roots in SPECS:
        tree = ast.parse((repo / file).read_text())
        fn = find_fn(tree, path)
        if fn is None:
            lines.append(f"def skel_{lean} : Stmt := .seq (.setv 999 0) .skip   -- function not found")
            lines.append(f"def locs_{lean} : List String := []")
            continue
        tr = Tr(fn, roots)
        body = tr.block(fn.body)
        lines.append(f"/-- `{file}`: `{'.'.join(path)}`; locations: {tr.locs} -/")
        lines.append(f"def skel_{lean} : Stmt := {body}")
        locs = sorted(tr.locs, key=lambda k: tr.locs[k])
        lines.append("def locs_%s : List String := [%s]" % (lean, ", ".join(f'"{k}"' for k in locs)))
        lines.append("")
    lines += ["end Pandera.Generated", ""]
    return "\n".join(lines)


if __name__ == "__main__":
    import sys
    print(render(Path(sys.argv[1] if len(sys.argv) > 1 else "/repo")))

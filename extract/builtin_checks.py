"""Translator (T): bodies of the registered built-in check functions -> the `CE` IR.

Handles a deliberately small Python subset; anything else becomes `.unsupported`, which no
theorem accepts, so an unexpected rewrite surfaces as a broken obligation.
"""
from __future__ import annotations

import ast
from pathlib import Path

CMP = {ast.Eq: "eq", ast.NotEq: "ne", ast.Lt: "lt", ast.LtE: "le", ast.Gt: "gt", ast.GtE: "ge"}
OPERATOR = {"eq": "eq", "ne": "ne", "lt": "lt", "le": "le", "gt": "gt", "ge": "ge"}
FLIP = {"eq": "eq", "ne": "ne", "lt": "gt", "le": "ge", "gt": "lt", "ge": "le"}
STR_METHODS = {"match": "strMatch", "contains": "strContains", "startswith": "strStartswith",
               "endswith": "strEndswith"}
UNSUPPORTED = ".unsupported"


class Tr:
    def __init__(self, fn: ast.FunctionDef, data_name: str):
        self.fn = fn
        self.data = data_name
        self.params = [a.arg for a in fn.args.args][1:]
        self.env: dict[str, ast.AST] = {}

    # ---- operands ------------------------------------------------------
    def strip_cast(self, e):
        # cast(str, pattern) -> pattern
        if isinstance(e, ast.Call) and getattr(e.func, "id", None) == "cast" and len(e.args) == 2:
            return e.args[1]
        return e

    def operand(self, e):
        e = self.strip_cast(e)
        if isinstance(e, ast.Name):
            if e.id == self.data:
                return ".data"
            if e.id in self.params:
                return f'.arg "{e.id}"'
        return None

    def is_strlen(self, e):
        if isinstance(e, ast.Name) and e.id in self.env:
            e = self.env[e.id]
        return (isinstance(e, ast.Call) and isinstance(e.func, ast.Attribute) and e.func.attr == "len"
                and isinstance(e.func.value, ast.Attribute) and e.func.value.attr == "str"
                and isinstance(e.func.value.value, ast.Name) and e.func.value.value.id == self.data
                and not e.args and not e.keywords)

    # ---- expressions ---------------------------------------------------
    def expr(self, e) -> str:
        if isinstance(e, ast.Compare) and len(e.ops) == 1 and type(e.ops[0]) in CMP:
            op = CMP[type(e.ops[0])]
            l, r = e.left, e.comparators[0]
            if self.is_strlen(l):
                a = self.operand(r)
                if a and a.startswith(".arg"):
                    return f"(.strLenCmp .{op} {a[5:]})"
                return UNSUPPORTED
            if self.is_strlen(r):
                a = self.operand(l)
                if a and a.startswith(".arg"):
                    return f"(.strLenCmp .{FLIP[op]} {a[5:]})"
                return UNSUPPORTED
            a, b = self.operand(l), self.operand(r)
            if a and b:
                return f"(.cmp .{op} ({a}) ({b}))"
            return UNSUPPORTED
        if isinstance(e, ast.BinOp) and isinstance(e.op, ast.BitAnd):
            return f"(.and {self.expr(e.left)} {self.expr(e.right)})"
        if isinstance(e, ast.BinOp) and isinstance(e.op, ast.BitOr):
            return f"(.or {self.expr(e.left)} {self.expr(e.right)})"
        if isinstance(e, ast.UnaryOp) and isinstance(e.op, ast.Invert):
            return f"(.not {self.expr(e.operand)})"
        if isinstance(e, ast.Call):
            f = e.func
            # data.isin(arg)
            if (isinstance(f, ast.Attribute) and f.attr == "isin" and isinstance(f.value, ast.Name)
                    and f.value.id == self.data and len(e.args) == 1 and not e.keywords):
                a = self.operand(e.args[0])
                if a and a.startswith(".arg"):
                    return f"(.isin {a[5:]})"
                return UNSUPPORTED
            # data.str.<m>(arg, na=False)
            if (isinstance(f, ast.Attribute) and f.attr in STR_METHODS and isinstance(f.value, ast.Attribute)
                    and f.value.attr == "str" and isinstance(f.value.value, ast.Name)
                    and f.value.value.id == self.data and len(e.args) == 1):
                kws = {k.arg: k.value for k in e.keywords}
                na_false = (set(kws) == {"na"} and isinstance(kws["na"], ast.Constant) and kws["na"].value is False)
                a = self.operand(e.args[0])
                if na_false and a and a.startswith(".arg"):
                    return f"(.{STR_METHODS[f.attr]} {a[5:]})"
                return UNSUPPORTED
            # op_var(a, b) with op_var = operator.X if flag else operator.Y
            if isinstance(f, ast.Name) and f.id in self.env and len(e.args) == 2 and not e.keywords:
                sel = self.env[f.id]
                if (isinstance(sel, ast.IfExp) and isinstance(sel.test, ast.Name) and sel.test.id in self.params):
                    ops = []
                    for branch in (sel.body, sel.orelse):
                        if (isinstance(branch, ast.Attribute) and isinstance(branch.value, ast.Name)
                                and branch.value.id == "operator" and branch.attr in OPERATOR):
                            ops.append(OPERATOR[branch.attr])
                    a, b = self.operand(e.args[0]), self.operand(e.args[1])
                    if len(ops) == 2 and a and b:
                        return (f'(.ifFlag "{sel.test.id}" (.cmp .{ops[0]} ({a}) ({b})) '
                                f'(.cmp .{ops[1]} ({a}) ({b})))')
            return UNSUPPORTED
        if isinstance(e, ast.Name) and e.id in self.env:
            return self.expr(self.env[e.id])
        return UNSUPPORTED

    # ---- statements ----------------------------------------------------
    def none_test(self, t):
        """`a is None` / `a is None and b is None` -> list of argument names"""
        if (isinstance(t, ast.Compare) and len(t.ops) == 1 and isinstance(t.ops[0], ast.Is)
                and isinstance(t.comparators[0], ast.Constant) and t.comparators[0].value is None
                and isinstance(t.left, ast.Name) and t.left.id in self.params):
            return [t.left.id]
        if isinstance(t, ast.BoolOp) and isinstance(t.op, ast.And):
            out = []
            for v in t.values:
                x = self.none_test(v)
                if x is None:
                    return None
                out += x
            return out
        return None

    def block(self, stmts) -> str:
        if not stmts:
            return UNSUPPORTED
        s, rest = stmts[0], stmts[1:]
        if isinstance(s, ast.Expr) and isinstance(s.value, ast.Constant):  # docstring
            return self.block(rest)
        if isinstance(s, ast.Return):
            return self.expr(s.value) if s.value is not None else UNSUPPORTED
        if isinstance(s, ast.Raise):
            return ".raise"
        if isinstance(s, ast.Assign) and len(s.targets) == 1 and isinstance(s.targets[0], ast.Name):
            self.env[s.targets[0].id] = s.value
            return self.block(rest)
        if isinstance(s, ast.If):
            names = self.none_test(s.test)
            if names is None:
                return UNSUPPORTED
            t = self.block(s.body)
            e = self.block(s.orelse + rest) if s.orelse else self.block(rest)
            lst = "[" + ", ".join(f'"{n}"' for n in names) + "]"
            return f"(.ifNone {lst} {t} {e})"
        return UNSUPPORTED


def extract_file(path: Path, decorator="register_builtin_check") -> dict[str, str]:
    tree = ast.parse(path.read_text())
    out = {}
    for node in tree.body:
        if not isinstance(node, ast.FunctionDef):
            continue
        registered = any(
            isinstance(d, ast.Call) and getattr(d.func, "id", getattr(d.func, "attr", None)) == decorator
            for d in node.decorator_list)
        if not registered or not node.args.args:
            continue
        tr = Tr(node, node.args.args[0].arg)
        out[node.name] = tr.block(node.body)
    return out


def render(repo: Path) -> str:
    pandas = extract_file(repo / "pandera/backends/pandas/builtin_checks.py")
    lines = [
        "import PanderaModel.CheckExpr",
        "/-! GENERATED by /verif/extract/builtin_checks.py from /repo — do not edit. -/",
        "namespace Pandera.Generated",
        "",
        "def pandasBuiltins : List (String × CE) := [",
    ]
    items = [f'  ("{k}", {v})' for k, v in pandas.items()]
    lines.append(",\n".join(items))
    lines += ["]", "", "end Pandera.Generated", ""]
    return "\n".join(lines)


if __name__ == "__main__":
    import sys
    print(render(Path(sys.argv[1] if len(sys.argv) > 1 else "/repo")))

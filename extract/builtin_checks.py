"""Translator (T): bodies of the registered built-in check functions -> the `CE` IR.

Handles a deliberately small Python subset; anything else becomes `.unsupported`, which no
theorem accepts, so an unexpected rewrite surfaces as a broken obligation.
"""
from __future__ import annotations

import ast
from pathlib import Path

CMP = {ast.Eq: "eq", ast.NotEq: "ne", ast.Lt: "lt", ast.LtE: "le", ast.Gt: "gt", ast.GtE: "ge"}
OPERATOR = {"eq": "eq", "ne": "ne", "lt": "lt", "le": "le", "gt": "gt", "ge": "ge"}
FLIP = {"eq": "eq", "ne": "ne", "lt": "gt", "le": "ge", "gt": "lt", "ge": "le"}
STR_METHODS = {"match": "strMatch", "contains": "strContains", "startswith": "strStartswith",
               "endswith": "strEndswith"}
UNSUPPORTED = ".unsupported"


class Tr:
    def __init__(self, fn: ast.FunctionDef, data_name: str):
        self.fn = fn
        self.data = data_name
        self.params = [a.arg for a in fn.args.args][1:]
        self.env: dict[str, ast.AST] = {}

    # ---- operands ------------------------------------------------------
    def strip_cast(self, e):
        # cast(str, pattern) -> pattern
        if isinstance(e, ast.Call) and getattr(e.func, "id", None) == "cast" and len(e.args) == 2:
            return e.args[1]
        return e

    def operand(self, e):
        e = self.strip_cast(e)
        if isinstance(e, ast.Name):
            if e.id == self.data:
                return ".data"
            if e.id in self.params:
                return f'.arg "{e.id}"'
        return None

    def is_strlen(self, e):
        if isinstance(e, ast.Name) and e.id in self.env:
            e = self.env[e.id]
        return (isinstance(e, ast.Call) and isinstance(e.func, ast.Attribute) and e.func.attr == "len"
                and isinstance(e.func.value, ast.Attribute) and e.func.value.attr == "str"
                and isinstance(e.func.value.value, ast.Name) and e.func.value.value.id == self.data
                and not e.args and not e.keywords)

    # ---- expressions ---------------------------------------------------
    def expr(self, e) -> str:
        if isinstance(e, ast.Compare) and len(e.ops) == 1 and type(e.ops[0]) in CMP:
            op = CMP[type(e.ops[0])]
            l, r = e.left, e.comparators[0]
            if self.is_strlen(l):
                a = self.operand(r)
                if a and a.startswith(".arg"):
                    return f"(.strLenCmp .{op} {a[5:]})"
                return UNSUPPORTED
            if self.is_strlen(r):
                a = self.operand(l)
                if a and a.startswith(".arg"):
                    return f"(.strLenCmp .{FLIP[op]} {a[5:]})"
                return UNSUPPORTED
            a, b = self.operand(l), self.operand(r)
            if a and b:
                return f"(.cmp .{op} ({a}) ({b}))"
            return UNSUPPORTED
        if isinstance(e, ast.BinOp) and isinstance(e.op, ast.BitAnd):
            return f"(.and {self.expr(e.left)} {self.expr(e.right)})"
        if isinstance(e, ast.BinOp) and isinstance(e.op, ast.BitOr):
            return f"(.or {self.expr(e.left)} {self.expr(e.right)})"
        if isinstance(e, ast.UnaryOp) and isinstance(e.op, ast.Invert):
            return f"(.not {self.expr(e.operand)})"
        if isinstance(e, ast.Call):
            f = e.func
            # data.isin(arg)
            if (isinstance(f, ast.Attribute) and f.attr == "isin" and isinstance(f.value, ast.Name)
                    and f.value.id == self.data and len(e.args) == 1 and not e.keywords):
                a = self.operand(e.args[0])
                if a and a.startswith(".arg"):
                    return f"(.isin {a[5:]})"
                return UNSUPPORTED
            # data.str.<m>(arg, na=False)
            if (isinstance(f, ast.Attribute) and f.attr in STR_METHODS and isinstance(f.value, ast.Attribute)
                    and f.value.attr == "str" and isinstance(f.value.value, ast.Name)
                    and f.value.value.id == self.data and len(e.args) == 1):
                kws = {k.arg: k.value for k in e.keywords}
                na_false = (set(kws) == {"na"} and isinstance(kws["na"], ast.Constant) and kws["na"].value is False)
                a = self.operand(e.args[0])
                if na_false and a and a.startswith(".arg"):
                    return f"(.{STR_METHODS[f.attr]} {a[5:]})"
                return UNSUPPORTED
            # op_var(a, b) with op_var = operator.X if flag else operator.Y
            if isinstance(f, ast.Name) and f.id in self.env and len(e.args) == 2 and not e.keywords:
                sel = self.env[f.id]
                if (isinstance(sel, ast.IfExp) and isinstance(sel.test, ast.Name) and sel.test.id in self.params):
                    ops = []
                    for branch in (sel.body, sel.orelse):
                        if (isinstance(branch, ast.Attribute) and isinstance(branch.value, ast.Name)
                                and branch.value.id == "operator" and branch.attr in OPERATOR):
                            ops.append(OPERATOR[branch.attr])
                    a, b = self.operand(e.args[0]), self.operand(e.args[1])
                    if len(ops) == 2 and a and b:
                        return (f'(.ifFlag "{sel.test.id}" (.cmp .{ops[0]} ({a}) ({b})) '
                                f'(.cmp .{ops[1]} ({a}) ({b})))')
            return UNSUPPORTED
        if isinstance(e, ast.Name) and e.id in self.env:
            return self.expr(self.env[e.id])
        return UNSUPPORTED

    # ---- statements ----------------------------------------------------
    def none_test(self, t):
        """`a is None` / `a is None and b is None` -> list of argument names"""
        if (isinstance(t, ast.Compare) and len(t.ops) == 1 and isinstance(t.ops[0], ast.Is)
                and isinstance(t.comparators[0], ast.Constant) and t.comparators[0].value is None
                and isinstance(t.left, ast.Name) and t.left.id in self.params):
            return [t.left.id]
        if isinstance(t, ast.BoolOp) and isinstance(t.op, ast.And):
            out = []
            for v in t.values:
                x = self.none_test(v)
                if x is None:
                    return None
                out += x
            return out
        return None

    def block(self, stmts) -> str:
        if not stmts:
            return UNSUPPORTED
        s, rest = stmts[0], stmts[1:]
        if isinstance(s, ast.Expr) and isinstance(s.value, ast.Constant):  # docstring
            return self.block(rest)
        if isinstance(s, ast.Return):
            return self.expr(s.value) if s.value is not None else UNSUPPORTED
        if isinstance(s, ast.Raise):
            return ".raise"
        if isinstance(s, ast.Assign) and len(s.targets) == 1 and isinstance(s.targets[0], ast.Name):
            self.env[s.targets[0].id] = s.value
            return self.block(rest)
        if isinstance(s, ast.If):
            names = self.none_test(s.test)
            if names is None:
                return UNSUPPORTED
            t = self.block(s.body)
            e = self.block(s.orelse + rest) if s.orelse else self.block(rest)
            lst = "[" + ", ".join(f'"{n}"' for n in names) + "]"
            return f"(.ifNone {lst} {t} {e})"
        return UNSUPPORTED


PL_CMP = {"eq": "eq", "ne": "ne", "lt": "lt", "le": "le", "gt": "gt", "ge": "ge"}


class PlTr:
    """the polars twin: `data.lazyframe.select(<expr over pl.col(data.key)>)`"""

    def __init__(self, fn: ast.FunctionDef, data_name: str):
        self.fn = fn
        self.data = data_name
        self.params = [a.arg for a in fn.args.args][1:]
        self.anchor = {}            # pattern parameter -> "group" / "caret" (how str_matches anchors it)

    # ---- helpers ---------------------------------------------------------
    def resolve(self, e, env):
        seen = 0
        while isinstance(e, ast.Name) and e.id in env and seen < 10:
            e = env[e.id]
            seen += 1
        return e

    def is_col(self, e, env):
        e = self.resolve(e, env)
        return (isinstance(e, ast.Call) and ast.unparse(e.func) == "pl.col" and len(e.args) == 1
                and ast.unparse(e.args[0]) == f"{self.data}.key")

    def is_nchars(self, e, env):
        e = self.resolve(e, env)
        return (isinstance(e, ast.Call) and isinstance(e.func, ast.Attribute) and e.func.attr == "len_chars"
                and isinstance(e.func.value, ast.Attribute) and e.func.value.attr == "str"
                and self.is_col(e.func.value.value, env) and not e.args and not e.keywords)

    def arg(self, e):
        if isinstance(e, ast.Name) and e.id in self.params:
            return e.id
        return None

    def expr(self, e, env) -> str:
        e = self.resolve(e, env)
        if isinstance(e, ast.IfExp) and isinstance(e.test, ast.Name) and e.test.id in self.params:
            return f'(.ifFlag "{e.test.id}" {self.expr(e.body, env)} {self.expr(e.orelse, env)})'
        if not (isinstance(e, ast.Call) and isinstance(e.func, ast.Attribute)):
            return UNSUPPORTED
        f, recv = e.func, e.func.value
        kws = {k.arg: k.value for k in e.keywords}
        if f.attr in PL_CMP and len(e.args) == 1 and not kws:
            a = self.arg(e.args[0])
            if a and self.is_col(recv, env):
                return f'(.cmp .{PL_CMP[f.attr]} (.data) (.arg "{a}"))'
            if a and self.is_nchars(recv, env):
                return f'(.strLenCmp .{PL_CMP[f.attr]} "{a}")'
            return UNSUPPORTED
        if f.attr == "is_between" and len(e.args) == 2 and not kws and self.is_nchars(recv, env):
            a, b = self.arg(e.args[0]), self.arg(e.args[1])
            if a and b:
                return f'(.and (.strLenCmp .le "{b}") (.strLenCmp .ge "{a}"))'
            return UNSUPPORTED
        if f.attr == "and_" and len(e.args) == 1 and not kws:
            return f"(.and {self.expr(recv, env)} {self.expr(e.args[0], env)})"
        if f.attr == "or_" and len(e.args) == 1 and not kws:
            return f"(.or {self.expr(recv, env)} {self.expr(e.args[0], env)})"
        if f.attr == "not_" and not e.args and not kws:
            return f"(.not {self.expr(recv, env)})"
        if f.attr == "is_in" and len(e.args) == 1 and not kws and self.is_col(recv, env):
            a = self.arg(e.args[0])
            return f'(.isin "{a}")' if a else UNSUPPORTED
        # str namespace
        if isinstance(recv, ast.Attribute) and recv.attr == "str" and self.is_col(recv.value, env):
            if f.attr in ("starts_with", "ends_with") and len(e.args) == 1 and not kws:
                a = self.arg(e.args[0])
                ctor = "strStartswith" if f.attr == "starts_with" else "strEndswith"
                return f'(.{ctor} "{a}")' if a else UNSUPPORTED
            if f.attr == "contains":
                pat = kws.get("pattern", e.args[0] if e.args else None)
                a = self.arg(pat) if pat is not None else None
                lit = kws.get("literal")
                if a is None or (lit is not None and not (isinstance(lit, ast.Constant) and lit.value is False)):
                    return UNSUPPORTED
                how = self.anchor.get(a)
                if how == "group":
                    return f'(.strMatch "{a}")'          # search for ^(?:p) = match p at the start
                if how == "caret":
                    return f'(.strMatchCaret "{a}")'     # search for ^p: only the first alternative is anchored
                if how is None:
                    return f'(.strContains "{a}")'
        return UNSUPPORTED

    # ---- statements ----------------------------------------------------------
    def none_test(self, t):
        return Tr.none_test(self, t)

    def pattern_stmt(self, s):
        """statements that rewrite a pattern parameter; returns True when recognised"""
        if isinstance(s, ast.Assign) and len(s.targets) == 1 and isinstance(s.targets[0], ast.Name) \
                and s.targets[0].id in self.params:
            name, v = s.targets[0].id, s.value
            # pattern = pattern.pattern if isinstance(pattern, re.Pattern) else pattern
            if ast.unparse(v).replace(" ", "") == f"{name}.patternifisinstance({name},re.Pattern)else{name}":
                return True
            if isinstance(v, ast.JoinedStr):
                parts = v.values
                if (len(parts) == 3 and isinstance(parts[0], ast.Constant) and parts[0].value == "^(?:"
                        and isinstance(parts[1], ast.FormattedValue) and getattr(parts[1].value, "id", None) == name
                        and isinstance(parts[2], ast.Constant) and parts[2].value == ")"):
                    self.anchor[name] = "group"
                    return True
                if (len(parts) == 2 and isinstance(parts[0], ast.Constant) and parts[0].value == "^"
                        and isinstance(parts[1], ast.FormattedValue) and getattr(parts[1].value, "id", None) == name):
                    self.anchor[name] = "caret"
                    return True
        # if not pattern.startswith("^"): pattern = f"^{pattern}"
        if (isinstance(s, ast.If) and not s.orelse and len(s.body) == 1
                and ast.unparse(s.test).replace(" ", "").replace('"', "'") in
                [f"not{p}.startswith('^')" for p in self.params]):
            return self.pattern_stmt(s.body[0])
        return False

    def block(self, stmts, env) -> str:
        if not stmts:
            return UNSUPPORTED
        s, rest = stmts[0], stmts[1:]
        if isinstance(s, ast.Expr) and isinstance(s.value, ast.Constant):
            return self.block(rest, env)
        if self.pattern_stmt(s):
            return self.block(rest, env)
        if isinstance(s, ast.Return):
            v = s.value
            if (isinstance(v, ast.Call) and ast.unparse(v.func) == f"{self.data}.lazyframe.select" and len(v.args) == 1
                    and not v.keywords):
                return self.expr(v.args[0], env)
            return UNSUPPORTED
        if isinstance(s, ast.Raise):
            return ".raise"
        if isinstance(s, ast.Assign) and len(s.targets) == 1 and isinstance(s.targets[0], ast.Name):
            return self.block(rest, dict(env, **{s.targets[0].id: s.value}))
        if isinstance(s, ast.If):
            names = self.none_test(s.test)
            if names is None:
                return UNSUPPORTED
            ends = lambda b: bool(b) and isinstance(b[-1], (ast.Return, ast.Raise))  # noqa: E731
            t = self.block(s.body if ends(s.body) else s.body + rest, env)
            e = self.block((s.orelse if ends(s.orelse) else s.orelse + rest) if s.orelse else rest, env)
            lst = "[" + ", ".join(f'"{n}"' for n in names) + "]"
            return f"(.ifNone {lst} {t} {e})"
        return UNSUPPORTED


def extract_file(path: Path, decorator="register_builtin_check") -> dict[str, str]:
    tree = ast.parse(path.read_text())
    out = {}
    for node in tree.body:
        if not isinstance(node, ast.FunctionDef):
            continue
        registered = any(
            isinstance(d, ast.Call) and getattr(d.func, "id", getattr(d.func, "attr", None)) == decorator
            for d in node.decorator_list)
        if not registered or not node.args.args:
            continue
        tr = Tr(node, node.args.args[0].arg)
        out[node.name] = tr.block(node.body)
    return out


def extract_polars(path: Path, decorator="register_builtin_check") -> dict[str, str]:
    tree = ast.parse(path.read_text())
    out = {}
    for node in tree.body:
        if not isinstance(node, ast.FunctionDef):
            continue
        registered = any(
            isinstance(d, ast.Call) and getattr(d.func, "id", getattr(d.func, "attr", None)) == decorator
            for d in node.decorator_list)
        if not registered or not node.args.args:
            continue
        try:
            out[node.name] = PlTr(node, node.args.args[0].arg).block(node.body, {})
        except Exception:  # noqa: BLE001
            out[node.name] = UNSUPPORTED
    return out


def render(repo: Path) -> str:
    pandas = extract_file(repo / "pandera/backends/pandas/builtin_checks.py")
    lines = [
        "import PanderaModel.CheckExpr",
        "/-! GENERATED by /verif/extract/builtin_checks.py from /repo — do not edit. -/",
        "namespace Pandera.Generated",
        "",
        "def pandasBuiltins : List (String × CE) := [",
    ]
    items = [f'  ("{k}", {v})' for k, v in pandas.items()]
    lines.append(",\n".join(items))
    lines += ["]", "", "def polarsBuiltins : List (String × CE) := ["]
    polars = extract_polars(repo / "pandera/backends/polars/builtin_checks.py")
    lines.append(",\n".join(f'  ("{k}", {v})' for k, v in polars.items()))
    lines += ["]", "", "end Pandera.Generated", ""]
    return "\n".join(lines)


if __name__ == "__main__":
    import sys
    print(render(Path(sys.argv[1] if len(sys.argv) > 1 else "/repo")))

"""Translator (T) for C20: the two `subsample` methods as programs, and for every entry point that
builds a subsample, which core check receives it and which the whole object."""
from __future__ import annotations

import ast
from pathlib import Path

OPTIONS = ("head", "tail", "sample")
CORE = {
    "check_column_names_are_unique": "namesUnique", "check_column_presence": "presence",
    "check_column_values_are_unique": "jointUnique", "run_schema_component_checks": "components",
    "check_name": "fieldName", "check_nullable": "nullable", "check_unique": "unique", "check_dtype": "dtype",
}
ENTRY = {
    "pandasContainer": ("pandera/backends/pandas/container.py", "frame"),
    "polarsContainer": ("pandera/backends/polars/container.py", "frame"),
    "pandasArray": ("pandera/backends/pandas/array.py", "field"),
    "polarsComponent": ("pandera/backends/polars/components.py", "field"),
}


def _norm(n) -> str:
    return ast.unparse(n).replace(" ", "").replace("\n", "")


def subsample_program(path: Path) -> dict:
    """pieces in source order, the de-duplication, the fall-back"""
    t = ast.parse(path.read_text())
    fn = [n for n in ast.walk(t) if isinstance(n, ast.FunctionDef) and n.name == "subsample"][-1]
    obj = fn.args.args[1].arg
    pieces, acc, ok = [], None, True
    dedup = whole = False
    for st in fn.body:
        if isinstance(st, ast.Expr) and isinstance(st.value, ast.Constant):
            continue
        if isinstance(st, ast.Assign) and isinstance(st.value, ast.List) and not st.value.elts and acc is None:
            acc = st.targets[0].id
        elif isinstance(st, ast.If) and acc is not None and not st.orelse and len(st.body) == 1:
            test = _norm(st.test)
            opt = next((o for o in OPTIONS if test == f"{o}isnotNone"), None)
            call = _norm(st.body[0])
            if opt is None:
                ok = False
            elif call == f"{acc}.append({obj}.{opt}({opt}))" or \
                    (opt == "sample" and call == f"{acc}.append({obj}.sample(sample,random_state=random_state))"):
                pieces.append(opt)
            else:
                ok = False
        elif isinstance(st, ast.Return) and acc is not None and isinstance(st.value, ast.IfExp):
            v = st.value
            whole = _norm(v.body) == obj and _norm(v.test) == f"not{acc}"
            rest = _norm(v.orelse)
            dedup = rest in (f"pd.concat({acc}).pipe(lambdax:x[~x.index.duplicated()])", f"pl.concat({acc}).unique()")
            if not dedup and rest not in (f"pd.concat({acc})", f"pl.concat({acc})"):
                ok = False
        else:
            ok = False
    if not ok:
        return {"pieces": [], "dedup": False, "whole": False}
    return {"pieces": pieces, "dedup": dedup, "whole": whole}


def _forwarded(call: ast.Call) -> bool:
    """does `self.subsample(obj, …)` pass the caller's options on?"""
    pos = [_norm(a) for a in call.args[1:]]
    kws = {k.arg: _norm(k.value) for k in call.keywords}
    if None in kws and kws[None] == "subsample_kwargs" and not pos:
        return True
    want = ["head", "tail", "sample", "random_state"]
    got = dict(zip(want, pos))
    got.update({k: v for k, v in kws.items() if k})
    return all(got.get(w) == w for w in want)


def core_table(path: Path, kind: str) -> dict:
    t = ast.parse(path.read_text())
    fns = [n for n in ast.walk(t) if isinstance(n, ast.FunctionDef)
           and any(isinstance(s, ast.Assign) and _norm(s.targets[0]) == "core_checks" for s in ast.walk(n))]
    if len(fns) != 1:
        return {"table": [], "forwards": False}
    fn = fns[0]
    params = [a.arg for a in fn.args.args]
    obj = "check_obj"
    subs, forwards, shared = {}, True, None
    table = []
    for st in ast.walk(fn):
        if not isinstance(st, ast.Assign) or len(st.targets) != 1 or not isinstance(st.targets[0], ast.Name):
            continue
        name, v = st.targets[0].id, st.value
        if isinstance(v, ast.Call) and _norm(v.func) == "self.subsample":
            subs[name] = _norm(v.args[0]) if v.args else "?"
            forwards = forwards and _forwarded(v)
        elif name == "args" and isinstance(v, ast.Tuple):
            shared = v
    # a name bound to a subsample must not be rebound to something else afterwards, and the whole
    # object must be the parameter itself
    if obj not in params:
        return {"table": [], "forwards": False}

    def arg_kind(tup):
        if not isinstance(tup, ast.Tuple) or not tup.elts:
            return "other"
        a = _norm(tup.elts[0])
        if a in subs:
            return "sample"
        return "whole" if a == obj else "other"

    for st in ast.walk(fn):
        if isinstance(st, ast.Assign) and _norm(st.targets[0]) == "core_checks" and isinstance(st.value, ast.List):
            for e in st.value.elts:
                if isinstance(e, ast.Tuple) and len(e.elts) == 2 and _norm(e.elts[0]).startswith("self."):
                    nm, k = _norm(e.elts[0])[5:], arg_kind(e.elts[1])
                elif isinstance(e, ast.Attribute) and _norm(e).startswith("self."):
                    nm, k = _norm(e)[5:], arg_kind(shared)
                else:
                    nm, k = "?", "other"
                if nm == "run_checks":
                    cc = "frameChecks" if kind == "frame" else "checks"
                else:
                    cc = CORE.get(nm, "unknown")
                table.append((cc, k))
    # how the entry point is reached: the public validate passes the options on
    for n in ast.walk(t):
        if isinstance(n, ast.Call) and _norm(n.func) == f"self.{fn.name}" and fn.name != "validate":
            kws = {k.arg: _norm(k.value) for k in n.keywords}
            pos = [_norm(a) for a in n.args]
            for w in ("head", "tail", "sample", "random_state"):
                if kws.get(w) != w and w not in pos:
                    forwards = False
    return {"table": table, "forwards": forwards and bool(subs)}


def extract(repo: Path) -> dict:
    out = {"pandasSubsample": subsample_program(repo / "pandera/backends/pandas/base.py"),
           "polarsSubsample": subsample_program(repo / "pandera/backends/polars/base.py")}
    for k, (f, kind) in ENTRY.items():
        out[k] = core_table(repo / f, kind)
    return out


def render(repo: Path) -> str:
    try:
        i = extract(repo)
    except Exception:  # noqa: BLE001
        i = {"pandasSubsample": {"pieces": [], "dedup": False, "whole": False},
             "polarsSubsample": {"pieces": [], "dedup": False, "whole": False},
             **{k: {"table": [], "forwards": False} for k in ENTRY}}
    b = lambda x: "true" if x else "false"  # noqa: E731
    L = ["/- GENERATED by /verif/extract/subsample_rules.py from the working tree of /repo — do not edit. -/",
         "import PanderaModel.Subsample", "namespace Pandera.Generated.SubsampleRules", "open Pandera", ""]
    for k in ("pandasSubsample", "polarsSubsample"):
        p = i[k]
        L.append(f"def {k} : SubProg := {{ pieces := [{', '.join('.' + x for x in p['pieces'])}], "
                 f"dedup := {b(p['dedup'])}, wholeWhenNoOption := {b(p['whole'])} }}")
    L.append("")
    for k in ENTRY:
        t = i[k]["table"]
        L.append(f"def {k} : List (CoreCheck × Arg) := [{', '.join(f'(.{c}, .{a})' for c, a in t)}]")
    L.append("")
    L.append("/-- every entry point hands the caller's head / tail / sample / random_state to `subsample` -/")
    L.append("def forwards : List Bool := [" + ", ".join(b(i[k]["forwards"]) for k in ENTRY) + "]")
    L += ["", "end Pandera.Generated.SubsampleRules", ""]
    return "\n".join(L)


if __name__ == "__main__":
    import sys
    print(render(Path(sys.argv[1] if len(sys.argv) > 1 else "/repo")))

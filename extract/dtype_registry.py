"""Translator (T): runtime dump of the dtype registries of every engine of the working tree.

Must run inside an interpreter that imports /repo's pandera.  For every engine E:
  * keys  : every key of `Engine._registry[E].equivalents` (+ every registered dtype class and, for
            each resolved dtype, the dtype instance itself, its class and its printed name)
  * dtypes: the distinct resolved data types (by ==), each with str, hash, re-resolution of itself
            and of its printed name, a (kind, signedness, bit width) classification and a
            `primitive` flag
  * check : the full matrix t1.check(t2)
  * groups: keys registered together in one `register_dtype(..., equivalents=[...])` call
"""
from __future__ import annotations

import json
import warnings


def engines():
    out = {}
    from pandera.engines import numpy_engine, pandas_engine
    out["numpy"] = numpy_engine.Engine
    out["pandas"] = pandas_engine.Engine
    try:
        from pandera.engines import polars_engine
        out["polars"] = polars_engine.Engine
    except Exception:  # noqa: BLE001
        pass
    try:
        from pandera.engines import pyspark_engine
        out["pyspark"] = pyspark_engine.Engine
    except Exception:  # noqa: BLE001
        pass
    return out


SPARK_BITS = {"ByteType": 8, "ShortType": 16, "IntegerType": 32, "LongType": 64, "FloatType": 32, "DoubleType": 64}


def native_bits(t):
    """bit width of the *native* type a pandera data type boxes (numpy / pandas extension / pyarrow / polars / spark);
    None when it cannot be told — the caller then falls back to pandera's own `bit_width` metadata"""
    nt = getattr(t, "type", None)
    if nt is None:
        return None
    try:
        import numpy as np
        if isinstance(nt, np.dtype):
            return nt.itemsize * 8
        nd = getattr(nt, "numpy_dtype", None)               # pandas nullable extension dtypes
        if isinstance(nd, np.dtype):
            return nd.itemsize * 8
        pad = getattr(nt, "pyarrow_dtype", None)            # pandas ArrowDtype
        if pad is not None and hasattr(pad, "bit_width"):
            return int(pad.bit_width)
    except Exception:  # noqa: BLE001
        pass
    name = type(nt).__name__ if not isinstance(nt, type) else nt.__name__
    if name in SPARK_BITS:
        return SPARK_BITS[name]
    import re
    m = re.fullmatch(r"U?Int(\d+)|Float(\d+)", name)     # polars
    if m:
        return int(m.group(1) or m.group(2))
    return None


def classify(t):
    """(kind, signed, bits) for physical types; kind 'other' otherwise.  The width is the native type's"""
    from pandera import dtypes
    kind, signed, bits = "other", None, None
    try:
        if isinstance(t, dtypes.Bool):
            kind = "bool"
        elif isinstance(t, dtypes.Int):
            kind, signed, bits = "int", bool(getattr(t, "signed", True)), getattr(t, "bit_width", None)
        elif isinstance(t, dtypes.Float):
            kind, bits = "float", getattr(t, "bit_width", None)
        elif isinstance(t, dtypes.Complex):
            kind, bits = "complex", getattr(t, "bit_width", None)
        elif isinstance(t, dtypes.Timedelta):
            kind = "timedelta"
        elif isinstance(t, dtypes.Date):
            kind = "date"
        elif isinstance(t, dtypes.DateTime):
            kind = "datetime"
        elif isinstance(t, dtypes.Decimal):
            kind = "decimal"
        elif isinstance(t, dtypes.Category):
            kind = "category"
        elif isinstance(t, dtypes.String):
            kind = "string"
        elif isinstance(t, dtypes.Binary):
            kind = "binary"
    except Exception:  # noqa: BLE001
        pass
    if kind in ("int", "float", "complex"):
        nb = native_bits(t)
        if nb is not None:
            bits = nb
    return kind, signed, bits


PRIMITIVE_KINDS = {"bool", "int", "float", "complex", "timedelta", "date", "datetime", "category", "string"}


def key_repr(k):
    try:
        if isinstance(k, type):
            return f"<class {k.__module__}.{k.__qualname__}>"
        return f"{type(k).__name__}:{k!r}"
    except Exception:  # noqa: BLE001
        return f"{type(k).__name__}:<unprintable>"


def dump_engine(name, E):
    from pandera.engines.engine import Engine as Meta
    reg = Meta._registry[E]
    dtypes_list = []   # distinct dtypes

    def ident(t):
        for i, u in enumerate(dtypes_list):
            try:
                if type(u) is type(t) and u == t and hash(u) == hash(t):
                    return i
            except Exception:  # noqa: BLE001
                continue
        dtypes_list.append(t)
        return len(dtypes_list) - 1

    def resolve(x):
        with warnings.catch_warnings():
            warnings.simplefilter("ignore")
            try:
                return ("ok", E.dtype(x))
            except Exception as e:  # noqa: BLE001
                return ("err", type(e).__name__)

    keys = []
    groups = {}
    for k, inst in reg.equivalents.items():
        r = resolve(k)
        gid = id(inst)
        rec = {"key": key_repr(k), "group": gid, "resolved": None, "error": None, "hash": None}
        if r[0] == "ok":
            rec["resolved"] = ident(r[1])
            try:
                rec["hash"] = hash(r[1])
            except Exception:  # noqa: BLE001
                rec["hash"] = None
        else:
            rec["error"] = r[1]
        keys.append(rec)
        groups.setdefault(gid, []).append(len(keys) - 1)
    # renumber groups
    gmap = {g: i for i, g in enumerate(groups)}
    for rec in keys:
        rec["group"] = gmap[rec["group"]]
    # registered classes that can be instantiated without arguments
    for cls in sorted(E.get_registered_dtypes(), key=lambda c: c.__qualname__):
        r = resolve(cls)
        if r[0] == "ok":
            ident(r[1])
    rows = []
    i = 0
    while i < len(dtypes_list):
        t = dtypes_list[i]
        kind, signed, bits = classify(t)
        try:
            s = str(t)
        except Exception:  # noqa: BLE001
            s = None
        r1 = resolve(t)
        r2 = resolve(s) if s is not None else ("err", "nostr")
        row = {"id": i, "cls": type(t).__qualname__, "str": s, "kind": kind, "signed": signed, "bits": bits,
               "primitive": kind in PRIMITIVE_KINDS or type(t).__qualname__ in ("Object", "NpString", "STRING", "BOOL"),
               "re": ident(r1[1]) if r1[0] == "ok" else None,
               "restr": ident(r2[1]) if r2[0] == "ok" else None,
               "restr_err": None if r2[0] == "ok" else r2[1]}
        try:
            row["hash_stable"] = hash(t) == hash(r1[1]) if r1[0] == "ok" else None
        except Exception:  # noqa: BLE001
            row["hash_stable"] = None
        rows.append(row)
        i += 1
    # re-resolution may have added dtypes at the end (it should not): give them rows too on the next pass
    n = len(rows)
    check = []
    for a in range(n):
        line = []
        for b in range(n):
            with warnings.catch_warnings():
                warnings.simplefilter("ignore")
                try:
                    v = dtypes_list[a].check(dtypes_list[b])
                    line.append(bool(v) if isinstance(v, (bool,)) or getattr(v, "ndim", 0) == 0 else None)
                except Exception:  # noqa: BLE001
                    line.append(None)
        check.append(line)
    return {"engine": name, "keys": keys, "dtypes": rows, "check": check}


def dump_all():
    return [dump_engine(n, E) for n, E in engines().items()]


# ---- Lean rendering -------------------------------------------------------------------------------

def lean_opt_nat(x):
    return "none" if x is None else f"(some {x})"


def lean_str(s):
    return '"' + s.replace("\\", "\\\\").replace('"', '\\"') + '"'


KINDS = ["other", "bool", "int", "float", "complex", "timedelta", "date", "datetime", "decimal", "category",
         "string", "binary"]


def render(dumps) -> str:
    lines = ["import PanderaModel.Registry",
             "/-! GENERATED by /verif/extract/dtype_registry.py from the engines of /repo — do not edit. -/",
             "namespace Pandera.Generated", "open Pandera.Registry", ""]
    for d in dumps:
        e = d["engine"]
        lines.append(f"def {e}Dtypes : List DRow := [")
        rows = []
        for r in d["dtypes"]:
            signed = "none" if r["signed"] is None else f"(some {'true' if r['signed'] else 'false'})"
            rows.append(f"  ⟨{r['id']}, {lean_str(r['cls'])}, .{r['kind']}, {signed}, {lean_opt_nat(r['bits'])}, "
                        f"{'true' if r['primitive'] else 'false'}, {lean_opt_nat(r['re'])}, {lean_opt_nat(r['restr'])}, "
                        f"{'true' if r['hash_stable'] else 'false'}⟩")
        lines.append(",\n".join(rows))
        lines.append("]")
        lines.append(f"def {e}Keys : List KRow := [")
        rows = []
        for k in d["keys"]:
            rows.append(f"  ⟨{k['group']}, {lean_opt_nat(k['resolved'])}, "
                        f"{'none' if k['hash'] is None else '(some (' + str(k['hash']) + '))'}⟩")
        lines.append(",\n".join(rows))
        lines.append("]")
        lines.append(f"def {e}Check : List (List Bool) := [")
        rows = ["  [" + ", ".join("true" if v else "false" for v in line) + "]" for line in d["check"]]
        lines.append(",\n".join(rows))
        lines.append("]")
        lines.append("")
    lines += ["end Pandera.Generated", ""]
    return "\n".join(lines)


if __name__ == "__main__":
    ds = dump_all()
    for d in ds:
        print(d["engine"], "keys", len(d["keys"]), "dtypes", len(d["dtypes"]),
              "key-errors", sum(1 for k in d["keys"] if k["error"]),
              "re-fail", [r["cls"] for r in d["dtypes"] if r["re"] != r["id"]][:10],
              "restr-fail(primitive)", [(r["cls"], r["str"], r["restr_err"]) for r in d["dtypes"]
                                        if r["primitive"] and r["restr"] != r["id"]][:20])
        n = len(d["dtypes"])
        bad = [(d["dtypes"][a]["str"], d["dtypes"][b]["str"]) for a in range(n) for b in range(n)
               if d["check"][a][b] and a != b
               and (d["dtypes"][a]["kind"], d["dtypes"][a]["signed"], d["dtypes"][a]["bits"]) !=
               (d["dtypes"][b]["kind"], d["dtypes"][b]["signed"], d["dtypes"][b]["bits"])
               and d["dtypes"][a]["kind"] in ("int", "float", "bool", "datetime", "timedelta", "date", "complex")]
        print("   cross-kind check=True:", bad[:10])
        print("   non-reflexive:", [d["dtypes"][a]["str"] for a in range(n) if not d["check"][a][a]][:10])

"""Translator (T) for C05: every function of the pandas / polars backends -> an ownership program (`Alias.AStmt`)
about the *schema-side* objects it handles.

A function may write (attribute store, `setattr`, `del x.a`, item store into an attribute, a known mutator method such
as `set_name`) only through a variable that certainly holds an object created during that very call
(`copy.deepcopy(..)`, `copy.copy(..)`, a constructor call).  Parameters, loop variables and results of any other
expression are treated as shared (variable 0, `⊥`, is never fresh).  Functions that write to a shared schema object on
purpose and undo it are the ones translated by `skeletons.py` and proved restoring (`Effects.restores`); they are the
exempt list of `Props/C05`.

Not schema-side, and not tracked: the backend object (`self`), the data (`check_obj`, …: property C04 and
`alias_skeletons.py`), error handlers and result records.
"""
from __future__ import annotations

import ast
from pathlib import Path

FILES = [
    "pandera/backends/pandas/container.py", "pandera/backends/pandas/components.py",
    "pandera/backends/pandas/array.py", "pandera/backends/pandas/base.py",
    "pandera/backends/polars/container.py", "pandera/backends/polars/components.py",
    "pandera/backends/polars/base.py", "pandera/backends/base/__init__.py",
    # the model classes: `cls` / `self` is the model (its schema cache is written on purpose), every other object is
    # tracked — in particular the cached schema returned by `to_schema()`
    "pandera/api/dataframe/model.py", "pandera/api/pandas/model.py", "pandera/api/polars/model.py",
    # serialisers and statistics extraction read an existing schema (the de-serialisers build new objects)
    "pandera/io/pandas_io.py", "pandera/schema_statistics/pandas.py",
]
# (the private `_serialize_*` / `_format_checks` helpers consume the statistics dictionaries that `parse_checks` builds for
# them — ownership handed down a call chain, which this per-function analysis does not follow; tie D of C05 / C12)
READERS_ONLY = {"pandera/io/pandas_io.py": ("serialize_schema", "to_"),
                "pandera/schema_statistics/pandas.py": ("get_", "parse_checks", "_get_")}
# the schema classes themselves: in their non-transforming methods `self` is the schema
API_FILES = [
    "pandera/api/base/schema.py", "pandera/api/dataframe/container.py", "pandera/api/dataframe/components.py",
    "pandera/api/pandas/container.py", "pandera/api/pandas/array.py", "pandera/api/pandas/components.py",
    "pandera/api/polars/container.py", "pandera/api/polars/components.py",
]
NON_TRANSFORMING = {"validate", "_validate", "__call__", "coerce_dtype", "to_script", "to_yaml", "to_json", "strategy",
                    "example", "__repr__", "__str__", "__eq__", "get_metadata", "get_dtypes", "dtypes", "dtype", "get_backend",
                    "get_regex_columns", "strategy_component", "properties", "_allow_groupby", "is_regex", "unique", "coerce",
                    "selector", "get_dtype", "__hash__", "__contains__", "__iter__", "__len__", "__getstate__", "_compare_dict"}
# names that never hold a schema-side object
NOT_SCHEMA = {"self", "cls", "check_obj", "obj", "validated_obj", "sample", "df", "series", "error_handler",
              "check_obj_subsample", "field_obj_subsample", "failure_cases", "check_output", "result", "results",
              "check_result", "check_results", "err", "exc", "error", "errors", "error_counts", "failure_case_collection",
              "scalar_failure_cases", "out", "lf", "duplicates", "check_obj_parsed", "obj_subsample", "pandas_obj_subsample",
              # pydantic hands these dictionaries over to be filled in
              "field_schema", "json_schema"}
# class-compilation helpers of the model classes: they build the model's own tables, no schema exists yet
SKIP_PREFIX = ("_collect", "_extract", "__init_subclass__", "__modify_schema__", "__get_pydantic", "_build_columns")
MUTATORS = {"set_name", "update", "append", "extend", "insert", "pop", "clear", "remove", "add", "setdefault", "sort", "reverse"}
FRESH_CALLS = {"deepcopy", "copy"}
FRESH_BUILTINS = {"dict", "list", "set", "tuple", "defaultdict", "OrderedDict", "sorted", "frozenset", "zip", "enumerate", "range",
                  "map", "filter", "reversed", "str", "int", "float", "bool", "len", "repr", "type", "isinstance", "getattr_static",
                  "get_type_hints", "vars"}


def seq(parts):
    parts = [p for p in parts if p != ".skip"]
    if not parts:
        return ".skip"
    out = parts[-1]
    for p in reversed(parts[:-1]):
        out = f"(.seq {p} {out})"
    return out


def choice(parts):
    out = parts[-1]
    for p in reversed(parts[:-1]):
        out = f"(.choice {p} {out})"
    return out


class Tr:
    def __init__(self, fn, self_is_schema=False, summaries=None, owned_params=()):
        self.fn = fn
        self.vars = {"⊥": 0}
        self.nmut = 0
        self.summaries = summaries or {}
        self.owned_params = tuple(owned_params)
        self.mutated = set()
        self.not_schema = NOT_SCHEMA - ({"self"} if self_is_schema else set())
        # names every binding of which (in this function) is a `deepcopy(..)`: the objects reachable from them were
        # created by this call too
        binds = {}
        for n in ast.walk(fn):
            if isinstance(n, ast.Assign):
                for t in n.targets:
                    for m in ast.walk(t):
                        if isinstance(m, ast.Name) and isinstance(m.ctx, ast.Store):
                            binds.setdefault(m.id, []).append(n.value if isinstance(t, ast.Name) else None)
            elif isinstance(n, ast.AnnAssign) and isinstance(n.target, ast.Name) and n.value is not None:
                binds.setdefault(n.target.id, []).append(n.value)
            elif isinstance(n, (ast.For, ast.AsyncFor, ast.With, ast.AsyncWith, ast.AugAssign, ast.AnnAssign, ast.NamedExpr,
                                ast.comprehension, ast.ExceptHandler)):
                for m in ast.walk(n.target if hasattr(n, "target") else n):
                    if isinstance(m, ast.Name) and isinstance(m.ctx, ast.Store):
                        binds.setdefault(m.id, []).append(None)
        self.deep = {k for k, vs in binds.items() if vs and all(self.is_deepcopy(v) for v in vs)}
        self.deep -= {a.arg for a in fn.args.args + fn.args.kwonlyargs}

    @staticmethod
    def is_deepcopy(v):
        """a deep copy, or a literal made of constants and nested literals only: nothing reachable from it existed before"""
        if isinstance(v, (ast.Dict, ast.List, ast.Set, ast.Tuple)):
            return all(isinstance(n, (ast.Dict, ast.List, ast.Set, ast.Tuple, ast.Constant, ast.Load))
                       for n in ast.walk(v))
        if not isinstance(v, ast.Call):
            return False
        f = v.func
        return (isinstance(f, ast.Name) and f.id == "deepcopy") or \
            (isinstance(f, ast.Attribute) and f.attr == "deepcopy" and getattr(f.value, "id", "") == "copy")

    def var(self, name):
        if name not in self.vars:
            self.vars[name] = len(self.vars)
        return self.vars[name]

    def base_name(self, node):
        """x of x.a, x.a.b, x.a[k] …"""
        while isinstance(node, (ast.Attribute, ast.Subscript)):
            node = node.value
        return node.id if isinstance(node, ast.Name) else None

    def is_fresh_call(self, v):
        if isinstance(v, (ast.Dict, ast.List, ast.Set, ast.ListComp, ast.DictComp, ast.SetComp)):
            return True                                     # a new container
        if not isinstance(v, ast.Call):
            return False
        f = v.func
        name = f.attr if isinstance(f, ast.Attribute) else getattr(f, "id", "")
        if name in FRESH_CALLS and (not isinstance(f, ast.Attribute) or getattr(f.value, "id", "") == "copy"):
            return True
        if isinstance(f, ast.Name) and name in FRESH_BUILTINS:
            return True                                     # a new container / value
        return bool(name) and name[0].isupper()            # constructor

    def mutate(self, name):
        if name is None or name in self.not_schema or (name.isupper() and len(name) > 1):
            return []                                           # module-level registries / caches are written on purpose
        self.nmut += 1
        self.mutated.add(name)
        return [f"(.mutate {self.var(name)})"]

    def assigned_names(self):
        return {n.id for n in ast.walk(self.fn) if isinstance(n, ast.Name) and isinstance(n.ctx, ast.Store)}

    def mutate_sub(self, name):
        if name is None or name in self.not_schema:
            return []
        return self.mutate(name) if name in self.deep else self.mutate("⊥")

    def store_effects(self, target):
        """writes caused by assigning to / deleting `target`"""
        if isinstance(target, ast.Attribute):
            if isinstance(target.value, ast.Name):
                return self.mutate(target.value.id)
            return self.mutate_sub(self.base_name(target))      # x.a.b = … / x[k].a = …
        if isinstance(target, ast.Subscript) and isinstance(target.value, (ast.Attribute, ast.Subscript)):
            # x.attr[k] = …  writes to an object *reachable* from x: owned only when x is a deep copy
            # (a plain x[k] = … is an item store into a local container or the data)
            return self.mutate_sub(self.base_name(target))
        if isinstance(target, ast.Subscript) and isinstance(target.value, ast.Name):
            return self.mutate(target.value.id)                 # x[k] = …: x must be a container made by this call
        if isinstance(target, (ast.Tuple, ast.List)):
            return [e for t in target.elts for e in self.store_effects(t)]
        return []

    def expr_effects(self, node):
        out = []
        for n in ast.walk(node):
            if not isinstance(n, ast.Call):
                continue
            f = n.func
            callee = f.attr if isinstance(f, ast.Attribute) else getattr(f, "id", None)
            for i in self.summaries.get(callee, ()):
                # the callee writes through its i-th parameter: the argument must be owned by the caller
                if i < len(n.args):
                    a = n.args[i]
                    out += self.mutate(a.id) if isinstance(a, ast.Name) else self.mutate_sub(self.base_name(a))
            if isinstance(f, ast.Name) and f.id in ("setattr", "delattr") and n.args:
                out += self.mutate(self.base_name(n.args[0]))
            elif isinstance(f, ast.Attribute) and f.attr in MUTATORS and isinstance(f.value, (ast.Attribute, ast.Name)):
                # x.set_name(..), x.attr.append(..); a bare local list `names.append(..)` is a local container
                if isinstance(f.value, ast.Name):
                    out += self.mutate(f.value.id)
                elif isinstance(f.value, ast.Attribute):
                    out += self.mutate_sub(self.base_name(f.value))
        return out

    def bind(self, target, value):
        """d = value"""
        if isinstance(target, ast.Name):
            d = self.var(target.id)
            if value is not None and self.is_fresh_call(value):
                a = value.args[0] if isinstance(value, ast.Call) and value.args else None
                if isinstance(a, ast.Name) and a.id == target.id:
                    return [f"(.copy {d})"]
                return [f"(.fresh {d})"]
            if isinstance(value, ast.Name):
                return [f"(.assign {d} {self.var(value.id)})"]
            owner = self.deep_owner(value)
            return [f"(.assign {d} {self.var(owner) if owner else 0})"]
        if isinstance(target, (ast.Tuple, ast.List)):
            if isinstance(value, (ast.Tuple, ast.List)) and len(value.elts) == len(target.elts):
                return [e for t, v in zip(target.elts, value.elts) for e in self.bind(t, v)]
            return [e for t in target.elts for e in self.bind(t, value if self.deep_owner(value) else None)]
        return []

    def deep_owner(self, value):
        """`value` reads an object reachable from a deep copy made by this call (`d.attr`, `d.attr.items()`,
        `zip(names, d.columns.items())`, `d.columns[k]`): the name of that copy"""
        if value is None:
            return None
        if isinstance(value, ast.Call) and isinstance(value.func, ast.Name) and value.func.id in ("zip", "enumerate", "list", "tuple", "reversed", "sorted"):
            owners = [self.deep_owner(a) for a in value.args]
            owners = [o for o in owners if o]
            return owners[0] if owners else None
        if isinstance(value, ast.Call) and isinstance(value.func, ast.Attribute) and value.func.attr in ("items", "values", "keys", "get"):
            return self.deep_owner(value.func.value)
        node = value
        seen_attr = False
        while isinstance(node, (ast.Attribute, ast.Subscript)):
            seen_attr = True
            node = node.value
        if seen_attr and isinstance(node, ast.Name) and node.id in self.deep:
            return node.id
        return None

    def assigned(self, stmts):
        out = set()
        for s in stmts:
            for n in ast.walk(s):
                if isinstance(n, ast.Name) and isinstance(n.ctx, ast.Store):
                    out.add(n.id)
        return out

    def block(self, stmts):
        return seq([self.stmt(s) for s in stmts])

    def stmt(self, s):
        if isinstance(s, (ast.FunctionDef, ast.AsyncFunctionDef, ast.ClassDef, ast.Import, ast.ImportFrom, ast.Pass,
                          ast.Global, ast.Nonlocal, ast.Break, ast.Continue)):
            return ".skip"
        if isinstance(s, ast.Assign):
            parts = self.expr_effects(s.value)
            for t in s.targets:
                parts += self.store_effects(t)
                parts += self.bind(t, s.value)
            return seq(parts)
        if isinstance(s, ast.AnnAssign):
            parts = self.expr_effects(s.value) if s.value is not None else []
            parts += self.store_effects(s.target)
            if s.value is not None:
                parts += self.bind(s.target, s.value)
            return seq(parts)
        if isinstance(s, ast.AugAssign):
            return seq(self.expr_effects(s.value) + self.store_effects(s.target)
                       + (self.bind(s.target, None) if isinstance(s.target, ast.Name) else []))
        if isinstance(s, ast.Delete):
            return seq([e for t in s.targets for e in self.store_effects(t)])
        if isinstance(s, (ast.Expr, ast.Return, ast.Raise, ast.Assert)):
            return seq([e for n in ast.iter_child_nodes(s) for e in self.expr_effects(n)])
        if isinstance(s, ast.If):
            return seq(self.expr_effects(s.test) + [choice([self.block(s.body), self.block(s.orelse)])])
        if isinstance(s, (ast.For, ast.AsyncFor)):
            body = seq(self.bind(s.target, s.iter if self.deep_owner(s.iter) else None) + [self.block(s.body)])
            return seq(self.expr_effects(s.iter) + [f"(.loop {body})", self.block(s.orelse)])
        if isinstance(s, ast.While):
            return seq([f"(.loop {seq(self.expr_effects(s.test) + [self.block(s.body)])})", self.block(s.orelse)])
        if isinstance(s, (ast.With, ast.AsyncWith)):
            parts = []
            for it in s.items:
                parts += self.expr_effects(it.context_expr)
                if it.optional_vars is not None:
                    parts += self.bind(it.optional_vars, None)
            return seq(parts + [self.block(s.body)])
        if isinstance(s, ast.Try):
            body = self.block(s.body)
            kill = [f"(.assign {self.var(n)} 0)" for n in sorted(self.assigned(s.body))]
            handlers = [seq(kill + ([f"(.assign {self.var(h.name)} 0)"] if h.name else []) + [self.block(h.body)])
                        for h in s.handlers]
            normal = seq([body, self.block(s.orelse)])
            alts = [normal] + handlers + ([seq(kill)] if s.finalbody and not s.handlers else [])
            return seq([choice(alts), self.block(s.finalbody)])
        if isinstance(s, ast.Match):
            return choice([self.block(c.body) for c in s.cases] + [".skip"])
        return ".skip"


def functions(tree):
    """(qualified name, node) for every function, nested ones included"""
    out = []

    def walk(node, prefix):
        for n in ast.iter_child_nodes(node):
            if isinstance(n, (ast.FunctionDef, ast.AsyncFunctionDef)):
                out.append((prefix + n.name, n))
                walk(n, prefix + n.name + ".")
            elif isinstance(n, ast.ClassDef):
                walk(n, prefix + n.name + ".")
            else:
                walk(n, prefix)
    walk(tree, "")
    return out


def params_of(fn):
    return [a.arg for a in fn.args.posonlyargs + fn.args.args if a.arg not in ("self", "cls")]


def written_params(fn, self_is_schema=False):
    """indexes of the parameters the function writes through directly (used as call-site summaries for the module-level
    helpers that consume a dictionary handed to them)"""
    tr = Tr(fn, self_is_schema)
    tr.block(fn.body)
    ps = params_of(fn)
    rebound = tr.assigned_names()
    out = []
    for i, p in enumerate(ps):
        if p in tr.mutated and p not in rebound:
            out.append(i)
    return out


def own_statements(fn):
    """the body of `fn` without the bodies of nested functions (they are translated on their own)"""
    return fn.body


SUMMARY_FILES = ("pandera/io/pandas_io.py",)


def extract(repo: Path):
    progs, scanned = [], 0
    # private module-level helpers that consume a dictionary handed to them: their writes are charged to the call sites
    summaries = {}
    for f in SUMMARY_FILES:
        p = repo / f
        if p.exists():
            for name, fn in functions(ast.parse(p.read_text())):
                if "." not in name and name.startswith("_") and name.startswith(READERS_ONLY.get(f, ("",))):
                    w = written_params(fn)
                    if w:
                        summaries[name] = w
    for f in FILES:
        p = repo / f
        if not p.exists():
            continue
        tree = ast.parse(p.read_text())
        short = f.replace("pandera/backends/", "").replace("pandera/", "").replace(".py", "")
        for name, fn in functions(tree):
            if f in READERS_ONLY and not name.split(".")[0].startswith(READERS_ONLY[f]):
                continue
            if name.split(".")[-1].startswith(SKIP_PREFIX):
                continue
            scanned += 1
            owned = [params_of(fn)[i] for i in summaries.get(name, ())] if f in SUMMARY_FILES else []
            tr = Tr(fn, summaries=summaries if f in SUMMARY_FILES else None)
            body = tr.block(own_statements(fn))
            prog = seq([f"(.fresh {tr.var(q)})" for q in owned] + [body])
            if tr.nmut:
                progs.append((f"{short}:{name}", prog, dict(tr.vars)))
    for f in API_FILES:
        p = repo / f
        if not p.exists():
            continue
        tree = ast.parse(p.read_text())
        short = f.replace("pandera/", "").replace(".py", "")
        for name, fn in functions(tree):
            # property setters (`@x.setter`) are assignments by the user, not operations of the library
            if any(isinstance(d, ast.Attribute) and d.attr == "setter" for d in fn.decorator_list):
                continue
            if name.split(".")[-1] not in NON_TRANSFORMING and not any(part in NON_TRANSFORMING for part in name.split(".")[1:-1]):
                continue
            scanned += 1
            tr = Tr(fn, self_is_schema=True)
            prog = tr.block(own_statements(fn))
            if tr.nmut:
                progs.append((f"{short}:{name}", prog, dict(tr.vars)))
    return progs, scanned


def render(repo: Path) -> str:
    try:
        progs, scanned = extract(repo)
    except Exception:  # noqa: BLE001
        progs, scanned = [("translator-failed", "(.mutate 0)", {})], 0
    L = ["/- GENERATED by /verif/extract/schema_mutation.py from the working tree of /repo — do not edit. -/",
         "import PanderaModel.Alias", "namespace Pandera.Generated.SchemaMutation", "open Pandera.Alias", "",
         f"/-- functions scanned in the backend modules -/", f"def scanned : Nat := {scanned}", "",
         "/-! every function with at least one write to a schema-side object: its ownership program -/", ""]
    for i, (name, prog, vars_) in enumerate(progs):
        L.append(f"/-- `{name}`; variables: {vars_} -/")
        L.append(f"def prog{i} : AStmt := {prog}")
    L += ["", "def progs : List (String × AStmt) := ["]
    for i, (name, prog, vars_) in enumerate(progs):
        L.append(f'  ("{name}", prog{i})' + ("," if i + 1 < len(progs) else ""))
    L += ["]", "", "end Pandera.Generated.SchemaMutation", ""]
    return "\n".join(L)


if __name__ == "__main__":
    import sys
    print(render(Path(sys.argv[1] if len(sys.argv) > 1 else "/repo")))

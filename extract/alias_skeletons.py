"""Translator (T): the validate entry points of the pandas backends -> ownership programs (`AStmt`).

For every function the data parameter (`check_obj` / `obj`) is variable 0; other local names that
may hold the same object get further numbers.  A call that passes a tracked variable on is
resolved with a *summary* of the callee (does it write through its data parameter before copying
it?), computed by the same translation + the same analysis in a pre-pass; a call with
`inplace=True` always counts as a write.  Method calls *on* a tracked variable (`v.head()`,
`v.fillna()`, `v.copy()`) yield new objects (trusted: pandas methods without `inplace=True` do not
mutate their receiver).
"""
from __future__ import annotations

import ast
from pathlib import Path

DATA_PARAMS = ("check_obj", "obj", "validated_obj", "sample", "df", "series")
WRITE_ATTRS = None  # any attribute assignment on a tracked variable is a write


# ---- python mirror of Lean's `safe` (used for callee summaries only) -------------------------

def safe(p, F):
    k = p[0]
    if k == "skip":
        return F
    if k in ("copy", "fresh"):
        return [p[1]] + F
    if k == "assign":
        d, s = p[1], p[2]
        return [d] + F if s in F else [v for v in F if v != d]
    if k == "mutate":
        return F if p[1] in F else None
    if k == "seq":
        Fa = safe(p[1], F)
        return None if Fa is None else safe(p[2], Fa)
    if k == "choice":
        Fa, Fb = safe(p[1], F), safe(p[2], F)
        if Fa is None or Fb is None:
            return None
        return [v for v in Fa if v in Fb]
    if k == "loop":
        Fb = safe(p[1], F)
        if Fb is None:
            return None
        return F if all(v in Fb for v in F) else None
    raise ValueError(p)


def seq(parts):
    parts = [p for p in parts if p != ("skip",)]
    if not parts:
        return ("skip",)
    out = parts[-1]
    for p in reversed(parts[:-1]):
        out = ("seq", p, out)
    return out


class Tr:
    def __init__(self, fn, inplace_flag, summaries):
        self.fn = fn
        self.flag = inplace_flag
        self.summaries = summaries
        self.vars = {}
        params = [a.arg for a in fn.args.args if a.arg != "self"]
        self.data_param = next((p for p in params if p in DATA_PARAMS), None)
        if self.data_param:
            self.var(self.data_param)

    def var(self, name):
        if name not in self.vars:
            self.vars[name] = len(self.vars)
        return self.vars[name]

    def tracked(self, node):
        return isinstance(node, ast.Name) and node.id in self.vars

    def kw(self, call, name):
        for k in call.keywords:
            if k.arg == name:
                return k.value
        return None

    def is_true(self, node):
        return isinstance(node, ast.Constant) and node.value is True

    def passes(self, call):
        """tracked variables passed as arguments of a call"""
        out = []
        for a in list(call.args) + [k.value for k in call.keywords]:
            if self.tracked(a):
                out.append(a.id)
        return out

    def call_effect(self, call):
        """writes caused by a call expression, as statements"""
        parts = []
        f = call.func
        # receiver.method(..., inplace=True)
        if isinstance(f, ast.Attribute) and self.tracked(f.value):
            ip = self.kw(call, "inplace")
            if ip is not None and self.is_true(ip):
                parts.append(("mutate", self.vars[f.value.id]))
            return parts
        passed = self.passes(call)
        if not passed:
            return parts
        ip = self.kw(call, "inplace")
        name = f.attr if isinstance(f, ast.Attribute) else getattr(f, "id", None)
        callee_inplace = None
        if ip is not None:
            if self.is_true(ip):
                callee_inplace = True
            elif isinstance(ip, ast.Constant) and ip.value is False:
                callee_inplace = False
            elif isinstance(ip, ast.Name) and ip.id == "inplace":
                callee_inplace = self.flag
        for v in passed:
            if callee_inplace is True:
                parts.append(("mutate", self.vars[v]))
            elif name in self.summaries:
                # summary: does the callee write through its data parameter (for this inplace value)?
                flag = callee_inplace if callee_inplace is not None else False
                if self.summaries[name].get(flag, True):
                    parts.append(("mutate", self.vars[v]))
        return parts

    def expr_effects(self, node):
        parts = []
        for n in ast.walk(node):
            if isinstance(n, ast.Call):
                parts += self.call_effect(n)
        return parts

    def stmt(self, s):
        if isinstance(s, ast.Expr) and isinstance(s.value, ast.Constant):
            return ("skip",)
        if isinstance(s, ast.Assign) and len(s.targets) == 1:
            t, v = s.targets[0], s.value
            eff = self.expr_effects(v)
            # writes through a tracked variable
            if isinstance(t, (ast.Subscript, ast.Attribute)) and self.tracked(t.value):
                return seq(eff + [("mutate", self.vars[t.value.id])])
            if isinstance(t, ast.Name):
                # V = W.copy()
                if (isinstance(v, ast.Call) and isinstance(v.func, ast.Attribute) and v.func.attr == "copy"
                        and self.tracked(v.func.value)):
                    d = self.var(t.id)
                    srcv = self.vars[v.func.value.id]
                    return seq(([] if d == srcv else [("assign", d, srcv)]) + [("copy", d)])
                # V = self.preprocess(W, inplace…)
                if (isinstance(v, ast.Call) and isinstance(v.func, ast.Attribute) and v.func.attr == "preprocess"
                        and v.args and self.tracked(v.args[0])):
                    d = self.var(t.id)
                    srcv = self.vars[v.args[0].id]
                    pre = [] if d == srcv else [("assign", d, srcv)]
                    return seq(pre + ([] if (self.flag or not PREPROCESS_OK) else [("copy", d)]))
                # V = W  /  V = W if c else X
                if self.tracked(v):
                    return seq(eff + [("assign", self.var(t.id), self.vars[v.id])])
                if isinstance(v, ast.Call):
                    f = v.func
                    # method on a tracked receiver -> new object
                    if isinstance(f, ast.Attribute) and self.tracked(f.value):
                        if t.id in self.vars or t.id in DATA_PARAMS:
                            return seq(eff + [("fresh", self.var(t.id))])
                        return seq(eff)
                    passed = self.passes(v)
                    if passed and (t.id in self.vars or t.id in DATA_PARAMS):
                        # result may be the argument itself
                        return seq(eff + [("assign", self.var(t.id), self.vars[passed[0]])])
                    if t.id in self.vars:
                        return seq(eff + [("fresh", self.vars[t.id])])
                    return seq(eff)
                if t.id in self.vars:
                    return seq(eff + [("fresh", self.vars[t.id])])
                return seq(eff)
            return seq(eff)
        if isinstance(s, ast.Expr):
            return seq(self.expr_effects(s.value))
        if isinstance(s, ast.Return):
            return seq(self.expr_effects(s.value)) if s.value is not None else ("skip",)
        if isinstance(s, ast.If):
            # `if not inplace:` / `if inplace:` are resolved with the flag
            t = s.test
            if isinstance(t, ast.UnaryOp) and isinstance(t.op, ast.Not) and getattr(t.operand, "id", None) == "inplace":
                return self.block(s.orelse if self.flag else s.body)
            if getattr(t, "id", None) == "inplace":
                return self.block(s.body if self.flag else s.orelse)
            return seq(self.expr_effects(t) + [("choice", self.block(s.body), self.block(s.orelse))])
        if isinstance(s, (ast.For, ast.While)):
            head = s.iter if isinstance(s, ast.For) else s.test
            return seq(self.expr_effects(head) + [("loop", self.block(s.body))])
        if isinstance(s, ast.Try):
            body = self.block(s.body + s.orelse)
            hs = ("skip",)
            for h in s.handlers:
                hs = ("choice", hs, self.block(h.body))
            out = ("seq", body, hs) if s.handlers else body
            # a handler may run after any prefix of the body: over-approximate by body-or-skip
            out = ("choice", out, hs) if s.handlers else out
            if s.finalbody:
                out = ("seq", out, self.block(s.finalbody))
            return out
        if isinstance(s, ast.With):
            return seq([x for i in s.items for x in self.expr_effects(i.context_expr)] + [self.block(s.body)])
        if isinstance(s, ast.FunctionDef):
            return ("skip",)
        if isinstance(s, (ast.AugAssign, ast.AnnAssign, ast.Assert, ast.Raise)):
            return seq(self.expr_effects(s))
        return ("skip",)

    def block(self, stmts):
        return seq([self.stmt(s) for s in stmts])


def preprocess_copies(fn) -> bool:
    """`preprocess(self, check_obj, inplace=False)` returns a copy unless inplace:
    either `return check_obj if inplace else check_obj.copy()` or
    `if not inplace: check_obj = check_obj.copy()` … `return check_obj`"""
    body = [b for b in fn.body if not (isinstance(b, ast.Expr) and isinstance(b.value, ast.Constant))]

    def is_copy(e):
        return (isinstance(e, ast.Call) and isinstance(e.func, ast.Attribute) and e.func.attr == "copy"
                and getattr(e.func.value, "id", None) == "check_obj" and not e.args)
    if len(body) == 1 and isinstance(body[0], ast.Return) and isinstance(body[0].value, ast.IfExp):
        ie = body[0].value
        return (getattr(ie.test, "id", None) == "inplace" and getattr(ie.body, "id", None) == "check_obj"
                and is_copy(ie.orelse))
    if (len(body) == 2 and isinstance(body[0], ast.If) and isinstance(body[1], ast.Return)
            and getattr(body[1].value, "id", None) == "check_obj"):
        t = body[0].test
        if (isinstance(t, ast.UnaryOp) and isinstance(t.op, ast.Not) and getattr(t.operand, "id", None) == "inplace"
                and len(body[0].body) == 1 and isinstance(body[0].body[0], ast.Assign)
                and getattr(body[0].body[0].targets[0], "id", None) == "check_obj" and is_copy(body[0].body[0].value)
                and not body[0].orelse):
            return True
    return False


PREPROCESS_OK = True


def functions_of(tree):
    out = {}
    for node in ast.walk(tree):
        if isinstance(node, ast.ClassDef):
            for b in node.body:
                if isinstance(b, ast.FunctionDef):
                    out[(node.name, b.name)] = b
    return out


FILES = ["pandera/backends/pandas/container.py", "pandera/backends/pandas/array.py",
         "pandera/backends/pandas/components.py", "pandera/backends/pandas/base.py",
         "pandera/api/pandas/array.py"]

ENTRY = [
    ("dataFrameValidate", "DataFrameSchemaBackend", "validate"),
    ("arrayValidate", "ArraySchemaBackend", "validate"),
    ("columnValidate", "ColumnBackend", "validate"),
    ("indexValidate", "IndexBackend", "validate"),
    ("multiIndexValidate", "MultiIndexBackend", "validate"),
    ("seriesSchemaValidate", "SeriesSchema", "validate"),
]


def lean(p):
    k = p[0]
    if k == "skip":
        return ".skip"
    if k in ("copy", "fresh", "mutate"):
        return f"(.{k} {p[1]})"
    if k == "assign":
        return f"(.assign {p[1]} {p[2]})"
    if k in ("seq", "choice"):
        return f"(.{k} {lean(p[1])} {lean(p[2])})"
    if k == "loop":
        return f"(.loop {lean(p[1])})"
    raise ValueError(p)


def build(repo: Path):
    fns = {}
    for f in FILES:
        fns.update(functions_of(ast.parse((repo / f).read_text())))
    global PREPROCESS_OK
    PREPROCESS_OK = all(preprocess_copies(fn) for (cls, name), fn in fns.items() if name == "preprocess")
    # summaries by method name: writes through the data parameter?  (two rounds reach a fixpoint here)
    summaries: dict[str, dict[bool, bool]] = {}
    for _ in range(3):
        new = {}
        for (cls, name), fn in fns.items():
            for flag in (False, True):
                tr = Tr(fn, flag, summaries)
                if tr.data_param is None:
                    continue
                prog = tr.block(fn.body)
                writes = safe(prog, []) is None
                new.setdefault(name, {})
                # a method name defined in several classes: any of them may be the callee
                new[name][flag] = new[name].get(flag, False) or writes
        summaries = new
    progs = {}
    for lean_name, cls, name in ENTRY:
        fn = fns.get((cls, name))
        if fn is None:
            progs[lean_name] = None
            continue
        tr = Tr(fn, False, summaries)
        progs[lean_name] = (tr.block(fn.body), dict(tr.vars))
    return progs, summaries


def render(repo: Path) -> str:
    progs, summaries = build(repo)
    lines = ["import PanderaModel.Alias",
             "/-! GENERATED by /verif/extract/alias_skeletons.py from /repo — do not edit.",
             "Programs are for `inplace=False`; variable 0 is the caller's object. -/",
             "namespace Pandera.Generated", "open Pandera.Alias", ""]
    for name, pv in progs.items():
        if pv is None:
            lines.append(f"def alias_{name} : AStmt := .mutate 0   -- function not found")
            continue
        prog, vars_ = pv
        lines.append(f"/-- variables: {vars_} -/")
        lines.append(f"def alias_{name} : AStmt := {lean(prog)}")
        lines.append("")
    lines += ["end Pandera.Generated", ""]
    return "\n".join(lines)


if __name__ == "__main__":
    import sys
    repo = Path(sys.argv[1] if len(sys.argv) > 1 else "/repo")
    progs, summaries = build(repo)
    for k, v in summaries.items():
        if any(v.values()):
            print("summary", k, v)
    for name, pv in progs.items():
        print(name, None if pv is None else (safe(pv[0], []) is not None), pv[1] if pv else None)
    print(render(repo)[:3000])

"""Translator (T): the polars `validate` entry points -> programs over container kinds (`KStmt`).

`pandera/api/polars/container.py:DataFrameSchema.validate` and
`pandera/api/polars/components.py:Column.validate` convert a `pl.DataFrame` into a LazyFrame before
the backend runs and collect afterwards.  The translation is syntactic: statements that touch a
variable holding the data object and that it does not recognise become `.unknown`, which makes the
per-run obligation fail (the differential of C04 then decides).
"""
from __future__ import annotations

import ast
from pathlib import Path

ENTRY = [
    ("polarsContainerValidate", "pandera/api/polars/container.py", "DataFrameSchema", "validate"),
    ("polarsColumnValidate", "pandera/api/polars/components.py", "Column", "validate"),
]
DATA_PARAM = "check_obj"
FLAG = "is_dataframe"


def seq(parts):
    parts = [p for p in parts if p != ("skip",)]
    if not parts:
        return ("skip",)
    out = parts[-1]
    for p in reversed(parts[:-1]):
        out = ("seq", p, out)
    return out


class Tr:
    def __init__(self):
        self.vars = {DATA_PARAM: 0}

    def var(self, name):
        if name not in self.vars:
            self.vars[name] = len(self.vars)
        return self.vars[name]

    def tracked(self, n):
        return isinstance(n, ast.Name) and n.id in self.vars

    def mentions_tracked(self, node):
        return any(isinstance(n, ast.Name) and (n.id in self.vars or n.id == FLAG) for n in ast.walk(node))

    def method_on_tracked(self, v, attr):
        return (isinstance(v, ast.Call) and isinstance(v.func, ast.Attribute) and v.func.attr == attr
                and self.tracked(v.func.value) and not v.args and not v.keywords)

    def is_flag_test(self, e):
        """`isinstance(X, pl.DataFrame)` on a tracked X -> var number"""
        if (isinstance(e, ast.Call) and getattr(e.func, "id", None) == "isinstance" and len(e.args) == 2
                and self.tracked(e.args[0]) and isinstance(e.args[1], ast.Attribute) and e.args[1].attr == "DataFrame"):
            return self.vars[e.args[0].id]
        return None

    def backend_call(self, v):
        """`self.get_backend(X).validate(X, …)` / `.validate(check_obj=X, …)` -> var number of the data argument"""
        if not (isinstance(v, ast.Call) and isinstance(v.func, ast.Attribute) and v.func.attr == "validate"):
            return None
        recv = v.func.value
        if not (isinstance(recv, ast.Call) and isinstance(recv.func, ast.Attribute) and recv.func.attr == "get_backend"):
            return None
        arg = None
        if v.args:
            arg = v.args[0]
        for k in v.keywords:
            if k.arg == "check_obj":
                arg = k.value
        if arg is not None and self.tracked(arg):
            return self.vars[arg.id]
        return None

    def value(self, d, v):
        """statement for `d = <v>` where d is a variable number to assign"""
        if self.tracked(v):
            return ("assign", d, self.vars[v.id])
        if self.method_on_tracked(v, "lazy"):
            return ("lazy", d, self.vars[v.func.value.id])
        if self.method_on_tracked(v, "collect"):
            return ("collect", d, self.vars[v.func.value.id])
        b = self.backend_call(v)
        if b is not None:
            return ("backend", d, b)
        if isinstance(v, ast.IfExp) and getattr(v.test, "id", None) == FLAG:
            return ("ifFlag", self.value(d, v.body), self.value(d, v.orelse))
        return ("unknown",)

    def stmt(self, s):
        if isinstance(s, ast.Expr) and isinstance(s.value, ast.Constant):
            return ("skip",)
        if isinstance(s, ast.Assign) and len(s.targets) == 1 and isinstance(s.targets[0], ast.Name):
            t, v = s.targets[0].id, s.value
            if t == FLAG:
                src = self.is_flag_test(v)
                return ("setFlag", src) if src is not None else ("unknown",)
            produces_data = (self.tracked(v) or self.method_on_tracked(v, "lazy") or self.method_on_tracked(v, "collect")
                             or self.backend_call(v) is not None
                             or (isinstance(v, ast.IfExp) and self.mentions_tracked(v)))
            if t in self.vars or produces_data:
                return self.value(self.var(t), v)
            return ("skip",)           # e.g. validation_depth = get_validation_depth(check_obj)
        if isinstance(s, ast.If):
            t = s.test
            if getattr(t, "id", None) == FLAG:
                return ("ifFlag", self.block(s.body), self.block(s.orelse))
            if isinstance(t, ast.UnaryOp) and isinstance(t.op, ast.Not) and getattr(t.operand, "id", None) == FLAG:
                return ("ifFlag", self.block(s.orelse), self.block(s.body))
            # if not get_config_context().validation_enabled: return X
            if (isinstance(t, ast.UnaryOp) and isinstance(t.op, ast.Not) and isinstance(t.operand, ast.Attribute)
                    and t.operand.attr == "validation_enabled" and len(s.body) == 1 and not s.orelse
                    and isinstance(s.body[0], ast.Return) and self.tracked(s.body[0].value)):
                return ("ifDisabledRet", self.vars[s.body[0].value.id])
            if any(self.touches(b) for b in s.body + s.orelse):
                return ("unknown",)
            return ("skip",)
        if isinstance(s, ast.With):
            return self.block(s.body)
        if isinstance(s, ast.Return):
            if s.value is not None and self.tracked(s.value):
                return ("ret", self.vars[s.value.id])
            if s.value is not None:
                tmp = self.var("$ret")
                return seq([self.value(tmp, s.value), ("ret", tmp)])
            return ("unknown",)
        if self.touches(s):
            return ("unknown",)
        return ("skip",)

    def touches(self, s):
        """does a statement (re)bind a tracked variable, the flag, or return?"""
        for n in ast.walk(s):
            if isinstance(n, ast.Return):
                return True
            if isinstance(n, ast.Name) and isinstance(n.ctx, ast.Store) and (n.id in self.vars or n.id == FLAG):
                return True
        return False

    def block(self, stmts):
        return seq([self.stmt(s) for s in stmts])


def lean(p):
    k = p[0]
    if k in ("skip", "unknown"):
        return f".{k}"
    if k in ("setFlag", "ifDisabledRet", "ret"):
        return f"(.{k} {p[1]})"
    if k in ("lazy", "collect", "backend", "assign"):
        return f"(.{k} {p[1]} {p[2]})"
    if k in ("seq", "ifFlag"):
        return f"(.{k} {lean(p[1])} {lean(p[2])})"
    raise ValueError(p)


def build(repo: Path):
    out = {}
    for name, f, cls, meth in ENTRY:
        fn = None
        try:
            tree = ast.parse((repo / f).read_text())
        except (OSError, SyntaxError):
            tree = None
        if tree is not None:
            for node in ast.walk(tree):
                if isinstance(node, ast.ClassDef) and node.name == cls:
                    for b in node.body:
                        if isinstance(b, ast.FunctionDef) and b.name == meth:
                            fn = b
        if fn is None:
            out[name] = (("unknown",), {})
            continue
        tr = Tr()
        out[name] = (tr.block(fn.body), dict(tr.vars))
    return out


def render(repo: Path) -> str:
    lines = ["import PanderaModel.Kind",
             "/-! GENERATED by /verif/extract/kind_programs.py from /repo — do not edit.",
             "Variable 0 is the caller's object (`check_obj`). -/",
             "namespace Pandera.Generated", "open Pandera.KindM", ""]
    for name, (prog, vars_) in build(repo).items():
        lines.append(f"/-- variables: {vars_} -/")
        lines.append(f"def kind_{name} : KStmt := {lean(prog)}")
        lines.append("")
    lines += ["end Pandera.Generated", ""]
    return "\n".join(lines)


if __name__ == "__main__":
    import sys
    print(render(Path(sys.argv[1] if len(sys.argv) > 1 else "/repo")))

"""Translator (T) for C12: the slot tables of the script templates and the key sets of the
yaml/json writer and reader, from `pandera/io/pandas_io.py` and `pandera/schema_statistics/pandas.py`.

For every `<X>_TEMPLATE.format(kw=expr, ...)` call the filling expression is classified:

  repr     repr(e) / e.__repr__()                      -> a Python literal for any value
  quoted   f'"{e}"' (possibly guarded by `None if e is None else`) -> a literal only if e has no quote
  raw      a bare name / attribute / subscript          -> str(e) spliced in: a literal only for bool/None/number
  checks   _format_checks(e) (possibly guarded)
  dtype    _get_dtype_string_alias(e) guarded by `None if e is None`
  code     a local variable holding generated code (columns, index)
  other    anything else (no obligation accepts it)
"""
from __future__ import annotations

import ast
import string
from pathlib import Path

UNS = "<unsupported>"


def _consts(tree):
    out = {}
    for n in tree.body:
        if isinstance(n, ast.Assign) and len(n.targets) == 1 and isinstance(n.targets[0], ast.Name) \
                and isinstance(n.value, ast.Constant) and isinstance(n.value.value, str):
            out[n.targets[0].id] = n.value.value
    return out


def slots_of(template: str):
    return [f for _, f, _, _ in string.Formatter().parse(template) if f]


def _src_attr(e, local_src):
    """which attribute of the schema / statistics the expression reads"""
    if isinstance(e, ast.Attribute):
        return e.attr
    if isinstance(e, ast.Subscript) and isinstance(e.slice, ast.Constant):
        return str(e.slice.value)
    if isinstance(e, ast.Name):
        return local_src.get(e.id, e.id)
    if isinstance(e, ast.Call) and isinstance(e.func, ast.Attribute) and e.func.attr == "get" and e.args \
            and isinstance(e.args[0], ast.Constant):
        return str(e.args[0].value)
    return UNS


def classify(e, local_src):
    # strip `None/"None" if x is None else <e>` guards
    guarded = False
    if isinstance(e, ast.IfExp) and isinstance(e.test, ast.Compare) and len(e.test.ops) == 1 \
            and isinstance(e.test.ops[0], ast.Is) and isinstance(e.test.comparators[0], ast.Constant) \
            and e.test.comparators[0].value is None and isinstance(e.body, ast.Constant) \
            and e.body.value in (None, "None"):
        guarded = True
        e = e.orelse
    if isinstance(e, ast.Call):
        f = e.func
        if isinstance(f, ast.Name) and f.id == "repr" and len(e.args) == 1:
            return "repr", _src_attr(e.args[0], local_src)
        if isinstance(f, ast.Attribute) and f.attr == "__repr__" and not e.args:
            return "repr", _src_attr(f.value, local_src)
        if isinstance(f, ast.Name) and f.id == "_format_checks" and len(e.args) == 1:
            return "checks", _src_attr(e.args[0], local_src)
        if isinstance(f, ast.Name) and f.id == "_get_dtype_string_alias" and len(e.args) == 1 and guarded:
            return "dtype", _src_attr(e.args[0], local_src)
        return "other", UNS
    if isinstance(e, ast.JoinedStr):
        vals = e.values
        if (len(vals) == 3 and isinstance(vals[0], ast.Constant) and vals[0].value in ('"', "'")
                and isinstance(vals[2], ast.Constant) and vals[2].value == vals[0].value
                and isinstance(vals[1], ast.FormattedValue)):
            return ("quoted" if guarded else "quoted-unguarded"), _src_attr(vals[1].value, local_src)
        return "other", UNS
    if isinstance(e, (ast.Attribute, ast.Subscript)):
        return "raw", _src_attr(e, local_src)
    if isinstance(e, ast.Name):
        if e.id in ("column_str", "index"):
            return "code", e.id
        return "raw", _src_attr(e, local_src)
    return "other", UNS


def format_calls(tree, template_name):
    out = []
    for fn in ast.walk(tree):
        if not isinstance(fn, ast.FunctionDef):
            continue
        # locals assigned from properties[...] / properties.get(...)
        local_src = {}
        for n in ast.walk(fn):
            if isinstance(n, ast.Assign) and len(n.targets) == 1 and isinstance(n.targets[0], ast.Name):
                a = _src_attr(n.value, {})
                if a != UNS and not isinstance(n.value, ast.Name):
                    local_src[n.targets[0].id] = a
        for n in ast.walk(fn):
            if (isinstance(n, ast.Call) and isinstance(n.func, ast.Attribute) and n.func.attr == "format"
                    and isinstance(n.func.value, ast.Name) and n.func.value.id == template_name):
                out.append([(kw.arg or UNS,) + classify(kw.value, local_src) for kw in n.keywords])
    return out


def dict_keys_returned(fn):
    """literal keys of the dict a function returns (incl. keys listed in a `for key in [...]` comprehension)"""
    keys = []
    for n in ast.walk(fn):
        if isinstance(n, ast.Return) and isinstance(n.value, ast.Dict):
            for k, v in zip(n.value.keys, n.value.values):
                if k is None:       # **{key: ... for key in [...]}
                    for g in ast.walk(v):
                        if isinstance(g, ast.comprehension) and isinstance(g.iter, ast.List):
                            keys += [c.value for c in g.iter.elts if isinstance(c, ast.Constant)]
                elif isinstance(k, ast.Constant):
                    keys.append(k.value)
                else:
                    keys.append(UNS)
    return keys


def get_reads(fn, var):
    """keys read with `<var>.get("k", ...)` inside fn"""
    out = []
    for n in ast.walk(fn):
        if (isinstance(n, ast.Call) and isinstance(n.func, ast.Attribute) and n.func.attr == "get"
                and isinstance(n.func.value, ast.Name) and n.func.value.id == var and n.args
                and isinstance(n.args[0], ast.Constant)):
            if n.args[0].value not in out:
                out.append(n.args[0].value)
    return out


def _fn(tree, name):
    return next(n for n in ast.walk(tree) if isinstance(n, ast.FunctionDef) and n.name == name)


def stat_keys(fn):
    """keys of the per-component statistics dict literal"""
    best = []
    for n in ast.walk(fn):
        if isinstance(n, ast.Dict):
            ks = [k.value for k in n.keys if isinstance(k, ast.Constant)]
            if "nullable" in ks and len(ks) > len(best):
                best = ks
    return best


def extract(repo: Path) -> dict:
    io = ast.parse((repo / "pandera/io/pandas_io.py").read_text())
    st = ast.parse((repo / "pandera/schema_statistics/pandas.py").read_text())
    consts = _consts(io)
    info = {}
    for tname, key in (("SCRIPT_TEMPLATE", "script"), ("COLUMN_TEMPLATE", "column"), ("INDEX_TEMPLATE", "index")):
        info[key + "Slots"] = slots_of(consts.get(tname, ""))
        calls = format_calls(io, tname)
        info[key + "Fill"] = calls[0] if len(calls) == 1 else [(UNS, "other", UNS)]
    info["serializeTopKeys"] = dict_keys_returned(_fn(io, "serialize_schema"))
    info["deserializeTopKeys"] = get_reads(_fn(io, "deserialize_schema"), "serialized_schema")
    info["serializeCompKeys"] = dict_keys_returned(_fn(io, "_serialize_component_stats"))
    info["deserializeCompKeys"] = dict_keys_returned(_fn(io, "_deserialize_component_stats"))
    info["columnStatKeys"] = stat_keys(_fn(st, "get_dataframe_schema_statistics"))
    info["indexStatKeys"] = stat_keys(_fn(st, "_get_series_base_schema_statistics"))
    return info


def _strs(xs):
    return "[" + ", ".join('"%s"' % x for x in xs) + "]"


def _fills(xs):
    return "[" + ", ".join('("%s", "%s", "%s")' % t for t in xs) + "]"


def render(repo: Path) -> str:
    i = extract(repo)
    L = ["/- GENERATED by /verif/extract/scriptslots.py from the working tree of /repo — do not edit. -/",
         "namespace Pandera.Generated.ScriptSlots", ""]
    for key in ("script", "column", "index"):
        L.append(f"/-- slots of the {key} template -/")
        L.append(f"def {key}Slots : List String := {_strs(i[key + 'Slots'])}")
        L.append(f"/-- how `.format` fills them: slot, mode, attribute read -/")
        L.append(f"def {key}Fill : List (String × String × String) := {_fills(i[key + 'Fill'])}")
    for k in ("serializeTopKeys", "deserializeTopKeys", "serializeCompKeys", "deserializeCompKeys",
              "columnStatKeys", "indexStatKeys"):
        L.append(f"def {k} : List String := {_strs(i[k])}")
    L += ["", "end Pandera.Generated.ScriptSlots", ""]
    return "\n".join(L)


if __name__ == "__main__":
    import sys
    print(render(Path(sys.argv[1] if len(sys.argv) > 1 else "/repo")))

#!/usr/bin/env python3
"""Print DESIGN.md §12 (seeded changes) from /verif/seeded/*/meta.json."""
import collections
import glob
import json
import re


def esc(s):
    return (s or "").replace("|", "\\|").replace("\n", " ")


metas = [json.load(open(f)) for f in sorted(glob.glob("/verif/seeded/C*-*/meta.json"))]


def first(m):
    iv = m.get("initial_verdict") or {}
    if iv.get("patch_applied") is False:
        return "patch did not apply (ported)"
    if iv.get("rc") == 0:
        return "missed"
    if iv.get("rc") == 2:
        return "exit 2 (infrastructure)"
    return iv.get("kind") or "?"


def tally(ms):
    c = collections.Counter(first(m) for m in ms)
    return c


r1 = [m for m in metas if m.get("round") == 1]
r2 = [m for m in metas if m.get("round") == 2]
r3 = [m for m in metas if m.get("round") == 3]
r4 = [m for m in metas if m.get("round") == 4]
rej = [m for m in metas if m.get("rejected")]
t1, t2, t3, t4 = tally(r1), tally(r2), tally(r3), tally(r4)
final_fi = sum(1 for m in metas if not m.get("rejected") and ((m.get("checks") or {}).get(m["property"], {}).get("kind") == "failing-input"))
valid = [m for m in metas if not m.get("rejected")]
nsub = sum(1 for m in metas if (m.get("suite") or {}).get("ignored"))
nonly = sum(1 for m in metas if m.get("suite_only"))
tfired = sum(1 for m in metas if (m.get("checks") or {}).get(m["property"], {}).get("broken_obligations"))

print(f"""## 12. Seeded changes: which check catches which

The machinery was tested against realistic breakage written by **independent sub-agents**: a fresh
agent per property received only the property's text and a scratch git worktree of `/repo` (under
`/tmp`, nothing from `/verif`), and was asked for two changes that break the property while compiling
and passing the existing tests, each needing something specific to manifest, with a demonstration
that fails with the change and passes without. Four rounds were run ({len(r1)} + {len(r2)} + {len(r3)} + {len(r4)} changes; from the
second round on each agent was also told which changes already existed for its property and had to
find different mechanisms). Each change was confirmed here before being kept: `tools/seed_eval.py` runs the
demonstration on the unchanged tree (must pass), applies the patch (`git apply`), runs the
demonstration again (must fail), runs `./check <property> --tier quick`, and restores the tree;
`tools/seed_confirm.py` applies each patch in a scratch worktree and runs the pinned suite of
`/root/.vp/BASELINE.json`, comparing with its `stable_pass` list (`meta.json["suite"]`; for the {nsub} changes confirmed last the
command ran with `--ignore=tests/pyspark --ignore=tests/modin --ignore=tests/dask` — 2914 of the 3505 stable tests —
because those three directories start JVM / ray / dask clusters and eighteen such suites side by side brought the machine to a
load average above 2000 and into the runner's time limit; for the {nonly} of them that touch the pandas backends, the api classes, the
engines, the configuration or the decorators, `tests/pyspark/test_schemas_on_pyspark_pandas.py` — the pyspark file that exercises the
pandas backends — was then run on its own, `meta.json["suite_only"]`). Everything is
kept under `/verif/seeded/<id>/` (`patch.diff`, `demo.py`, the agent's `notes.md`, `meta.json` with the
property, what the change needs to manifest, what was run, the first and the final verdict; ids `-A`,
`-B` are round 1, `-C`, `-D` round 2, `-E`, `-F` round 3, `-G`, `-H` round 4). None of these changes is committed in `/repo`. Three round-1
patches (C05-A, C06-A, C18-B) no longer applied after later `fix:` commits touched the same lines and
were ported by hand to the current tree (noted in their `notes.md`).

| | changes | caught at first, with a failing input | caught at first, obligation only | missed at first | other |
|---|---|---|---|---|---|
| round 1 | {len(r1)} | {t1['failing-input']} | {t1['no-failing-input-found']} | {t1['missed']} | {t1['patch did not apply (ported)']} did not apply, {t1['exit 2 (infrastructure)']} exit 2 |
| round 2 (checks as strengthened after round 1) | {len(r2)} | {t2['failing-input']} | {t2['no-failing-input-found']} | {t2['missed']} | — |
| round 3 (checks as strengthened after round 2) | {len(r3)} | {t3['failing-input']} | {t3['no-failing-input-found']} | {t3['missed']} | {t3['patch did not apply (ported)']} did not apply |
| round 4 (checks as strengthened after round 3; the machine ran 12 test suites in parallel at the time) | {len(r4)} | {t4['failing-input']} | {t4['no-failing-input-found']} | {t4['missed']} | — |

**Every miss had the same cause: the generator did not reach the input the change needs** — an
entry point (stand-alone `Column`, `SeriesSchema`, `MultiIndex`, model `Config`), an option
combination, a data shape (extension dtypes, categorical containers, sliced frames, falsy labels), an
exception class, a schedule — never a wrong theorem. Each miss was answered by widening the generator
or adding an entry point, never by special-casing the seeded patch, and the widened checks were
re-run on the unchanged tree under several seeds before the seeds were re-evaluated. Widening also
surfaced further genuine defects of the unchanged tree (repaired: `a7f5a9b`, `27a10dd`, `6077b65` and
the two after it in rounds 1–2, `72b7df1`, `362b17f`, `b4b56ff`, `efb22b6`, `9cf1734`, `4f18ff6`, `3960b4d` in rounds
3–4; recorded: `K_C17_builtinValuesSkipped`, `K_C10_parametrised-tz-aware`). In rounds 3 and 4 the agents were
told every earlier change and asked for other mechanisms; the first-sight rate fell accordingly (the
remaining unexplored dimensions are the hard ones), which is the honest measure of what a
sampling-based failing-input search covers. What changed in round 4 is the share caught by the **T-tie
alone** (obligation broken, `no-failing-input-found`): the translators added after round 3
(`subsample_rules.py`, `schema_mutation.py`) and the older ones (`alias_skeletons.py`, `dtype_registry.py`,
the Lean model of the transformations) flagged changes the generators had not reached yet.

**Final pass** (all checks as committed): {final_fi} of {len(valid)} valid changes caught with a concrete failing input as the
replay. The T-tie (model regenerated from the source, obligations re-checked by `decide`) fired on
{tfired} of them, always together with or ahead of the differential; when only it fires the line ends
`no-failing-input-found`.
""")
if rej:
    print("Changes that were **not kept as valid seeds**: "
          + "; ".join(f"{m['id']} ({esc(m['rejected'])})" for m in rej) + ". They stay in the directory for the record.\n")
print("| Seed | Change (file) | First verdict | What was strengthened | Final verdict: the failing input reported |")
print("|---|---|---|---|---|")
for m in metas:
    t = re.sub(r"^C\d+\s*/\s*(change\s*)?[AB]\s*[-:–]\s*", "", m.get("change", ""), flags=re.I).lstrip("- ")
    files = ", ".join(f.replace("pandera/", "") for f in m.get("files", []))
    chk = (m.get("checks") or {}).get(m["property"], {})
    how = esc((chk.get("what") or "")[:150])
    if chk.get("broken_obligations"):
        how += " (+ broken obligation: " + ", ".join(chk["broken_obligations"]) + ")"
    print(f"| {m['id']} | {esc(t)[:120]} (`{files[:60]}`) | {first(m)} | {esc(m.get('strengthening', '—'))} | {chk.get('kind')}: {how} |")
print("""
Limits this campaign showed, stated plainly: (1) the strength of every check is bounded by its
generator — the catch rate at first sight (table above) stayed between a quarter and a half, because each round's agents were
sent to the places the earlier rounds had not touched; (2) regions of known findings must be predicates on the *case*, as narrow as the
defect: C07-A, C20-A and C10-C hid inside regions that were drawn too wide until an entry point
outside the region was added or the region was narrowed; (3) a seeded change can break a *proof
obligation of another property's driver* — drivers now import only model and generated files; (4) the
agents validated their changes against subsets of the suite; the full pinned suite is run here
(`tools/seed_confirm.py`), with three environment artefacts of that suite handled explicitly (pyspark
worker interpreter, two parametrisations whose ids depend on the hash seed); (5) one seed of the quick tier is
one sample: after round 4 every check was run under seeds 1–4 and in the thorough tier on the unchanged tree,
which surfaced four more genuine defects (`f362c40`, `4b71058`, `d71f073`, the region
`K_C10_bytes-to-str`) and one place where the model had not followed an earlier repair (§13) — all of them
inputs the widened generators reach only now and then; (6) a seeded change can stop being a valid
seed because of a repair made meanwhile (C03-H), and a demonstration can go stale the same way (C11-B): both
are re-run against the current tree before they are counted.
""")

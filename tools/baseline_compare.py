#!/usr/bin/env python3
"""Run the repository's baseline test command and compare with BASELINE.json's stable_pass list.
usage: baseline_compare.py [junit.xml]   (runs the suite when no file is given)"""
import json, subprocess, sys, xml.etree.ElementTree as ET, os, tempfile

base = json.load(open("/root/.vp/BASELINE.json"))
if len(sys.argv) > 1:
    path = sys.argv[1]
else:
    path = os.path.join(tempfile.gettempdir(), "pandera_suite.junit.xml")
    cmd = base["cmd"].replace("<file>", path)
    env = dict(os.environ, PYSPARK_PYTHON="/venv/bin/python", PYSPARK_DRIVER_PYTHON="/venv/bin/python",
               PATH="/venv/bin:" + os.environ.get("PATH", ""))
    subprocess.run(cmd, shell=True, stdout=subprocess.DEVNULL, stderr=subprocess.DEVNULL, env=env)
root = ET.parse(path).getroot()
passed = set()
failed = set()
for tc in root.iter("testcase"):
    name = f"{tc.get('classname')}::{tc.get('name')}"
    bad = any(ch.tag in ("failure", "error", "skipped") for ch in tc)
    if any(ch.tag == "skipped" and "float16 is not supported for indexes" in (ch.get("message") or "") for ch in tc):
        bad = False     # an xfail whose parametrised id depends on the hash seed (a set of dtypes): not a regression
    if "pyspark_pandas" in name and "test_nullable[" in name and any(
            "dtype=Timedelta64()" in ((ch.get("message") or "") + (ch.text or "")) for ch in tc):
        bad = False     # the Timedelta64 case always fails here; its id moves with the hash seed (flaky in the baseline)
    (failed if bad else passed).add(name)
stable = set(base["stable_pass"])
missing = sorted(stable - passed)
print(f"stable_pass={len(stable)} passed_now={len(passed)} stable_not_passing={len(missing)}")
for m in missing[:40]:
    print("  NOT PASSING:", m)
sys.exit(1 if missing else 0)

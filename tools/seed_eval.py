#!/usr/bin/env python3
"""Evaluate a seeded change against the checks.

usage: seed_eval.py <src_dir> <seed_id> <property> [<other properties to run too> ...]

<src_dir> holds patch.diff, demo.py and notes.md (written by an independent sub-agent that saw only
the property text).  Steps: the demo must pass on the unchanged /repo; the patch must apply; the
demo must fail with it; then `./check <property> --tier quick` is run with the patch applied and
its verdict recorded; /repo is restored (`git checkout -- .`) whatever happens.  The artefacts and
a meta.json go to /verif/seeded/<seed_id>/.
"""
import json
import os
import shutil
import subprocess
import sys
import time

REPO = os.environ.get("VERIF_REPO", "/repo")
VERIF = os.environ.get("VERIF_HOME", "/verif")


def sh(cmd, **kw):
    return subprocess.run(cmd, shell=True, capture_output=True, text=True, **kw)


def main():
    src, sid, prop, *others = sys.argv[1:]
    out = os.path.join(VERIF, "seeded", sid)
    os.makedirs(out, exist_ok=True)
    meta = {"id": sid, "property": prop, "source": "independent sub-agent given only the property text and a scratch worktree",
            "ran": [], "time": time.strftime("%Y-%m-%d %H:%M:%S")}
    assert sh(f"git -C {REPO} status --porcelain").stdout.strip() == "", "/repo is not clean"
    patch = os.path.join(src, "patch.diff")
    demo = os.path.join(src, "demo.py")
    for f in ("patch.diff", "demo.py", "notes.md"):
        if os.path.exists(os.path.join(src, f)) and os.path.realpath(src) != os.path.realpath(out):
            shutil.copy(os.path.join(src, f), os.path.join(out, f))
    env = dict(os.environ, PYTHONPATH=REPO)
    try:
        r = sh(f"/venv/bin/python -W ignore {demo}", env=env, cwd="/tmp", timeout=900)
        meta["demo_clean_rc"] = r.returncode
        meta["ran"].append("demo.py on the unchanged /repo")
        chk = sh(f"git -C {REPO} apply --check {patch}")
        meta["patch_applies"] = chk.returncode == 0
        if chk.returncode != 0:
            meta["patch_error"] = chk.stderr[-400:]
            return finish(out, meta)
        sh(f"git -C {REPO} apply {patch}")
        r = sh(f"/venv/bin/python -W ignore {demo}", env=env, cwd="/tmp", timeout=900)
        meta["demo_patched_rc"] = r.returncode
        meta["demo_patched_tail"] = (r.stdout + r.stderr)[-400:]
        meta["ran"].append("demo.py with the patch applied")
        meta["checks"] = {}
        for p in [prop] + others:
            t0 = time.time()
            r = sh(f"./check {p} --tier quick", cwd=VERIF, timeout=3000)
            lines = [l for l in r.stdout.splitlines() if l.startswith("VIOLATION")]
            entry = {"rc": r.returncode, "violation_line": lines[0] if lines else None, "wall_s": round(time.time() - t0, 1)}
            rp = os.path.join(VERIF, "replays", f"{p}-0.json")
            if lines and os.path.exists(rp):
                try:
                    rep = json.load(open(rp))
                    entry["kind"] = rep.get("kind")
                    entry["what"] = str(rep.get("what"))[:300]
                    entry["broken_obligations"] = [b.get("kind") for b in rep.get("broken_obligations", [])]
                    entry["classes"] = list((rep.get("violation_classes") or rep.get("correspondence_break_classes") or {}).items())[:4]
                except Exception:  # noqa: BLE001
                    pass
            meta["checks"][p] = entry
            meta["ran"].append(f"./check {p} --tier quick with the patch applied")
    finally:
        sh(f"git -C {REPO} checkout -- .")
        sh(f"git -C {REPO} clean -fdq -- pandera")
    return finish(out, meta)


def finish(out, meta):
    mp = os.path.join(out, "meta.json")
    if os.path.exists(mp):
        try:
            old = json.load(open(mp))
            hist = old.get("history", [])
            if old.get("checks"):
                hist.append({"time": old.get("time"), "checks": {p: {k: e.get(k) for k in ("rc", "kind", "what")}
                                                                  for p, e in old["checks"].items()}})
            meta["history"] = hist
            for k in ("initial_verdict", "strengthening", "round", "change", "needs_to_manifest", "files", "suite", "rejected"):
                if k in old:
                    meta[k] = old[k]
        except Exception:  # noqa: BLE001
            pass
    json.dump(meta, open(mp + ".tmp", "w"), indent=1)
    os.replace(mp + ".tmp", mp)
    print(json.dumps({k: meta.get(k) for k in ("id", "demo_clean_rc", "patch_applies", "demo_patched_rc")}))
    for p, e in (meta.get("checks") or {}).items():
        print(" ", p, "rc", e["rc"], e.get("kind"), (e.get("what") or "")[:160], e.get("broken_obligations"))
    return 0


if __name__ == "__main__":
    sys.exit(main())

#!/usr/bin/env python3
"""Confirm, in scratch worktrees, that every kept seeded change passes the repository's pinned test suite.

usage: seed_confirm.py <worktree-root> [seed-id ...]     (default: every /verif/seeded/<id>)

For each seed: the scratch worktree <worktree-root>/<Cxx> is moved to /repo's HEAD, the seed's patch.diff is applied,
the baseline command of /root/.vp/BASELINE.json is run there (pandera imported from the worktree), the junit result is
compared with the baseline's stable_pass list, the worktree is restored.  The outcome goes to meta.json["suite"].
Seeds of the same property share a worktree and run one after the other; different properties run in parallel.
"""
import json
import os
import subprocess
import sys
import xml.etree.ElementTree as ET
from concurrent.futures import ThreadPoolExecutor

BASE = json.load(open("/root/.vp/BASELINE.json"))
STABLE = set(BASE["stable_pass"])
KEY = "suite_only" if os.environ.get("SEED_CONFIRM_ONLY") else "suite"
HEAD = subprocess.run("git -C /repo rev-parse HEAD", shell=True, capture_output=True, text=True).stdout.strip()


def sh(cmd, **kw):
    return subprocess.run(cmd, shell=True, capture_output=True, text=True, **kw)


def one(root, sid):
    prop = sid.split("-")[0]
    wt = os.path.join(root, prop)
    d = f"/verif/seeded/{sid}"
    meta = json.load(open(d + "/meta.json"))
    sh(f"git -C {wt} checkout -q -- . && git -C {wt} clean -fdq -- pandera && git -C {wt} checkout -q --detach {HEAD}")
    r = sh(f"git -C {wt} apply {d}/patch.diff")
    if r.returncode != 0:
        meta[KEY] = {"applied": False, "error": r.stderr[-300:]}
    else:
        junit = f"/tmp/seed_confirm_{sid}.xml"
        cmd = BASE["cmd"].replace("cd /repo", f"cd {wt}").replace("<file>", junit)
        ignored = [x for x in os.environ.get("SEED_CONFIRM_IGNORE", "").split(",") if x]
        for ig in ignored:
            cmd += f" --ignore={ig}"
        only = os.environ.get("SEED_CONFIRM_ONLY", "")
        if only:
            cmd += f" {only}"
        # the interpreter of the pinned command must also be the one pyspark starts its workers with
        env = dict(os.environ, PYTHONPATH=wt, RAY_DISABLE_IMPORT_WARNING="1", PYSPARK_PYTHON="/venv/bin/python",
                   PYSPARK_DRIVER_PYTHON="/venv/bin/python", PATH="/venv/bin:" + os.environ.get("PATH", ""))
        sh(cmd, env=env, timeout=5400)
        passed = set()
        try:
            for tc in ET.parse(junit).getroot().iter("testcase"):
                name = f"{tc.get('classname')}::{tc.get('name')}"
                if not any(ch.tag in ("failure", "error", "skipped") for ch in tc):
                    passed.add(name)
                elif any(ch.tag == "skipped" and "float16 is not supported for indexes" in (ch.get("message") or "")
                         for ch in tc):
                    # an xfail inside a parametrisation whose ids depend on the hash seed (a set of dtypes): the id
                    # that xfails differs from run to run, so it cannot be held against the change
                    passed.add(name)
                elif "pyspark_pandas" in name and "test_nullable[" in name and any(
                        "dtype=Timedelta64()" in ((ch.get("message") or "") + (ch.text or "")) for ch in tc):
                    # the Timedelta64 case of this parametrisation always fails here (a pyspark AttributeError); which id it
                    # gets depends on the hash seed (the baseline lists four such ids as flaky)
                    passed.add(name)
            ign_mods = tuple(ig.strip("/").replace("/", ".") for ig in ignored)
            stable = {t for t in STABLE if not (ign_mods and t.startswith(ign_mods))}
            if only:
                stable = {t for t in stable if t.startswith(only[:-3].replace("/", "."))}
            missing = sorted(stable - passed)
            chk = sh(f"cd {wt} && PYTHONPATH={wt} /venv/bin/python -c 'import pandera,sys;print(pandera.__file__)'")
            meta["suite_only" if only else "suite"] = {"applied": True, "head": HEAD[:7], "passed": len(passed), "stable_pass": len(stable),
                             **({"ignored": ignored} if ignored else {}), **({"only": only} if only else {}),
                             "stable_not_passing": missing[:20], "pandera_imported_from": chk.stdout.strip()}
        except Exception as e:  # noqa: BLE001
            meta[KEY] = {"applied": True, "error": f"{type(e).__name__}: {e}"}
        if os.path.exists(junit):
            os.remove(junit)
    sh(f"git -C {wt} checkout -q -- . && git -C {wt} clean -fdq -- pandera")
    # the suite takes long: other tools may have completed the file meanwhile — add the one field to what is there now
    key = "suite_only" if os.environ.get("SEED_CONFIRM_ONLY") else "suite"
    suite = meta.get(key)
    meta = json.load(open(d + "/meta.json"))
    meta[key] = suite
    json.dump(meta, open(d + "/meta.json", "w"), indent=1)
    print(sid, json.dumps(meta.get("suite_only" if os.environ.get("SEED_CONFIRM_ONLY") else "suite"))[:300], flush=True)


def main():
    root = sys.argv[1]
    ids = sys.argv[2:] or sorted(os.listdir("/verif/seeded"))
    by_prop = {}
    for sid in ids:
        by_prop.setdefault(sid.split("-")[0], []).append(sid)

    def chain(sids):
        for s in sids:
            try:
                one(root, s)
            except Exception as e:  # noqa: BLE001
                print(s, "ERROR", type(e).__name__, e, flush=True)
    with ThreadPoolExecutor(max_workers=6) as ex:
        list(ex.map(chain, by_prop.values()))


if __name__ == "__main__":
    main()

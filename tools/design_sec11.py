#!/usr/bin/env python3
"""Print DESIGN.md §11 (defects: repairs and regions) from known_findings.json and /repo's log."""
import json, re, subprocess
BAR = "\\|"
def esc(s): return s.replace("|", BAR)
def sh(c): return subprocess.run(c, shell=True, capture_output=True, text=True).stdout
k = json.load(open('/verif/known_findings.json'))
by = {}
for f in k['fixed']:
    m = re.match(r'fixed: property=(C\d+) (\w+) (.*)', f)
    by.setdefault(m.group(2), {'props': [], 'what': m.group(3)})['props'].append(m.group(1))
order = sh("git -C /repo log --reverse --format=%h c030c8e..HEAD").split()
out = []
out.append("## 11. Defects found in pandera: repairs and recorded regions\n\n")
out.append(f"""Every check was first run against the pinned tree; each disagreement was triaged as §2.3
prescribes: reproduce on the real code with a few lines → either the check was wrong (§13) or pandera
breaks the property. Genuine defects were repaired when the patch is small, keeps the behaviour and
passes the unedited suite (one unguarded `fix:` commit each, {len(order)} in total), and recorded as a region
of `known_findings.json` otherwise ({len(k['findings'])} regions). After the repairs the full baseline command of
`/root/.vp/BASELINE.json` was run and compared id by id with `tools/baseline_compare.py` (last run, at the final
`/repo` HEAD `d71f073`: `stable_pass=3505 passed_now=3923 stable_not_passing=0`).

### 11.1 Repairs (`git -C /repo log --grep '^fix:'`)

| Commit | Found by | What failed before the repair |
|---|---|---|
""")
for c in order:
    e = by.get(c)
    if not e:
        out.append(f"| `{c}` | — | {esc(sh(f'git -C /repo log -1 --format=%s {c}').strip())} |\n")
    else:
        out.append(f"| `{c}` | {', '.join(sorted(set(e['props'])))} | {esc(e['what'])} |\n")
out.append("""
Two candidate repairs were withdrawn because the unedited suite pins the defective behaviour, and
became regions instead: front insertion of restored columns in `reset_index`
(`tests/core/test_schemas.py::test_reset_index_drop` → `K_C15_resetIndexOrder`) and `re.escape` in the
`str_startswith` / `str_endswith` strategies (`tests/strategies/test_strategies.py::test_str_pattern_checks`
→ `K_C13_literalAsRegex`). A third was narrowed: filtering exclusive bounds in `in_range_strategy`
is applied to integer dtypes only (`test_timedelta` relies on the unfiltered form).

### 11.2 Recorded regions (`known_findings.json`, printed as `KNOWN-FINDING:` on every run)

A region is a predicate on the *case* (schema shape, data shape, backend), evaluated by the harness
from the generated input — never from the outcome alone — so a different violation of the same
property still exits 1.

| Property | Region | What fails (the specific input is the `replay` field of the file) |
|---|---|---|
""")
for f in k['findings']:
    out.append(f"| {f['property']} | `{f['region']}` | {esc(f['what'])} |\n")
out.append("""
Why these are recorded rather than repaired: each needs a behaviour decision a maintainer has to
make (what the failure cases of an Index check should carry; whether null duplicates are reported;
how the polars backend should report a missing column), a redesign (per-call state instead of
temporary overrides on the shared schema object, `K_C07_sharedSchemaComponents`; per-validation
dtype objects, `K_C05_tzAgnosticDatetime`), or is pinned by an existing test (above).
""")
print(''.join(out))

#!/usr/bin/env python3
"""Complete /verif/seeded/<id>/meta.json: the one-line description of the change and what it needs to manifest
(both taken from the sub-agent's notes.md), and print DESIGN.md §12's table."""
import glob
import json
import os
import re
import sys

ROOT = "/verif/seeded"


def para(text, *keys):
    t = text.replace("\r", "")
    for k in keys:
        m = re.search(r"(?im)^[\-\*\s]*\**\s*(" + k + r")[^\n]*?\**\s*[:\-]\s*(.*?)(?=\n\s*\n|\n[\-\*]\s*\*\*|\n\*\*|\Z)", t, flags=re.S)
        if m:
            return re.sub(r"\s+", " ", m.group(0)).strip(" -*")[:700]
    return None


def main():
    rows = []
    for d in sorted(glob.glob(ROOT + "/C*-*")):
        mp = os.path.join(d, "meta.json")
        if not os.path.exists(mp):
            continue
        meta = json.load(open(mp))
        notes = open(os.path.join(d, "notes.md")).read() if os.path.exists(os.path.join(d, "notes.md")) else ""
        title = next((l.strip("# ").strip() for l in notes.splitlines() if l.startswith("#")), meta["id"])
        meta["change"] = title
        meta["needs_to_manifest"] = para(notes, "needed to manifest", "what is needed to manifest", "what it needs to manifest",
                                         "what it takes to show", "needs to manifest", "when it shows", "needed") or \
            re.sub(r"\s+", " ", notes)[:600]
        files = sorted(set(re.findall(r"^\+\+\+ b/(\S+)", open(os.path.join(d, "patch.diff")).read(), flags=re.M)))
        meta["files"] = files
        json.dump(meta, open(mp, "w"), indent=1)
        chk = (meta.get("checks") or {}).get(meta["property"], {})
        rows.append((meta["id"], title, files, chk, meta))
    if "--table" in sys.argv:
        print("| Seed | Change (file) | Check verdict with the change applied | How it was caught |")
        print("|---|---|---|---|")
        for sid, title, files, chk, meta in rows:
            t = re.sub(r"^C\d+\s*/\s*(change\s*)?[AB]\s*[-:–]\s*", "", title, flags=re.I)
            kind = chk.get("kind") or ("not caught" if chk.get("rc") == 0 else f"rc {chk.get('rc')}")
            how = (chk.get("what") or "")[:140].replace("|", "\\|").replace("\n", " ")
            if kind == "no-failing-input-found":
                how = "obligation broken: " + ", ".join(chk.get("broken_obligations") or []) + " (no failing input among the generated cases)"
            elif chk.get("broken_obligations"):
                how += " (also breaks: " + ", ".join(chk["broken_obligations"]) + ")"
            print(f"| {sid} | {t[:110]} (`{', '.join(f.replace('pandera/', '') for f in files)[:70]}`) | {kind} | {how} |")


if __name__ == "__main__":
    main()

import PanderaModel.Props.C11
#print axioms Pandera.C11.dropRows_nrows
#print axioms Pandera.C11.dropRows_cols
#print axioms Pandera.C11.keptPositions_sorted
#print axioms Pandera.C11.kept_iff_not_named
#print axioms Pandera.C11.mem_cells_checkStep
#print axioms Pandera.C11.field_rows_named
#print axioms Pandera.C11.presence_no_cells
#print axioms Pandera.C11.jointUnique_rows_named
#print axioms Pandera.C11.relabel_rows
#print axioms Pandera.C11.frame_rows_named
#print axioms Pandera.C11.drop_returns_unnamed_rows
#print axioms Pandera.C11.non_row_errors_still_raised
#print axioms Pandera.C11.survivors_are_the_valid_rows
#print axioms Pandera.C11.drop_invalid_rows_exact

import PanderaModel.Props.C11
#print axioms Pandera.C11.dropRows_nrows
#print axioms Pandera.C11.dropRows_cols
#print axioms Pandera.C11.keptPositions_sorted
#print axioms Pandera.C11.kept_iff_not_named
#print axioms Pandera.C11.mem_cells_checkStep
#print axioms Pandera.C11.field_rows_named

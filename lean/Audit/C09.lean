import PanderaModel.Props.C09
#print axioms Pandera.C09.every_key_resolves
#print axioms Pandera.C09.resolve_idempotent
#print axioms Pandera.C09.equivalent_keys_equal_and_equal_hash
#print axioms Pandera.C09.print_resolve_roundtrip_partial
#print axioms Pandera.C09.check_reflexive_partial
#print axioms Pandera.C09.check_implies_same_kind_sign_width_partial
#print axioms Pandera.C09.K_C09_witnesses
#print axioms Pandera.C09.numeric_check_iff
#print axioms Pandera.C09.keys_closed
#print axioms Pandera.C09.every_key_resolves_to_a_fixed_point
#print axioms Pandera.C09.equivalent_keys_forall
#print axioms Pandera.C09.pandas_check_pairs_forall_partial
#print axioms Pandera.C09.check_pairs_forall
#print axioms Pandera.C09.print_and_reflexive_forall

import PanderaModel.Props.C01
#print axioms Pandera.C01.wf_names
#print axioms Pandera.C01.wf_cols
#print axioms Pandera.C01.wf_index
#print axioms Pandera.C01.validate_accepts_iff_sat_partial
#print axioms Pandera.C01.K_C01_strVacuous_witness
#print axioms Pandera.C01.validate_returns_input
#print axioms Pandera.C01.pandas_builtin_eq_docPred
#print axioms Pandera.C01.series_accepts_iff_partial
#print axioms Pandera.C01.uniqueValuesEq_vacuous
#print axioms Pandera.C01.uniqueValuesEq_empty_column
#print axioms Pandera.C01.uniqueValuesEq_ignores_nulls
#print axioms Pandera.C01.uniqueValuesEq_missing_value
#print axioms Pandera.C01.dupGroups_nil_iff
#print axioms Pandera.C01.mem_dupGroups_iff

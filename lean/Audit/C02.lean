import PanderaModel.Props.C02
#print axioms Pandera.C02.lazy_run_eq_frameErrors
#print axioms Pandera.C02.lazy_raises_iff_eager_raises
#print axioms Pandera.C02.eager_error_is_first_lazy_error
#print axioms Pandera.C02.eager_error_mem_lazy_errors
#print axioms Pandera.C02.eager_ok_returns_input
#print axioms Pandera.C02.null_cells_exact
#print axioms Pandera.C02.check_cells_exact
#print axioms Pandera.C02.error_counts_sum
#print axioms Pandera.C02.field_cells_wellformed
#print axioms Pandera.C02.field_cells_exact
#print axioms Pandera.C02.col?_some
#print axioms Pandera.C02.frame_report_sound
#print axioms Pandera.C02.frame_report_complete

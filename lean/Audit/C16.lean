import PanderaModel.Props.C16
#print axioms Pandera.ModelC.model_rules_ok
#print axioms Pandera.ModelC.lookup_foldl_dictSet
#print axioms Pandera.ModelC.lookup_dictOf_last
#print axioms Pandera.ModelC.annotation_nearest
#print axioms Pandera.ModelC.fieldObj_nearest
#print axioms Pandera.ModelC.config_nearest
#print axioms Pandera.ModelC.collect_mem_iff
#print axioms Pandera.ModelC.collect_nearest
#print axioms Pandera.ModelC.collect_names_nodup
#print axioms Pandera.ModelC.parser_override_witness
#print axioms Pandera.ModelC.names_stable
#print axioms Pandera.ModelC.names_order_independent
#print axioms Pandera.ModelC.names_order_dependent_witness

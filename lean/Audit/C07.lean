import PanderaModel.Props.C07
#print axioms Pandera.C07.stepT_writes
#print axioms Pandera.C07.writeSet_step_subset
#print axioms Pandera.C07.footprint_step_subset
#print axioms Pandera.C07.stepT_agree
#print axioms Pandera.C07.noninterference
#print axioms Pandera.C07.shared_schema_attr_race_witness
#print axioms Pandera.C07.distinct_schemas_safe
#print axioms Pandera.C07.context_config_is_thread_local

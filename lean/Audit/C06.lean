import PanderaModel.Props.C06
#print axioms Pandera.C06.mapM?_none_of_mem
#print axioms Pandera.C06.check_fault_is_failure
#print axioms Pandera.C06.vectorised_fault_is_failure
#print axioms Pandera.C06.raising_check_is_one_error
#print axioms Pandera.C06.parse_never_crashes
#print axioms Pandera.C06.validate_channel
#print axioms Pandera.C06.validate_never_crashes
#print axioms Pandera.C06.raised_errors_are_the_collected_ones
#print axioms Pandera.C06.returns_only_without_errors
#print axioms Pandera.C06.fault_restores_component_attrs
#print axioms Pandera.C06.fault_restores_regex_name
#print axioms Pandera.C06.fault_restores_config
#print axioms Pandera.C06.fault_restores_config_polars
#print axioms Pandera.C06.fault_restores_config_polars_column

import PanderaModel.Props.C03
#print axioms Pandera.C03.fieldErrors_strip
#print axioms Pandera.C03.targets_strip
#print axioms Pandera.C03.checks_ignore_parsing_options
#print axioms Pandera.C03.validate_ok_core_checks
#print axioms Pandera.C03.validate_ok_conforms_partial
#print axioms Pandera.C03.K_C03_staleColumnInfo_witness
#print axioms Pandera.C03.filter_keeps_only_declared
#print axioms Pandera.C03.coerceValue_idem
#print axioms Pandera.C03.coerceValue_fits
#print axioms Pandera.C03.coerceValue_conforming
#print axioms Pandera.C03.tryCoerce_ok_iff
#print axioms Pandera.C03.tryCoerce_idem
#print axioms Pandera.C03.tryCoerce_conforming
#print axioms Pandera.C03.tryCoerce_ok_fits
#print axioms Pandera.C03.coerceColumn_fixpoint
#print axioms Pandera.C03.fillna_idem
#print axioms Pandera.C03.strictFilter_idem

import PanderaModel.Props.C13
#print axioms Pandera.Strat.strategy_rules_ok
#print axioms Pandera.Strat.chain_some
#print axioms Pandera.Strat.chain_inv
#print axioms Pandera.Strat.chain_sound
#print axioms Pandera.Strat.replace_witness
#print axioms Pandera.Strat.unsat_reports
#print axioms Pandera.Strat.column_sound
#print axioms Pandera.Strat.eraseDups_of_nodup
#print axioms Pandera.Strat.flatten_matched
#print axioms Pandera.Strat.frame_sound

import PanderaModel.Props.C14
#print axioms Pandera.Infer.minKey_spec
#print axioms Pandera.Infer.maxKey_spec
#print axioms Pandera.Infer.ge_bound_ok
#print axioms Pandera.Infer.le_bound_ok
#print axioms Pandera.Infer.fits_key
#print axioms Pandera.Infer.inferred_checks_hold
#print axioms Pandera.Infer.infer_field_ok
#print axioms Pandera.Infer.bounds_tight
#print axioms Pandera.Infer.find_of_nodup
#print axioms Pandera.Infer.infer_frame_sat
#print axioms Pandera.Infer.roundNat_small
#print axioms Pandera.Infer.roundF64_small
#print axioms Pandera.Infer.float_bounds_accept
#print axioms Pandera.Infer.float_bounds_accept_binary64
#print axioms Pandera.Infer.roundF64_monotone
#print axioms Pandera.Infer.inference_table_ok
#print axioms Pandera.Infer.strict_bound_rejects

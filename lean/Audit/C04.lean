import PanderaModel.Props.C04
#print axioms Pandera.C04.caller_untouched
#print axioms Pandera.C04.dataframe_validate_safe
#print axioms Pandera.C04.array_validate_safe
#print axioms Pandera.C04.column_validate_safe
#print axioms Pandera.C04.index_validate_safe
#print axioms Pandera.C04.multiindex_validate_safe
#print axioms Pandera.C04.series_schema_validate_safe
#print axioms Pandera.C04.dataframe_validate_caller_untouched
#print axioms Pandera.C04.series_schema_validate_caller_untouched
#print axioms Pandera.C04.index_validate_caller_untouched
#print axioms Pandera.C04.kind_preserved

import PanderaModel.Props.C20
#print axioms Pandera.C20.eraseDupsBy_congr
#print axioms Pandera.C20.mem_headPos
#print axioms Pandera.C20.mem_tailPos
#print axioms Pandera.C20.concatPos_lt
#print axioms Pandera.C20.kept_eq_requested
#print axioms Pandera.C20.head_all_covers_everything
#print axioms Pandera.C20.no_option_all_rows
#print axioms Pandera.C20.K_C20_duplicateLabels_witness
#print axioms Pandera.C20.K_C20_duplicateRows_witness

import PanderaModel.Props.C08
#print axioms Pandera.C08.backend_rules_ok
#print axioms Pandera.C08.polars_builtin_eq_docPred
#print axioms Pandera.C08.builtins_agree
#print axioms Pandera.C08.caretSearch_eq_prefixMatch
#print axioms Pandera.C08.caret_alternation_witness
#print axioms Pandera.C08.check_elem_agree
#print axioms Pandera.C08.lt_null_right
#print axioms Pandera.C08.lt_null_left
#print axioms Pandera.C08.le_null_right
#print axioms Pandera.C08.le_null_left
#print axioms Pandera.C08.docPred_null_false
#print axioms Pandera.C08.builtin_elem_agree
#print axioms Pandera.C08.negated_null_witness
#print axioms Pandera.C08.unique_verdict_keep_independent

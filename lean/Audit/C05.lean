import PanderaModel.Props.C05
#print axioms Pandera.C05.history_preserves
#print axioms Pandera.C05.run_schema_component_checks_restores
#print axioms Pandera.C05.validate_column_restores
#print axioms Pandera.C05.config_context_restores
#print axioms Pandera.C05.polars_container_validate_restores
#print axioms Pandera.C05.polars_column_validate_restores
#print axioms Pandera.C05.index_backend_validate_restores
#print axioms Pandera.C05.array_backend_validate_restores
#print axioms Pandera.C05.component_attrs_unchanged
#print axioms Pandera.C05.regex_column_name_unchanged
#print axioms Pandera.C05.validation_histories_preserve
#print axioms Pandera.C05.schema_side_writes_are_owned
#print axioms Pandera.C05.schema_mutation_scan_nonempty
#print axioms Pandera.C05.scanned_functions_leave_entry_objects
#print axioms Pandera.C05.scanned_function_histories_leave_entry_objects

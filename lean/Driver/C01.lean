import Driver.Codec
import PanderaModel.Generated.ScopeMap
import PanderaModel.Generated.BuiltinChecks
open Lean Pandera

structure Case where
  schema : Schema
  frame : Frame
  depth : Depth
  deriving FromJson

structure BCase where
  b : Builtin
  vals : List Val
  deriving FromJson

def kRegion (S : Schema) (D : Frame) : Bool :=
  S.columns.any (fun spec => (targets spec D).any (fun n =>
    match D.col? n, spec.dtype with
    | some c, some t => K_C01_strVacuous t c.dtype c.vals
    | _, _ => false))
  || (match S.index with
      | some ix => D.index.any (fun l => match ix.dtype with
          | some t => K_C01_strVacuous t l.dtype l.vals
          | none => false)
      | none => false)

def answer (j : Json) : Except String Json := do
  match j.getObjVal? "mode" with
  | .ok (.str "builtin") =>
    let c : BCase ← fromJson? j
    return Json.mkObj [
      ("doc", toJson (c.vals.map (docPred c.b))),
      ("gen", toJson (c.vals.map (evalVia Generated.pandasBuiltins c.b)))]
  | _ =>
    let c : Case ← fromJson? j
    let errs := frameErrors Generated.generatedScopes c.depth c.schema c.frame
    return Json.mkObj [
      ("wf", toJson c.frame.WF),
      ("errors", toJson errs),
      ("accepts", toJson errs.isEmpty),
      ("sat", toJson (decide (Spec.Sat c.schema c.frame))),
      ("inK", toJson (kRegion c.schema c.frame))]

def main : IO Unit := do
  lineLoop (← IO.getStdin) (← IO.getStdout) answer

import Driver.Codec
import PanderaModel.Generated.ScopeMap
import PanderaModel.Generated.BuiltinChecks
import PanderaModel.Aggregate
open Lean Pandera

structure Case where
  schema : Schema
  frame : Frame
  depth : Depth
  deriving FromJson

structure BCase where
  b : Builtin
  vals : List Val
  deriving FromJson

structure ACase where
  vs : List Val
  vals : List Val
  deriving FromJson

structure SCase where
  spec : ColSpec
  ix : Option ColSpec
  sname : Option String
  frame : Frame
  deriving FromJson

def kRegion (S : Schema) (D : Frame) : Bool :=
  S.columns.any (fun spec => (targets spec D).any (fun n =>
    match D.col? n, spec.dtype with
    | some c, some t => K_C01_strVacuous t c.dtype c.vals
    | _, _ => false))
  || (match S.index with
      | some ix => D.index.any (fun l => match ix.dtype with
          | some t => K_C01_strVacuous t l.dtype l.vals
          | none => false)
      | none => false)

/-- out of the model's scope: an ordering / string check applied to a column of another kind whose
values are all null (or that is empty).  pandas raises for the column as a whole (typed array vs.
scalar of another kind, `.str` on a non-string column); the element-wise model sees no element. -/
def numericD (d : DType) : Bool := d == .int64 || d == .float64

def checkRaisesOnColumn (b : Builtin) (phys : DType) : Bool :=
  let cmp := fun (v : Val) => match v.kind? with
    | some k => !(k == phys || (numericD k && numericD phys))
    | none => false
  match b with
  | .gt v | .ge v | .lt v | .le v => cmp v
  | .inRange lo hi _ _ => cmp lo || cmp hi
  | .strMatches _ | .strContains _ | .strStartswith _ | .strEndswith _ | .strLength _ _ => phys != .str
  | _ => false

def illTypedVacuous (S : Schema) (D : Frame) : Bool :=
  S.columns.any (fun spec => (targets spec D).any (fun n =>
    match D.col? n with
    | some c => c.vals.all Val.isNull && c.dtype != .str && spec.checks.any (fun ck => checkRaisesOnColumn ck.b c.dtype)
    | none => false))
  || (match S.index with
      | some ix => D.index.any (fun l => l.vals.all Val.isNull && l.dtype != .str
          && ix.checks.any (fun ck => checkRaisesOnColumn ck.b l.dtype))
      | none => false)

structure GCase where
  groups : List (List String)
  keep : Keep
  frame : Frame
  deriving FromJson

def answer (j : Json) : Except String Json := do
  match j.getObjVal? "mode" with
  | .ok (.str "builtin") =>
    let c : BCase ← fromJson? j
    return Json.mkObj [
      ("doc", toJson (c.vals.map (docPred c.b))),
      ("gen", toJson (c.vals.map (evalVia Generated.pandasBuiltins c.b)))]
  | .ok (.str "series") =>
    let c : SCase ← fromJson? j
    let errs := seriesErrors Generated.generatedScopes .schemaAndData c.spec c.ix c.sname c.frame
    let (ok, inK) := match c.frame.cols, c.frame.index with
      | [col], [l] =>
        (decide (Spec.fieldOk c.spec c.sname col.dtype col.vals
                 ∧ ∀ i, c.ix = some i → Spec.fieldOk i l.name l.dtype l.vals),
         (match c.spec.dtype with | some t => K_C01_strVacuous t col.dtype col.vals | none => false)
         || (match c.ix with
             | some i => (match i.dtype with | some t => K_C01_strVacuous t l.dtype l.vals | none => false)
             | none => false))
      | _, _ => (false, false)
    return Json.mkObj [
      ("wf", toJson (c.frame.WF && c.frame.cols.length == 1 && c.frame.index.length == 1)),
      ("errors", toJson errs), ("accepts", toJson errs.isEmpty), ("sat", toJson ok), ("inK", toJson inK)]
  | .ok (.str "uniqueGroups") =>
    let c : GCase ← fromJson? j
    return Json.mkObj [
      ("wf", toJson c.frame.WF),
      ("dups", toJson (dupGroups c.keep c.groups c.frame))]
  | .ok (.str "aggregate") =>
    let c : ACase ← fromJson? j
    return Json.mkObj [("uniqueValuesEq", toJson (uniqueValuesEq c.vs true c.vals))]
  | _ =>
    let c : Case ← fromJson? j
    let errs := frameErrors Generated.generatedScopes c.depth c.schema c.frame
    return Json.mkObj [
      ("wf", toJson c.frame.WF),
      ("errors", toJson errs),
      ("accepts", toJson errs.isEmpty),
      ("sat", toJson (decide (Spec.Sat c.schema c.frame))),
      ("inK", toJson (kRegion c.schema c.frame)),
      ("outOfScope", toJson (illTypedVacuous c.schema c.frame))]

def main : IO Unit := do
  lineLoop (← IO.getStdin) (← IO.getStdout) answer

import Driver.Codec
import PanderaModel.Parse
import PanderaModel.Generated.ScopeMap
open Lean Pandera

structure Case where
  schema : Schema
  frame : Frame
  deriving FromJson

/-- Bool version of `C11.fieldRowBad` -/
def fieldRowBadB (spec : ColSpec) (vals : List Val) (i : Nat) : Bool :=
  let v := vals.getD i .null
  (!spec.nullable && v.isNull)
  || (spec.unique && (dupMask spec.reportDup vals).getD i false)
  || spec.checks.any (fun ck => !(ck.ignoreNa && v.isNull) && docPred ck.b v == some false)

def rowBad (S : Schema) (P : Frame) (i : Nat) : Bool :=
  S.columns.any (fun spec => (targets spec P).any (fun n => match P.col? n with
    | some c => fieldRowBadB spec c.vals i
    | none => false))
  || (match S.index, P.index with
      | some ix, [l] => fieldRowBadB ix l.vals i
      | _, _ => false)
  || (if S.unique.isEmpty then false else
        let cols := (S.unique.filter P.hasCol).filterMap P.col?
        (dupRowMask S.reportDup (rowsOf P.nrows (cols.map (·.vals)))).getD i false)

def answer (j : Json) : Except String Json := do
  let c : Case ← fromJson? j
  let T := Generated.generatedScopes
  let r := validateLazy T .schemaAndData c.schema c.frame
  let parsed := parseFrame c.schema c.frame
  let (pj, keep, nonRow) := match parsed with
    | .ok P pe =>
      let es := pe ++ frameErrors T .schemaAndData c.schema P
      (toJson P, (List.range P.nrows).filter (fun i => !rowBad c.schema P i),
       es.any (fun e => e.cells.isEmpty))
    | .crash => (Json.null, [], true)
  return Json.mkObj [
    ("wf", toJson c.frame.WF),
    ("out", match r with
      | .ok D => Json.mkObj [("kind", "ok"), ("frame", toJson D)]
      | .errors es => Json.mkObj [("kind", "errors"), ("errors", toJson es)]
      | .crash => Json.mkObj [("kind", "crash")]),
    ("parsed", pj),
    ("specKeep", toJson keep),
    ("nonRowErrors", toJson nonRow),
    ("parseCrash", toJson (match parsed with | .crash => true | _ => false))]

def main : IO Unit := do
  lineLoop (← IO.getStdin) (← IO.getStdout) answer

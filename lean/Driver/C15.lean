import Driver.Codec
import PanderaModel.TransformVocab
open Lean Pandera Pandera.Transform

def pairs (j : Json) : Except String (List (String × String)) := do
  let a ← j.getArr?
  a.toList.mapM fun e => do
    let k ← (← e.getArrVal? 0).getStr?
    let v ← (← e.getArrVal? 1).getStr?
    pure (k, v)

def dictAttrs (j : Json) : Except String (List (String × Attrs)) := do
  let a ← j.getArr?
  a.toList.mapM fun e => do
    let k ← (← e.getArrVal? 0).getStr?
    let v ← pairs (← e.getArrVal? 1)
    pure (k, v)

def strs (j : Json) : Except String (List String) := do
  let a ← j.getArr?
  a.toList.mapM (·.getStr?)

def schemaOf (j : Json) : Except String TSchema := do
  let cols ← dictAttrs (← j.getObjVal? "columns")
  let ix ← (← (← j.getObjVal? "index").getArr?).toList.mapM pairs
  let mi ← pairs (← j.getObjVal? "miOpts")
  let top ← pairs (← j.getObjVal? "top")
  pure { columns := cols, index := ix, miOpts := mi, top := top }

def opOf (j : Json) : Except String Op := do
  let k ← (← j.getObjVal? "op").getStr?
  match k with
  | "add" => return .add (← dictAttrs (← j.getObjVal? "extra"))
  | "remove" => return .remove (← strs (← j.getObjVal? "names"))
  | "update" => return .update (← (← j.getObjVal? "name").getStr?) (← pairs (← j.getObjVal? "kw"))
  | "updateMany" => return .updateMany (← dictAttrs (← j.getObjVal? "upd"))
  | "rename" => return .rename (← pairs (← j.getObjVal? "m"))
  | "select" => return .select (← strs (← j.getObjVal? "names"))
  | "setIndex" => return .setIndex (← strs (← j.getObjVal? "keys")) (← (← j.getObjVal? "drop").getBool?)
                    (← (← j.getObjVal? "append").getBool?)
  | "resetIndex" =>
    let l ← j.getObjVal? "level"
    let lv ← if l.isNull then pure none else some <$> strs l
    return .resetIndex lv (← (← j.getObjVal? "drop").getBool?)
  | _ => throw s!"unknown op {k}"

def jPairs (a : Attrs) : Json := Json.arr (a.map fun p => Json.arr #[Json.str p.1, Json.str p.2]).toArray

def jSchema (S : TSchema) : Json := Json.mkObj [
  ("columns", Json.arr (S.columns.map fun p => Json.arr #[Json.str p.1, jPairs p.2]).toArray),
  ("index", Json.arr (S.index.map jPairs).toArray),
  ("miOpts", jPairs S.miOpts), ("top", jPairs S.top)]

def errName : TErr → String
  | .schemaInit => "SchemaInitError" | .value => "ValueError" | .type => "TypeError" | .key => "KeyError"

/-- run the operations one by one; report the schema after the last successful one and the error
of the first invalid request -/
def runOps (V : Vocab) : TSchema → Nat → List Op → TSchema × Option (Nat × TErr)
  | S, _, [] => (S, none)
  | S, i, op :: ops => match apply V S op with
    | .ok S' => runOps V S' (i + 1) ops
    | .error e => (S, some (i, e))

def answer (j : Json) : Except String Json := do
  let vn ← (← j.getObjVal? "vocab").getStr?
  let V := if vn == "polars" then polarsVocab else pandasVocab
  let S ← schemaOf (← j.getObjVal? "schema")
  let ops ← (← (← j.getObjVal? "ops").getArr?).toList.mapM opOf
  let (S', err) := runOps V S 0 ops
  return Json.mkObj [("schema", jSchema S'),
    ("error", match err with
      | none => Json.null
      | some (i, e) => Json.mkObj [("at", toJson i), ("kind", Json.str (errName e))])]

def main : IO Unit := do
  lineLoop (← IO.getStdin) (← IO.getStdout) answer

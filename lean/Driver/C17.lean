import Driver.Codec
import PanderaModel.Decorators
open Lean Pandera Pandera.Deco

def paramOf (j : Json) : Except String Param := do
  let k ← (← j.getObjVal? "kind").getStr?
  let kind ← match k with
    | "pos" => pure PKind.pos | "varArgs" => pure .varArgs | "kwOnly" => pure .kwOnly | "varKw" => pure .varKw
    | _ => throw s!"kind {k}"
  return { name := ← (← j.getObjVal? "name").getStr?, kind := kind, hasDefault := ← (← j.getObjVal? "hasDefault").getBool? }

def kvs (j : Json) : Except String (List (String × Nat)) := do
  (← j.getArr?).toList.mapM fun e => do
    pure (← (← e.getArrVal? 0).getStr?, ← (← e.getArrVal? 1).getNat?)

def nats (j : Json) : Except String (List Nat) := do (← j.getArr?).toList.mapM (·.getNat?)

def jKvs (l : List (String × Nat)) : Json := Json.arr (l.map fun p => Json.arr #[.str p.1, toJson p.2]).toArray

def jBound : Option Bound → Json
  | none => Json.null
  | some b => Json.mkObj [("named", jKvs b.named), ("star", toJson b.star), ("starKw", jKvs b.starKw)]

def answer (j : Json) : Except String Json := do
  let mode ← (← j.getObjVal? "mode").getStr?
  let acc ← kvs (← j.getObjVal? "accept")          -- object id ↦ parsed id + 1 (0 = rejected)
  let v : Nat → Option Nat := fun o => match acc.find? (fun p => p.1 == toString o) with
    | some p => if p.2 == 0 then none else some (p.2 - 1)
    | none => some o
  if mode == "input" then
    let sig ← (← (← j.getObjVal? "sig").getArr?).toList.mapM paramOf
    let gj ← j.getObjVal? "getter"
    let g : Getter := match gj with
      | .null => .none
      | .str s => .name s
      | .num n => .idx n.mantissa.toNat
      | _ => .none
    let c : Call := { args := ← nats (← j.getObjVal? "args"), kwargs := ← kvs (← j.getObjVal? "kwargs") }
    let fwd : Fwd := { intBranch := true, strKw := true, strPos := true, noneKw := true, nonePos := true }
    let r := checkInput fwd sig g (fun _ o => v o) c
    return Json.mkObj [
      ("undecorated", jBound (bind sig c)),
      ("designated", match designated sig g with | some p => .str p | none => .null),
      ("outcome", match r with
        | .call c' => Json.mkObj [("call", jBound (bind sig c')), ("args", toJson c'.args), ("kwargs", jKvs c'.kwargs)]
        | .schemaError => "schemaError" | .indexError => "indexError" | .keyError => "keyError"
        | .valueError => "valueError")]
  else
    let gj ← j.getObjVal? "getter"
    let g : OGetter := match gj with
      | .null => .none
      | .str s => .key s
      | .num n => .idx n.mantissa.toNat
      | _ => .none
    let oj ← j.getObjVal? "out"
    let out : Out ← match oj with
      | .num n => pure (Out.single n.mantissa.toNat)
      | .arr xs => match xs.toList with
        | (.arr _) :: _ => Out.dict <$> kvs oj
        | _ => Out.seq <$> nats oj
      | _ => throw "out"
    let r := checkOutput true g v out
    return Json.mkObj [("outcome", match r with
      | .ret (.single o) => Json.mkObj [("ret", toJson o)]
      | .ret (.seq xs) => Json.mkObj [("ret", toJson xs)]
      | .ret (.dict kv) => Json.mkObj [("ret", jKvs kv)]
      | .schemaError => "schemaError" | .lookupError => "lookupError")]

def main : IO Unit := do
  lineLoop (← IO.getStdin) (← IO.getStdout) answer

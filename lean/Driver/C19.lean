import Driver.Codec
import PanderaModel.CheckBackend
open Lean Pandera

/-- the generated family of check functions both sides evaluate -/
inductive PredSpec
  | gt (k : Int)               -- x > k   (quarter units for floats)
  | even                       -- x % 2 == 0
  | isin (ks : List Int)
  | const (b : Bool)
  | nullTrue (p : PredSpec)    -- isna(x) or p(x)
  | raiseOn (k : Int) (p : PredSpec)   -- raise if x == k
  deriving FromJson, ToJson, Repr

def quarter (v : Val) : Option Int := v.numKey

def PredSpec.eval : PredSpec → Val → Option Bool
  | .gt k, v => match quarter v with | some q => some (decide (q > 4 * k)) | none => some false
  | .even, v => match quarter v with
    | some q => some (q % 8 == 0)
    | none => some false
  | .isin ks, v => match quarter v with | some q => some (ks.any (fun k => 4 * k == q)) | none => some false
  | .const b, _ => some b
  | .nullTrue p, v => if v.isNull then some true else p.eval v
  | .raiseOn k p, v => match quarter v with
    | some q => if q == 4 * k then none else p.eval v
    | none => p.eval v

structure CCase where
  pred : PredSpec
  shape : String            -- elem | vec | agg
  ignoreNa : Bool
  nFailure : Option Nat
  raiseWarning : Bool
  vals : List Val
  deriving FromJson

structure GCase where
  keys : List Val
  vals : List Val
  groups : Option (List Val)
  deriving FromJson

def fnOf (p : PredSpec) : String → CheckFn
  | "elem" => .elem p.eval
  | "vec" => .vec (mapM? p.eval)
  | _ => .agg (fun xs => (mapM? p.eval xs).map (fun bs => bs.all id))

def outJson : BackendOut → Json
  | .raised => Json.mkObj [("kind", "raised")]
  | .passed => Json.mkObj [("kind", "passed")]
  | .failedScalar => Json.mkObj [("kind", "failedScalar")]
  | .failed cs => Json.mkObj [("kind", "failed"), ("cases", toJson (cs.map (fun c => (c.1, toJson c.2))))]

def outcomeJson : Outcome → Json
  | .pass => "pass" | .warn => "warn" | .fail _ => "fail" | .error => "error"

def answer (j : Json) : Except String Json := do
  match j.getObjVal? "mode" with
  | .ok (.str "groups") =>
    let c : GCase ← fromJson? j
    return toJson ((groupsDict c.keys c.vals c.groups).map (fun p => (toJson p.1, toJson p.2)))
  | _ =>
    let c : CCase ← fromJson? j
    let o : CheckOpts := ⟨c.ignoreNa, c.nFailure, c.raiseWarning⟩
    let fn := fnOf c.pred c.shape
    return Json.mkObj [
      ("backend", outJson (backendCall fn o c.vals)),
      ("outcome", outcomeJson (runCheckOutcome fn o c.vals)),
      ("shown", toJson (shownVals c.ignoreNa c.vals))]

def main : IO Unit := do
  lineLoop (← IO.getStdin) (← IO.getStdout) answer

import Driver.Codec
import PanderaModel.Config
import PanderaModel.DepthParts
import PanderaModel.Generated.ScopeMap
import PanderaModel.Generated.EnvConfig
open Lean Pandera

deriving instance FromJson, ToJson for Cfg
deriving instance FromJson, ToJson for CtxOpts
deriving instance FromJson, ToJson for Prog
deriving instance FromJson, ToJson for RunOut

structure ProgCase where
  prog : Prog
  cfg : Cfg
  deriving FromJson

structure DepthCase where
  schema : Schema
  frame : Frame
  deriving FromJson

structure PolarsCase where
  isLazy : Bool
  ctx : Cfg
  glob : Cfg
  deriving FromJson

def inKdo (S : Schema) (D : Frame) : Bool :=
  !(strictOrderedErrors S D).isEmpty ||
    S.columns.any (fun c => c.regex.isSome && c.required && (targets c D).isEmpty)

def answer (j : Json) : Except String Json := do
  match j.getObjVal? "mode" with
  | .ok (.str "prog") =>
    let c : ProgCase ← fromJson? j
    return toJson (c.prog.run c.cfg)
  | .ok (.str "env") =>
    let envJ ← j.getObjVal? "env"
    let env : Env := fun v => match envJ.getObjVal? v with
      | .ok (.str s) => some s
      | _ => none
    let dvar := Generated.envDepthVar.getD ""
    return Json.mkObj [
      ("enabled", toJson (Generated.envEnabled.eval env)),
      ("cache", toJson (Generated.envCache.eval env)),
      ("keep", toJson (Generated.envKeep.eval env)),
      ("depth", toJson ((env dvar).bind depthOfString)),
      ("depthVar", toJson dvar)]
  | .ok (.str "polars") =>
    let c : PolarsCase ← fromJson? j
    return toJson (polarsDepth c.isLazy c.ctx c.glob)
  | _ =>
    let c : DepthCase ← fromJson? j
    let T := Generated.generatedScopes
    return Json.mkObj [
      ("wf", toJson c.frame.WF),
      ("sad", toJson (accepts T .schemaAndData c.schema c.frame)),
      ("so", toJson (accepts T .schemaOnly c.schema c.frame)),
      ("do", toJson (accepts T .dataOnly c.schema c.frame)),
      ("schemaPart", toJson (C18.Schema.schemaPart c.schema)),
      ("dataPart", toJson (C18.Schema.dataPart c.schema)),
      ("inKdo", toJson (inKdo c.schema c.frame))]

def main : IO Unit := do
  lineLoop (← IO.getStdin) (← IO.getStdout) answer

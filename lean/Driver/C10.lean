import Driver.Codec
import PanderaModel.Coerce
open Lean Pandera

structure CCase where
  dtype : DType
  vals : List Val
  deriving FromJson

def answer (j : Json) : Except String Json := do
  let c : CCase ← fromJson? j
  match tryCoerce c.dtype c.vals with
  | .ok ws => return Json.mkObj [("ok", toJson ws)]
  | .error bad => return Json.mkObj [("error", Json.arr (bad.map fun p => Json.arr #[toJson p.1, toJson p.2]).toArray)]

def main : IO Unit := do
  lineLoop (← IO.getStdin) (← IO.getStdout) answer

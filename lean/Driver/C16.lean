import Driver.Codec
import PanderaModel.ModelCompile
open Lean Pandera Pandera.ModelC Pandera.Transform

def pairsJ (j : Json) : Except String Attrs := do
  (← j.getArr?).toList.mapM fun e => do
    pure (← (← e.getArrVal? 0).getStr?, ← (← e.getArrVal? 1).getStr?)

def targetOf (j : Json) : Except String Target :=
  match j with
  | .str s => pure (.name s)
  | _ => do
    let p : Pat ← fromJson? (← j.getObjVal? "pat")
    pure (.pat p)

def methodOf (j : Json) : Except String MethodDecl := do
  return { mname := ← (← j.getObjVal? "mname").getStr?,
           targets := ← (← (← j.getObjVal? "targets").getArr?).toList.mapM targetOf,
           regex := ← (← j.getObjVal? "regex").getBool?,
           payload := ← (← j.getObjVal? "payload").getStr? }

def methodsOf (j : Json) (k : String) : Except String (List MethodDecl) := do
  (← (← j.getObjVal? k).getArr?).toList.mapM methodOf

def fieldOf (j : Json) : Except String (String × FieldDecl) := do
  let n ← (← j.getObjVal? "attr").getStr?
  let a ← j.getObjVal? "ann"
  let ann ← if a.isNull then pure none else do
    pure (some (← (← a.getArrVal? 0).getStr?, ← (← a.getArrVal? 1).getBool?))
  let f ← j.getObjVal? "field"
  let field ← if f.isNull then pure none else some <$> pairsJ f
  return (n, { ann := ann, field := field })

def classOf (j : Json) : Except String ClassSpec := do
  return { cname := ← (← j.getObjVal? "cname").getStr?,
           fields := ← (← (← j.getObjVal? "fields").getArr?).toList.mapM fieldOf,
           checks := ← methodsOf j "checks", dfChecks := ← methodsOf j "dfChecks",
           parsers := ← methodsOf j "parsers", dfParsers := ← methodsOf j "dfParsers",
           config := ← pairsJ (← j.getObjVal? "config") }

def jPairs (a : Attrs) : Json := Json.arr (a.map fun p => Json.arr #[Json.str p.1, Json.str p.2]).toArray

def jCol (c : ColumnOut) : Json := Json.mkObj [("name", c.name), ("dtype", c.dtype), ("required", c.required),
  ("opts", jPairs c.opts), ("checks", toJson c.checks), ("parsers", toJson c.parsers)]

def answer (j : Json) : Except String Json := do
  let h ← (← (← j.getObjVal? "chain").getArr?).toList.mapM classOf
  -- every class is compiled from its own lineage (the classes it inherits from, most basic first, itself last);
  -- for a linear chain that is the prefix
  let lin : List (List Nat) ← match j.getObjVal? "lineages" with
    | .ok l => (← l.getArr?).toList.mapM fun x => do (← x.getArr?).toList.mapM fun y => y.getNat?
    | .error _ => pure ((List.range h.length).map fun i => List.range (i + 1))
  let outs := lin.map fun idxs =>
    match compile true true (idxs.filterMap fun k => h[k]?) with
    | .ok s => Json.mkObj [("columns", Json.arr (s.columns.map jCol).toArray), ("dfChecks", toJson s.dfChecks),
        ("dfParsers", toJson s.dfParsers), ("config", jPairs s.config)]
    | .error .missingAnnotation => Json.str "missingAnnotation"
    | .error .unknownField => Json.str "unknownField"
  return Json.mkObj [("schemas", Json.arr outs.toArray)]

def main : IO Unit := do
  lineLoop (← IO.getStdin) (← IO.getStdout) answer

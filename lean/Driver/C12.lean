import Driver.Codec
import PanderaModel.IO
open Lean Pandera Pandera.IO

def atomOf (j : Json) : Except String Atom :=
  match j with
  | .null => pure .null
  | .bool b => pure (.bool b)
  | .str s => pure (.str s)
  | .num n => if n.exponent == 0 then pure (.int n.mantissa) else throw "non-integer number"
  | _ => throw "not an atom"

def svOf (j : Json) : Except String SV :=
  match j with
  | .arr xs => SV.list <$> xs.toList.mapM atomOf
  | _ => SV.atom <$> atomOf j

def kvsOf (j : Json) : Except String (List (String × SV)) := do
  let a ← j.getArr?
  a.toList.mapM fun e => do
    let k ← (← e.getArrVal? 0).getStr?
    let v ← svOf (← e.getArrVal? 1)
    pure (k, v)

def checkOf (j : Json) : Except String CheckS := do
  return { name := ← (← j.getObjVal? "name").getStr?, stats := ← kvsOf (← j.getObjVal? "stats"),
           options := ← kvsOf (← j.getObjVal? "options") }

def jAtom : Atom → Json
  | .null => .null | .bool b => .bool b | .int i => toJson i | .str s => .str s
def jSV : SV → Json
  | .atom a => jAtom a | .list xs => Json.arr (xs.map jAtom).toArray
def jKvs (kvs : List (String × SV)) : Json := Json.mkObj (kvs.map fun p => (p.1, jSV p.2))
def jEntry : Entry → Json
  | .val v => jSV v | .sub kvs => jKvs kvs
def jDoc : CDoc → Json
  | .bare v => jSV v | .map kvs => Json.mkObj (kvs.map fun p => (p.1, jEntry p.2))
def jCheck (c : CheckS) : Json := Json.mkObj [("name", .str c.name), ("stats", Json.arr (c.stats.map fun p => Json.arr #[.str p.1, jSV p.2]).toArray),
  ("options", Json.arr (c.options.map fun p => Json.arr #[.str p.1, jSV p.2]).toArray)]

def pyOf (j : Json) : Except String PyVal :=
  match j with
  | .null => pure .none
  | .bool b => pure (.bool b)
  | .str s => pure (.str s)
  | .arr xs => PyVal.strList <$> xs.toList.mapM (·.getStr?)
  | _ => throw "not a slot value"

def answer (j : Json) : Except String Json := do
  let mode ← (← j.getObjVal? "mode").getStr?
  if mode == "checks" then
    let cs ← (← (← j.getObjVal? "checks").getArr?).toList.mapM checkOf
    let firsts ← kvsOf (← j.getObjVal? "first")
    let first : String → Option String := fun n => match firsts.lookup n with
      | some (.atom (.str s)) => some s
      | _ => none
    let ser := serChecks cs
    let back := deserChecks first ser
    return Json.mkObj [
      ("serialized", Json.arr (ser.map fun p => Json.arr #[.str p.1, jDoc p.2]).toArray),
      ("roundtrip", match back with
        | some cs' => Json.arr (cs'.map jCheck).toArray
        | none => Json.null),
      ("same", toJson (back == some cs))]
  else
    let m ← match modeOf (← (← j.getObjVal? "fill").getStr?) with
      | some m => pure m
      | none => throw "unknown fill mode"
    let v ← pyOf (← j.getObjVal? "value")
    return Json.mkObj [("seen", match seen m v with
      | .lit w => Json.mkObj [("lit", toJson (w == v))]
      | .name s => Json.mkObj [("name", .str s)]
      | .broken => Json.str "broken")]

def main : IO Unit := do
  lineLoop (← IO.getStdin) (← IO.getStdout) answer

import Driver.Codec
import PanderaModel.Polars
open Lean Pandera

structure Case where
  schema : Schema
  frame : Frame
  deriving FromJson

def answer (j : Json) : Except String Json := do
  let c : Case ← fromJson? j
  let errs := Polars.frameErrors c.schema c.frame
  return Json.mkObj [
    ("wf", toJson c.frame.WF),
    ("errors", toJson errs),
    ("accepts", toJson errs.isEmpty)]

def main : IO Unit := do
  lineLoop (← IO.getStdin) (← IO.getStdout) answer

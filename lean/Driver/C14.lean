import Driver.Codec
import PanderaModel.Infer
open Lean Pandera Pandera.Infer

structure ICase where
  dtype : DType
  vals : List Val
  deriving FromJson

def jCheck (c : CheckSpec) : Json :=
  match c.b with
  | .ge v => Json.mkObj [("kind", "ge"), ("bound", toJson v)]
  | .le v => Json.mkObj [("kind", "le"), ("bound", toJson v)]
  | _ => Json.mkObj [("kind", "other")]

def answer (j : Json) : Except String Json := do
  let c : ICase ← fromJson? j
  let f := inferField none c.dtype c.vals
  return Json.mkObj [("dtype", toJson c.dtype), ("nullable", toJson f.nullable),
    ("checks", Json.arr (f.checks.map jCheck).toArray)]

def main : IO Unit := do
  lineLoop (← IO.getStdin) (← IO.getStdout) answer

import Driver.Codec
import PanderaModel.Parse
import PanderaModel.Generated.ScopeMap
open Lean Pandera

structure Case where
  schema : Schema
  frame : Frame
  deriving FromJson

def answer (j : Json) : Except String Json := do
  let c : Case ← fromJson? j
  let r := validateLazy Generated.generatedScopes .schemaAndData c.schema c.frame
  let parsed := parseFrame c.schema c.frame
  return Json.mkObj [
    ("wf", toJson c.frame.WF),
    ("out", match r with
      | .ok D => Json.mkObj [("kind", "ok"), ("frame", toJson D)]
      | .errors es => Json.mkObj [("kind", "errors"), ("errors", toJson es)]
      | .crash => Json.mkObj [("kind", "crash")]),
    ("parsed", match parsed with
      | .ok P es => Json.mkObj [("frame", toJson P), ("errors", toJson es)]
      | .crash => Json.null)]

def main : IO Unit := do
  lineLoop (← IO.getStdin) (← IO.getStdout) answer

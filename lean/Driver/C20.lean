import Driver.Codec
import PanderaModel.Subsample
import PanderaModel.Generated.SubsampleRules
open Lean Pandera

structure SCase where
  n : Nat
  head : Option Nat
  tail : Option Nat
  samplePos : Option (List Nat)
  keys : List String          -- the de-duplication key of every row (label / row values, rendered)
  backend : Option String := none
  deriving FromJson

def answer (j : Json) : Except String Json := do
  let c : SCase ← fromJson? j
  let key : Nat → String := fun i => c.keys.getD i ""
  -- the selection is computed by the `subsample` program regenerated from the source
  let prog := if c.backend == some "polars" then Generated.SubsampleRules.polarsSubsample
              else Generated.SubsampleRules.pandasSubsample
  return Json.mkObj [
    ("requested", toJson (requestedPos c.n c.head c.tail c.samplePos)),
    ("kept", toJson (runSub prog key c.n c.head c.tail c.samplePos)),
    ("keysDistinct", toJson (decide c.keys.Nodup))]

def main : IO Unit := do
  lineLoop (← IO.getStdin) (← IO.getStdout) answer

import Driver.Codec
import PanderaModel.Subsample
open Lean Pandera

structure SCase where
  n : Nat
  head : Option Nat
  tail : Option Nat
  samplePos : Option (List Nat)
  keys : List String          -- the de-duplication key of every row (label / row values, rendered)
  deriving FromJson

def answer (j : Json) : Except String Json := do
  let c : SCase ← fromJson? j
  let key : Nat → String := fun i => c.keys.getD i ""
  return Json.mkObj [
    ("requested", toJson (requestedPos c.n c.head c.tail c.samplePos)),
    ("kept", toJson (keptPos key c.n c.head c.tail c.samplePos)),
    ("keysDistinct", toJson (decide c.keys.Nodup))]

def main : IO Unit := do
  lineLoop (← IO.getStdin) (← IO.getStdout) answer

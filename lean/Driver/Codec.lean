import Lean.Data.Json
import PanderaModel.Pandas
import PanderaModel.Spec
import PanderaModel.KnownRegions
open Lean Pandera

instance : FromJson Char where
  fromJson? j := do
    let s : String ← fromJson? j
    match s.toList with
    | [c] => pure c
    | _ => throw "expected a one-character string"
instance : ToJson Char where
  toJson c := Json.str (String.singleton c)

deriving instance FromJson, ToJson for Val
deriving instance FromJson, ToJson for DType
deriving instance FromJson, ToJson for Pat
deriving instance FromJson, ToJson for Builtin
deriving instance FromJson, ToJson for CheckSpec
deriving instance FromJson, ToJson for Keep
deriving instance FromJson, ToJson for ColSpec
deriving instance FromJson, ToJson for Strict
deriving instance FromJson, ToJson for Schema
deriving instance FromJson, ToJson for Column
deriving instance FromJson, ToJson for Level
deriving instance FromJson, ToJson for Frame
deriving instance FromJson, ToJson for Depth
deriving instance FromJson, ToJson for Scope
deriving instance FromJson, ToJson for ScopeTable
deriving instance FromJson, ToJson for Reason
deriving instance FromJson, ToJson for Ctx
deriving instance FromJson, ToJson for Cell
deriving instance FromJson, ToJson for Err

/-- read stdin line by line, answer one JSON line per input line -/
partial def lineLoop (h : IO.FS.Stream) (out : IO.FS.Stream) (f : Json → Except String Json) : IO Unit := do
  let line ← h.getLine
  if line.isEmpty then return ()
  let t := line.trimAscii.toString
  if t.isEmpty then lineLoop h out f else
  let r := match Json.parse t with
    | .error e => Json.mkObj [("error", Json.str s!"parse: {e}")]
    | .ok j => match f j with
      | .error e => Json.mkObj [("error", Json.str e)]
      | .ok r => r
  out.putStrLn r.compress
  lineLoop h out f

/-!
# Abstract data universe

Values, dtypes, columns and frames shared by every model file.  Floats are
quarter units (`flt q` means `q / 4`) so that Python's `float` values used by the
harness convert exactly; `null` stands for NaN / None / NaT / polars null.
Rows are identified by position.
-/
namespace Pandera

inductive Val
  | null
  | int (i : Int)
  | flt (q : Int)
  | str (s : String)
  | bool (b : Bool)
  | ts (n : Int)
  deriving Repr, DecidableEq, Inhabited

inductive DType
  | int64 | float64 | str | bool | datetime
  deriving Repr, DecidableEq, Inhabited

namespace Val

def isNull : Val → Bool
  | .null => true
  | _ => false

/-- numeric key (quarter units) for ints and floats -/
def numKey : Val → Option Int
  | .int i => some (4 * i)
  | .flt q => some q
  | _ => none

/-- `a == b` as pandas evaluates it element-wise; a null never equals anything. -/
def eqv (a b : Val) : Bool :=
  match a, b with
  | .null, _ => false
  | _, .null => false
  | .str x, .str y => x == y
  | .bool x, .bool y => x == y
  | .ts x, .ts y => x == y
  | a, b =>
    match a.numKey, b.numKey with
    | some x, some y => x == y
    | _, _ => false

/-- `a < b`; `none` when the two kinds are not comparable, `some false` when
either side is null (NaN comparisons are false). -/
def lt? (a b : Val) : Option Bool :=
  match a, b with
  | .null, _ => some false
  | _, .null => some false
  | .str x, .str y => some (decide (x < y))
  | .bool x, .bool y => some (!x && y)
  | .ts x, .ts y => some (decide (x < y))
  | a, b =>
    match a.numKey, b.numKey with
    | some x, some y => some (decide (x < y))
    | _, _ => none

def le? (a b : Val) : Option Bool :=
  match a, b with
  | .null, _ => some false
  | _, .null => some false
  | .str x, .str y => some (decide (x ≤ y))
  | .bool x, .bool y => some (!x || y)
  | .ts x, .ts y => some (decide (x ≤ y))
  | a, b =>
    match a.numKey, b.numKey with
    | some x, some y => some (decide (x ≤ y))
    | _, _ => none

/-- identity used by duplicate detection: nulls are equal to each other. -/
def same (a b : Val) : Bool :=
  match a, b with
  | .null, .null => true
  | a, b => eqv a b

/-- the dtype a non-null value belongs to -/
def kind? : Val → Option DType
  | .null => none
  | .int _ => some .int64
  | .flt _ => some .float64
  | .str _ => some .str
  | .bool _ => some .bool
  | .ts _ => some .datetime

end Val

structure Column where
  name : String
  dtype : DType
  vals : List Val
  deriving Repr, DecidableEq, Inhabited

/-- a value may sit in a physical column of dtype `d` -/
def valFits (d : DType) (v : Val) : Bool :=
  match v with
  | .null => d != .int64 && d != .bool
  | v => v.kind? == some d

/-- index level: optional name, physical dtype, labels -/
structure Level where
  name : Option String
  dtype : DType
  vals : List Val
  deriving Repr, DecidableEq, Inhabited

structure Frame where
  cols : List Column
  index : List Level      -- one level = plain Index, several = MultiIndex
  nrows : Nat
  deriving Repr, DecidableEq, Inhabited

namespace Frame

def names (D : Frame) : List String := D.cols.map (·.name)

def col? (D : Frame) (n : String) : Option Column := D.cols.find? (·.name == n)

def hasCol (D : Frame) (n : String) : Bool := D.names.contains n

/-- well-formed: distinct labels, equal lengths, values fit their physical dtype -/
def WF (D : Frame) : Bool :=
  D.names.Nodup
  && D.cols.all (fun c => c.vals.length == D.nrows && c.vals.all (valFits c.dtype))
  && D.index.all (fun l => l.vals.length == D.nrows && l.vals.all (valFits l.dtype))
  && !D.index.isEmpty

end Frame

/-- positions `i < j` with `same xs[i] xs[j]` — the pandas `duplicated(keep=…)` masks -/
inductive Keep | first | last | none
  deriving Repr, DecidableEq, Inhabited

/-- `xs.duplicated(keep)` as a mask over positions, for any identity relation -/
def dupMaskAuxG {α : Type} (same : α → α → Bool) (keep : Keep) : List α → List α → List Bool
  | _, [] => []
  | before, x :: after =>
    let seenBefore := before.any (same x)
    let seenAfter := after.any (same x)
    let d := match keep with
      | .first => seenBefore
      | .last => seenAfter
      | .none => seenBefore || seenAfter
    d :: dupMaskAuxG same keep (before ++ [x]) after

def dupMask (keep : Keep) (xs : List Val) : List Bool := dupMaskAuxG Val.same keep [] xs

/-- row-wise identity for joint uniqueness -/
def sameRow (a b : List Val) : Bool :=
  a.length == b.length && (a.zip b).all (fun p => Val.same p.1 p.2)

def dupRowMask (keep : Keep) (rows : List (List Val)) : List Bool := dupMaskAuxG sameRow keep [] rows

/-- transpose a list of equally long columns into rows -/
def rowsOf (n : Nat) (cols : List (List Val)) : List (List Val) :=
  (List.range n).map (fun i => cols.map (fun c => c.getD i .null))

/-- positions where the mask is true -/
def truePositions (m : List Bool) : List Nat :=
  (m.zipIdx).filterMap (fun p => if p.1 then some p.2 else none)

end Pandera

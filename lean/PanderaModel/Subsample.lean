/-!
# head / tail / sample

Rows are positions `0 … n-1`.  `sample`'s draw is a parameter (`samplePos`): an arbitrary
list of positions supplied by pandas/polars for the given `random_state`.
-/
namespace Pandera

def headPos (n h : Nat) : List Nat := List.range (min h n)

def tailPos (n t : Nat) : List Nat := (List.range n).drop (n - t)

/-- the concatenation `head ++ tail ++ sample` the code builds, as positions -/
def concatPos (n : Nat) (h t : Option Nat) (samplePos : Option (List Nat)) : List Nat :=
  (match h with | some h => headPos n h | none => [])
  ++ (match t with | some t => tailPos n t | none => [])
  ++ (match samplePos with | some ps => ps | none => [])

def anyOption (h t : Option Nat) (s : Option (List Nat)) : Bool := h.isSome || t.isSome || s.isSome

/-- the rows the property asks for: each selected position once, in first-occurrence order;
with no option, all rows -/
def requestedPos (n : Nat) (h t : Option Nat) (s : Option (List Nat)) : List Nat :=
  if anyOption h t s then (concatPos n h t s).eraseDups else List.range n

/-- what the code keeps: the concatenation de-duplicated **by key** — the index label in
pandas (`x[~x.index.duplicated()]`), the row's values in polars (`.unique()`) -/
def keptPos {κ : Type} [BEq κ] (key : Nat → κ) (n : Nat) (h t : Option Nat) (s : Option (List Nat)) : List Nat :=
  if anyOption h t s then (concatPos n h t s).eraseDupsBy (fun a b => key a == key b) else List.range n

end Pandera

namespace Pandera

/-! ## The `subsample` method as a program (regenerated from the source)

`PandasSchemaBackend.subsample` / `PolarsSchemaBackend.subsample` append one piece per option that is
not `None`, in source order, return the object itself when nothing was appended, and otherwise the
concatenation, de-duplicated by key.  `Generated/SubsampleRules.lean` holds the two programs and, per
backend entry point, which core check receives the subsample and which the whole object. -/

inductive Piece | head | tail | sample
  deriving Repr, DecidableEq, Inhabited

structure SubProg where
  pieces : List Piece
  dedup : Bool                  -- the concatenation is de-duplicated by key
  wholeWhenNoOption : Bool      -- `check_obj if not pieces else …`
  deriving Repr, DecidableEq, Inhabited

def pieceRequested (h t : Option Nat) (s : Option (List Nat)) : Piece → Bool
  | .head => h.isSome
  | .tail => t.isSome
  | .sample => s.isSome

def piecePos (n : Nat) (h t : Option Nat) (s : Option (List Nat)) : Piece → List Nat
  | .head => (match h with | some h => headPos n h | none => [])
  | .tail => (match t with | some t => tailPos n t | none => [])
  | .sample => (match s with | some ps => ps | none => [])

/-- the positions the program hands to the data-level checks -/
def runSub {κ : Type} [BEq κ] (p : SubProg) (key : Nat → κ) (n : Nat) (h t : Option Nat)
    (s : Option (List Nat)) : List Nat :=
  let parts := p.pieces.filter (pieceRequested h t s)
  if parts.isEmpty then (if p.wholeWhenNoOption then List.range n else [])
  else
    let cat := (parts.map (piecePos n h t s)).flatten
    if p.dedup then cat.eraseDupsBy (fun a b => key a == key b) else cat

/-- the program reads every option and falls back to the whole object -/
def SubProg.covers (p : SubProg) : Bool :=
  p.pieces.contains .head && p.pieces.contains .tail && p.pieces.contains .sample && p.wholeWhenNoOption

/-- the core checks of the four entry points -/
inductive CoreCheck
  | namesUnique | presence | jointUnique | components | frameChecks     -- containers
  | fieldName | nullable | unique | dtype | checks                      -- fields
  | unknown
  deriving Repr, DecidableEq, Inhabited

/-- what a core check receives -/
inductive Arg | whole | sample | other
  deriving Repr, DecidableEq, Inhabited

def argOf (table : List (CoreCheck × Arg)) (name : CoreCheck) : Arg :=
  match table.find? (fun p => p.1 == name) with
  | some p => p.2
  | none => .other

/-- every listed core check is in the table and receives the subsample -/
def seeSample (table : List (CoreCheck × Arg)) (names : List CoreCheck) : Bool :=
  names.all (fun n => argOf table n == .sample)

/-- every entry of the table is a known core check receiving one of the two objects -/
def wellFormedTable (table : List (CoreCheck × Arg)) : Bool :=
  table.all (fun p => p.1 != .unknown && p.2 != .other)

end Pandera

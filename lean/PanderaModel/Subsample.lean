/-!
# head / tail / sample

Rows are positions `0 … n-1`.  `sample`'s draw is a parameter (`samplePos`): an arbitrary
list of positions supplied by pandas/polars for the given `random_state`.
-/
namespace Pandera

def headPos (n h : Nat) : List Nat := List.range (min h n)

def tailPos (n t : Nat) : List Nat := (List.range n).drop (n - t)

/-- the concatenation `head ++ tail ++ sample` the code builds, as positions -/
def concatPos (n : Nat) (h t : Option Nat) (samplePos : Option (List Nat)) : List Nat :=
  (match h with | some h => headPos n h | none => [])
  ++ (match t with | some t => tailPos n t | none => [])
  ++ (match samplePos with | some ps => ps | none => [])

def anyOption (h t : Option Nat) (s : Option (List Nat)) : Bool := h.isSome || t.isSome || s.isSome

/-- the rows the property asks for: each selected position once, in first-occurrence order;
with no option, all rows -/
def requestedPos (n : Nat) (h t : Option Nat) (s : Option (List Nat)) : List Nat :=
  if anyOption h t s then (concatPos n h t s).eraseDups else List.range n

/-- what the code keeps: the concatenation de-duplicated **by key** — the index label in
pandas (`x[~x.index.duplicated()]`), the row's values in polars (`.unique()`) -/
def keptPos {κ : Type} [BEq κ] (key : Nat → κ) (n : Nat) (h t : Option Nat) (s : Option (List Nat)) : List Nat :=
  if anyOption h t s then (concatPos n h t s).eraseDupsBy (fun a b => key a == key b) else List.range n

end Pandera

import PanderaModel.Pandas
namespace Pandera

@[simp] theorem optRuns_sad' (s : Option Scope) : optRuns s .schemaAndData = true := by
  cases s with
  | none => rfl
  | some s => cases s <;> rfl

/-- a depth-indexed error list decomposes: empty at full depth iff empty at both restricted depths -/
def Decomp (f : Depth → List Err) : Prop :=
  f .schemaAndData = [] ↔ (f .schemaOnly = [] ∧ f .dataOnly = [])

theorem decomp_const (l : List Err) : Decomp (fun _ => l) := by
  unfold Decomp; simp

theorem decomp_gated (s : Option Scope) (c : Bool) (l : List Err) :
    Decomp (fun d => if optRuns s d && c then l else []) := by
  unfold Decomp
  cases s with
  | none => simp [optRuns]
  | some s => cases s <;> cases c <;> simp [optRuns, Scope.runs]

theorem decomp_gated' (s : Option Scope) (l : List Err) :
    Decomp (fun d => if optRuns s d then l else []) := by
  have := decomp_gated s true l
  simpa using this

theorem decomp_append {f g : Depth → List Err} (hf : Decomp f) (hg : Decomp g) :
    Decomp (fun d => f d ++ g d) := by
  unfold Decomp at *
  simp only [List.append_eq_nil_iff]
  constructor
  · rintro ⟨h1, h2⟩; exact ⟨⟨(hf.mp h1).1, (hg.mp h2).1⟩, (hf.mp h1).2, (hg.mp h2).2⟩
  · rintro ⟨⟨h1, h2⟩, h3, h4⟩; exact ⟨hf.mpr ⟨h1, h3⟩, hg.mpr ⟨h2, h4⟩⟩

theorem decomp_flatten_map {α : Type} (xs : List α) (f : α → Depth → List Err)
    (h : ∀ x ∈ xs, Decomp (f x)) : Decomp (fun d => (xs.map (fun x => f x d)).flatten) := by
  induction xs with
  | nil => unfold Decomp; simp
  | cons x xs ih =>
    have h1 := h x (by simp)
    have h2 := ih (fun y hy => h y (by simp [hy]))
    have := decomp_append h1 h2
    simpa using this

theorem decomp_map {f : Depth → List Err} (g : List Err → List Err)
    (hg : ∀ l, g l = [] ↔ l = []) (hf : Decomp f) : Decomp (fun d => g (f d)) := by
  unfold Decomp at *; simp only [hg]; exact hf

theorem fieldErrors_decomp (T : ScopeTable) (ctx : Ctx) (spec : ColSpec) (fn : Option String)
    (phys : DType) (vals : List Val) : Decomp (fun d => fieldErrors T d ctx spec fn phys vals) := by
  unfold fieldErrors
  refine decomp_append (decomp_append (decomp_append (decomp_append ?_ ?_) ?_) ?_) ?_
  · exact decomp_gated _ _ _
  · have := decomp_gated T.fieldNullable (!spec.nullable && !(truePositions (vals.map Val.isNull)).isEmpty)
      [{ reason := .seriesContainsNulls, ctx, label := fn,
         cells := cellsAt fn vals (truePositions (vals.map Val.isNull)) }]
    simpa [Bool.and_assoc] using this
  · have := decomp_gated T.fieldUnique (spec.unique && !(truePositions (dupMask spec.reportDup vals)).isEmpty)
      [{ reason := .seriesContainsDuplicates, ctx, label := fn,
         cells := cellsAt fn vals (truePositions (dupMask spec.reportDup vals)) }]
    simpa [Bool.and_assoc] using this
  · cases spec.dtype with
    | none => exact decomp_const []
    | some t => exact decomp_gated _ _ _
  · exact decomp_gated' _ _

theorem columnErrors_decomp (T : ScopeTable) (spec : ColSpec) (D : Frame) :
    Decomp (fun d => columnErrors T d spec D) := by
  unfold columnErrors
  cases spec.regex with
  | some p =>
    simp only
    cases targets spec D with
    | nil => exact decomp_const _
    | cons n ns =>
      apply decomp_flatten_map
      intro m _
      cases D.col? m with
      | none => exact decomp_const []
      | some c => exact fieldErrors_decomp T .column _ _ _ _
  | none =>
    simp only
    cases spec.name with
    | none => exact decomp_const []
    | some n =>
      simp only
      cases D.col? n with
      | none => exact decomp_const []
      | some c => exact fieldErrors_decomp T .column _ _ _ _

theorem indexErrors_decomp (T : ScopeTable) (spec : ColSpec) (D : Frame) :
    Decomp (fun d => indexErrors T d spec D) := by
  unfold indexErrors
  match D.index with
  | [l] =>
    exact decomp_map (relabel spec.name) (by intro l; simp [relabel]) (fieldErrors_decomp T .index _ _ _ _)
  | [] => exact decomp_const _
  | _ :: _ :: _ => exact decomp_const _

theorem frameErrors_decomp (T : ScopeTable) (S : Schema) (D : Frame) :
    Decomp (fun d => frameErrors T d S D) := by
  unfold frameErrors coreCheckErrors
  refine decomp_append ?_ (decomp_append (decomp_append (decomp_append ?_ ?_) ?_) ?_)
  · exact decomp_const _
  · unfold presenceErrors; exact decomp_gated' _ _
  · unfold jointUniqueErrors
    by_cases h : (truePositions (dupRowMask S.reportDup (rowsOf D.nrows
        (List.map (fun x => x.vals) (List.filterMap D.col? (List.filter D.hasCol S.unique)))))).isEmpty = true
    · simp only [h, ↓reduceIte]
      have := decomp_gated T.jointUnique (!S.unique.isEmpty) []
      simpa using this
    · simp only [h, Bool.false_eq_true, ↓reduceIte]
      exact decomp_gated _ _ _
  · exact decomp_flatten_map S.columns (fun c d => columnErrors T d c D) (fun c _ => columnErrors_decomp T c D)
  · unfold indexPartErrors
    cases S.index with
    | none => exact decomp_const []
    | some ix => exact indexErrors_decomp T ix D

end Pandera

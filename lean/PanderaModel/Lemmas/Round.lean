import PanderaModel.Infer
/-!
# `float()` on integers is monotone

`roundNat` rounds to the nearest multiple of `2 ^ e` (`e = bitLen n - 53`), ties to the even quotient.
For a fixed grid the rounding is monotone and fixes the grid points; the grids of neighbouring bit lengths
meet at a power of two that lies on both.  Core Lean only.
-/
namespace Pandera.Infer

/-- nearest multiple of `2 * h`, ties to the even quotient -/
def rt (h n : Nat) : Nat :=
  (if n % (2 * h) > h || (n % (2 * h) == h && n / (2 * h) % 2 == 1) then n / (2 * h) + 1 else n / (2 * h)) * (2 * h)

theorem rt_ge_floor (h n : Nat) : n / (2 * h) * (2 * h) ≤ rt h n := by
  unfold rt
  apply Nat.mul_le_mul_right
  split <;> omega

theorem rt_le_ceil (h n : Nat) : rt h n ≤ (n / (2 * h) + 1) * (2 * h) := by
  unfold rt
  apply Nat.mul_le_mul_right
  split <;> omega

theorem rt_mono (h : Nat) (hh : 0 < h) {n m : Nat} (hnm : n ≤ m) : rt h n ≤ rt h m := by
  have hq : n / (2 * h) ≤ m / (2 * h) := Nat.div_le_div_right hnm
  rcases Nat.lt_or_ge (n / (2 * h)) (m / (2 * h)) with hlt | hge
  · calc rt h n ≤ (n / (2 * h) + 1) * (2 * h) := rt_le_ceil h n
      _ ≤ m / (2 * h) * (2 * h) := Nat.mul_le_mul_right _ hlt
      _ ≤ rt h m := rt_ge_floor h m
  · have heq : n / (2 * h) = m / (2 * h) := Nat.le_antisymm hq hge
    have hn := Nat.div_add_mod n (2 * h)
    have hm := Nat.div_add_mod m (2 * h)
    have hr : n % (2 * h) ≤ m % (2 * h) := by
      rw [heq] at hn
      omega
    unfold rt
    apply Nat.mul_le_mul_right
    rw [heq]
    have imp : (n % (2 * h) > h || (n % (2 * h) == h && m / (2 * h) % 2 == 1)) = true →
        (m % (2 * h) > h || (m % (2 * h) == h && m / (2 * h) % 2 == 1)) = true := by
      intro c1
      simp only [Bool.or_eq_true, decide_eq_true_eq, Bool.and_eq_true, beq_iff_eq] at c1 ⊢
      rcases c1 with c | ⟨c, d⟩
      · left; omega
      · rcases Nat.lt_or_ge h (m % (2 * h)) with e | e
        · left; exact e
        · right; exact ⟨by omega, d⟩
    generalize (n % (2 * h) > h || (n % (2 * h) == h && m / (2 * h) % 2 == 1)) = cn at imp ⊢
    generalize (m % (2 * h) > h || (m % (2 * h) == h && m / (2 * h) % 2 == 1)) = cm at imp ⊢
    cases cn <;> cases cm <;> simp at imp ⊢

theorem rt_fix (h : Nat) (hh : 0 < h) (k : Nat) : rt h (k * (2 * h)) = k * (2 * h) := by
  unfold rt
  have h1 : k * (2 * h) % (2 * h) = 0 := Nat.mul_mod_left _ _
  have h2 : k * (2 * h) / (2 * h) = k := Nat.mul_div_cancel _ (by omega)
  rw [h1, h2]
  have : ¬ (0 > h) := by omega
  have h3 : (0 == h) = false := by simp; omega
  simp [this, h3]

theorem rt_le_of_le (h : Nat) (hh : 0 < h) {n k : Nat} (hn : n ≤ k * (2 * h)) : rt h n ≤ k * (2 * h) := by
  have := rt_mono h hh hn
  rwa [rt_fix h hh] at this

theorem rt_ge_of_ge (h : Nat) (hh : 0 < h) {n k : Nat} (hn : k * (2 * h) ≤ n) : k * (2 * h) ≤ rt h n := by
  have := rt_mono h hh hn
  rwa [rt_fix h hh] at this

/-! ### bit length -/

theorem bitLen_pos {n : Nat} (hn : n ≠ 0) : 0 < bitLen n := by
  unfold bitLen; simp [hn]

theorem lt_pow_bitLen (n : Nat) : n < 2 ^ bitLen n := by
  unfold bitLen
  split
  · omega
  · exact Nat.lt_log2_self

theorem pow_bitLen_pred_le {n : Nat} (hn : n ≠ 0) : 2 ^ (bitLen n - 1) ≤ n := by
  unfold bitLen
  simp only [hn, if_false]
  exact Nat.log2_self_le hn

theorem bitLen_mono {a b : Nat} (hab : a ≤ b) : bitLen a ≤ bitLen b := by
  by_cases ha : a = 0
  · subst ha; unfold bitLen; simp
  · have hb : b ≠ 0 := by omega
    -- otherwise b < 2 ^ bitLen b ≤ 2 ^ (bitLen a - 1) ≤ a
    rcases Nat.lt_or_ge (bitLen b) (bitLen a) with hlt | hge
    · have h1 := lt_pow_bitLen b
      have h2 := pow_bitLen_pred_le ha
      have h3 : 2 ^ bitLen b ≤ 2 ^ (bitLen a - 1) := Nat.pow_le_pow_right (by omega) (by omega)
      omega
    · exact hge

/-- above 53 bits `roundNat` is `rt` on the grid `2 ^ (bitLen n - 53)` -/
theorem roundNat_eq_rt {n : Nat} (hb : 53 < bitLen n) : roundNat n = rt (2 ^ (bitLen n - 54)) n := by
  have hG : 2 ^ (bitLen n - 53) = 2 * 2 ^ (bitLen n - 54) := by
    have : bitLen n - 53 = (bitLen n - 54) + 1 := by omega
    rw [this, Nat.pow_succ]; omega
  have hH : bitLen n - 53 - 1 = bitLen n - 54 := by omega
  unfold roundNat rt
  simp only [show ¬ bitLen n ≤ 53 by omega, if_false, hG, hH]

theorem two_pow_pos (k : Nat) : 0 < 2 ^ k := Nat.pow_pos (by omega)

end Pandera.Infer

namespace Pandera.Infer

theorem grid_pow (L : Nat) (hL : 54 ≤ L) (c : Nat) (hc : c ≤ 53) :
    2 ^ (L - c) = 2 ^ (53 - c) * (2 * 2 ^ (L - 54)) := by
  have h1 : 2 * 2 ^ (L - 54) = 2 ^ (L - 53) := by
    have : L - 53 = (L - 54) + 1 := by omega
    rw [this, Nat.pow_succ]; omega
  rw [h1, ← Nat.pow_add]
  congr 1
  omega

theorem roundNat_le_pow (n : Nat) : roundNat n ≤ 2 ^ bitLen n := by
  rcases Nat.lt_or_ge 53 (bitLen n) with hb | hb
  · rw [roundNat_eq_rt hb]
    have hg := grid_pow (bitLen n) (by omega) 0 (by omega)
    simp only [Nat.sub_zero] at hg
    rw [hg]
    apply rt_le_of_le _ (two_pow_pos _)
    rw [← hg]
    exact Nat.le_of_lt (lt_pow_bitLen n)
  · have : roundNat n = n := by unfold roundNat; simp [hb]
    rw [this]; exact Nat.le_of_lt (lt_pow_bitLen n)

theorem pow_le_roundNat {n : Nat} (hb : 53 < bitLen n) : 2 ^ (bitLen n - 1) ≤ roundNat n := by
  have hn : n ≠ 0 := by
    intro h; subst h; unfold bitLen at hb; simp at hb
  rw [roundNat_eq_rt hb]
  have hg := grid_pow (bitLen n) (by omega) 1 (by omega)
  rw [hg]
  apply rt_ge_of_ge _ (two_pow_pos _)
  rw [← hg]
  exact pow_bitLen_pred_le hn

/-- **`float()` is monotone on the naturals** -/
theorem roundNat_mono {a b : Nat} (hab : a ≤ b) : roundNat a ≤ roundNat b := by
  have hbl := bitLen_mono hab
  rcases Nat.lt_or_ge 53 (bitLen b) with hb | hb
  · rcases Nat.lt_or_ge (bitLen a) (bitLen b) with hlt | hge
    · calc roundNat a ≤ 2 ^ bitLen a := roundNat_le_pow a
        _ ≤ 2 ^ (bitLen b - 1) := Nat.pow_le_pow_right (by omega) (by omega)
        _ ≤ roundNat b := pow_le_roundNat hb
    · have heq : bitLen a = bitLen b := Nat.le_antisymm hbl hge
      rw [roundNat_eq_rt hb, roundNat_eq_rt (by omega : 53 < bitLen a), heq]
      exact rt_mono _ (two_pow_pos _) hab
  · have ha : roundNat a = a := by unfold roundNat; simp [show bitLen a ≤ 53 by omega]
    have hb' : roundNat b = b := by unfold roundNat; simp [hb]
    rw [ha, hb']; exact hab

/-- **`float()` is monotone on the integers** -/
theorem roundF64_mono {a b : Int} (hab : a ≤ b) : roundF64 a ≤ roundF64 b := by
  unfold roundF64
  by_cases ha : a ≥ 0 <;> by_cases hb : b ≥ 0 <;> simp only [ha, hb, if_true, if_false]
  · have : a.toNat ≤ b.toNat := by omega
    exact Int.ofNat_le.mpr (roundNat_mono this)
  · omega
  · have h1 : (0 : Int) ≤ (roundNat (-a).toNat : Int) := Int.natCast_nonneg _
    have h2 : (0 : Int) ≤ (roundNat b.toNat : Int) := Int.natCast_nonneg _
    omega
  · have : (-b).toNat ≤ (-a).toNat := by omega
    have := Int.ofNat_le.mpr (roundNat_mono this)
    omega

end Pandera.Infer

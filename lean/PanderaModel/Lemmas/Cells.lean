import PanderaModel.Lemmas.Basic
namespace Pandera

theorem mem_truePositions_iff (m : List Bool) (i : Nat) : i ∈ truePositions m ↔ m[i]? = some true := by
  unfold truePositions
  simp only [List.mem_filterMap]
  constructor
  · rintro ⟨p, hp, h⟩
    have := List.mem_zipIdx_iff_getElem?.mp (by simpa using hp)
    cases hb : p.1 <;> simp_all
  · intro h
    exact ⟨(true, i), by simp [List.mem_zipIdx_iff_getElem?, h], by simp⟩

theorem mem_cellsAt_iff (col : Option String) (vals : List Val) (ps : List Nat) (c : Cell) :
    c ∈ cellsAt col vals ps ↔ c.col = col ∧ c.pos ∈ ps ∧ c.val = vals.getD c.pos .null := by
  unfold cellsAt
  simp only [List.mem_map]
  constructor
  · rintro ⟨i, hi, rfl⟩; exact ⟨rfl, hi, rfl⟩
  · rintro ⟨h1, h2, h3⟩
    exact ⟨c.pos, h2, by cases c; simp_all⟩

/-- failing positions reported by the check backend: exactly the kept elements on which the
function answers `false` (for every check function) -/
theorem runCheckFn_fails_mem (f : Val → Option Bool) (ign : Bool) (vals : List Val) (ps : List Nat)
    (h : runCheckFn f ign vals = .fails ps) (i : Nat) :
    i ∈ ps ↔ ∃ v, vals[i]? = some v ∧ (ign && v.isNull) = false ∧ f v = some false := by
  unfold runCheckFn at h
  simp only at h
  split at h
  · cases h
  · simp only [CheckOut.fails.injEq] at h
    subst h
    simp only [List.mem_filterMap, List.mem_map, List.mem_filter]
    constructor
    · rintro ⟨o, ⟨p, ⟨hp, hk⟩, rfl⟩, ho⟩
      have hg := List.mem_zipIdx_iff_getElem?.mp (by simpa using hp)
      simp only at ho
      split at ho
      · rename_i hf
        simp only [Option.some.injEq] at ho
        subst ho
        refine ⟨p.1, hg, ?_, by simpa using hf⟩
        cases hb : (ign && p.1.isNull) <;> simp_all
      · cases ho
    · rintro ⟨v, hv, hk, hf⟩
      refine ⟨(f v, i), ⟨(v, i), ⟨by simp [List.mem_zipIdx_iff_getElem?, hv], by simp [hk]⟩, rfl⟩, by simp [hf]⟩

end Pandera

import PanderaModel.Lemmas.Field
namespace Pandera

/-! ### `eraseDups` -/

theorem mem_eraseDups_iff (l : List String) (a : String) : a ∈ l.eraseDups ↔ a ∈ l := by
  induction h : l.length using Nat.strongRecOn generalizing l with
  | _ n ih =>
    cases l with
    | nil => simp
    | cons x xs =>
      rw [List.eraseDups_cons]
      have hlen : (xs.filter fun b => !b == x).length < n := by
        subst h
        exact Nat.lt_succ_of_le (List.length_filter_le _ _)
      simp only [List.mem_cons, ih _ hlen _ rfl, List.mem_filter]
      by_cases hax : a = x
      · simp [hax]
      · simp [hax]

theorem nodup_eraseDups (l : List String) : l.eraseDups.Nodup := by
  induction h : l.length using Nat.strongRecOn generalizing l with
  | _ n ih =>
    cases l with
    | nil => simp
    | cons x xs =>
      rw [List.eraseDups_cons]
      have hlen : (xs.filter fun b => !b == x).length < n := by
        subst h
        exact Nat.lt_succ_of_le (List.length_filter_le _ _)
      rw [List.nodup_cons]
      refine ⟨?_, ih _ hlen _ rfl⟩
      rw [mem_eraseDups_iff]
      simp

/-! ### strict / ordered -/

theorem strictOrderedAux_none_iff (strict ordered : Bool) (E names sorted : List String) :
    strictOrderedAux strict ordered E names sorted = none ↔
      (strict = true → ∀ n ∈ names, E.contains n = true) ∧
      (ordered = true → names.filter (fun n => E.contains n) <+: sorted) := by
  cases strict <;> cases ordered
  · induction names generalizing sorted with
    | nil => simp [strictOrderedAux]
    | cons c rest ih => unfold strictOrderedAux; simp [ih]
  · induction names generalizing sorted with
    | nil => simp [strictOrderedAux]
    | cons c rest ih =>
      unfold strictOrderedAux
      by_cases hc : c ∈ E
      · cases sorted with
        | nil => simp [hc]
        | cons s sorted' =>
          by_cases hs : s = c
          · subst hs; simp [hc, ih]
          · have : (s != c) = true := by simpa using hs
            simp [hc, this]
            intro h; exact absurd h.symm hs
      · simp [hc, ih]
  · induction names generalizing sorted with
    | nil => simp [strictOrderedAux]
    | cons c rest ih =>
      unfold strictOrderedAux
      by_cases hc : c ∈ E
      · simp [hc, ih]
      · simp [hc]
  · induction names generalizing sorted with
    | nil => simp [strictOrderedAux]
    | cons c rest ih =>
      unfold strictOrderedAux
      by_cases hc : c ∈ E
      · cases sorted with
        | nil => simp [hc]
        | cons s sorted' =>
          by_cases hs : s = c
          · subst hs; simp [hc, ih]
          · have : (s != c) = true := by simpa using hs
            simp [hc, this]
            intro _ h; exact absurd h.symm hs
      · simp [hc]

theorem prefix_eq_of_same_members {N E : List String} (hN : N.Nodup) (hE : E.Nodup)
    (hsub : ∀ n ∈ E, n ∈ N) :
    (N.filter (fun n => E.contains n) <+: E) ↔ N.filter (fun n => E.contains n) = E := by
  constructor
  · intro hp
    apply hp.eq_of_length
    apply List.Perm.length_eq
    rw [List.perm_ext_iff_of_nodup (hN.filter _) hE]
    intro a
    simp only [List.mem_filter, List.contains_iff_mem]
    exact ⟨fun h => h.2, fun h => ⟨hsub a h, h⟩⟩
  · intro h; rw [h]; exact List.prefix_refl _

end Pandera

namespace Pandera

theorem targets_subset_names (spec : ColSpec) (D : Frame) : ∀ n ∈ targets spec D, n ∈ D.names := by
  intro n hn
  unfold targets at hn
  split at hn
  · exact (List.mem_filter.mp hn).1
  · split at hn
    · split at hn
      · rename_i h; simp at hn; subst hn; simpa [Frame.hasCol] using h
      · simp at hn
    · simp at hn

theorem expanded_subset_names (S : Schema) (D : Frame) : ∀ n ∈ expandedNames S D, n ∈ D.names := by
  intro n hn
  unfold expandedNames at hn
  rw [mem_eraseDups_iff] at hn
  simp only [List.mem_flatten, List.mem_map] at hn
  obtain ⟨l, ⟨spec, _, rfl⟩, hn⟩ := hn
  exact targets_subset_names spec D n hn

theorem strictOrderedErrors_nil_iff (S : Schema) (D : Frame) (hnd : D.names.Nodup) :
    strictOrderedErrors S D = [] ↔
      (S.strict = .yes → ∀ n ∈ D.names, (Spec.declared S D).contains n = true) ∧
      (S.ordered = true → Spec.inOrder S D) := by
  have hdecl : Spec.declared S D = expandedNames S D := rfl
  unfold strictOrderedErrors Spec.inOrder
  rw [hdecl]
  by_cases h : (S.strict == Strict.yes || S.ordered) = true
  · simp only [h, ↓reduceIte, Option.toList_eq_nil_iff]
    rw [strictOrderedAux_none_iff]
    have hp := prefix_eq_of_same_members hnd (nodup_eraseDups _) (expanded_subset_names S D)
    unfold expandedNames at hp ⊢
    rw [hp]
    simp
  · simp only [h, Bool.false_eq_true, ↓reduceIte, true_iff]
    simp only [Bool.or_eq_true, beq_iff_eq, not_or] at h
    exact ⟨fun h1 => absurd h1 h.1, fun h2 => absurd h2 h.2⟩

def presOk (spec : ColSpec) (D : Frame) : Prop :=
  match spec.regex, spec.name with
  | none, some n => spec.required = true → D.hasCol n = true
  | _, _ => True

theorem presenceErrors_nil_iff (T : ScopeTable) (S : Schema) (D : Frame) :
    presenceErrors T .schemaAndData S D = [] ↔ ∀ spec ∈ S.columns, presOk spec D := by
  unfold presenceErrors absentNames presOk
  simp only [optRuns_sad, ↓reduceIte, List.map_eq_nil_iff, List.filterMap_eq_nil_iff]
  constructor
  · intro h spec hs
    have := h spec hs
    split
    · rename_i n hr hn
      simp only [hr, hn] at this
      intro hreq
      by_cases hc : D.hasCol n = true
      · exact hc
      · simp [hreq, hc] at this
    · trivial
  · intro h spec hs
    have := h spec hs
    split
    · rename_i hr hn
      simp only [hr, hn] at this
      by_cases hreq : spec.required = true
      · simp [hreq, this hreq]
      · simp [hreq]
    · rfl

end Pandera

namespace Pandera

theorem col?_mem {D : Frame} {n : String} {c : Column} (h : D.col? n = some c) : c ∈ D.cols :=
  List.mem_of_find?_eq_some h

theorem col?_isSome_of_mem_names {D : Frame} {n : String} (h : n ∈ D.names) : ∃ c, D.col? n = some c := by
  unfold Frame.names at h
  obtain ⟨c, hc, rfl⟩ := List.mem_map.mp h
  unfold Frame.col?
  have : (D.cols.find? (fun x => x.name == c.name)).isSome := by
    rw [List.find?_isSome]; exact ⟨c, hc, by simp⟩
  exact Option.isSome_iff_exists.mp this

/-- the region of the recorded `str` dtype finding, for a whole (schema, frame) pair -/
def NoK_C01 (S : Schema) (D : Frame) : Prop :=
  (∀ spec ∈ S.columns, ∀ n ∈ targets spec D, ∀ c, D.col? n = some c →
      ∀ t, spec.dtype = some t → K_C01_strVacuous t c.dtype c.vals = false)
  ∧ (∀ ix, S.index = some ix → ∀ l ∈ D.index, ∀ t, ix.dtype = some t →
      K_C01_strVacuous t l.dtype l.vals = false)

theorem columnErrors_nil_iff (T : ScopeTable) (spec : ColSpec) (D : Frame)
    (hfit : ∀ c ∈ D.cols, ∀ v ∈ c.vals, valFits c.dtype v = true)
    (hK : ∀ n ∈ targets spec D, ∀ c, D.col? n = some c →
      ∀ t, spec.dtype = some t → K_C01_strVacuous t c.dtype c.vals = false) :
    (columnErrors T .schemaAndData spec D = [] ∧ presOk spec D) ↔ Spec.columnSat spec D := by
  have hm : Spec.matched spec D = targets spec D := rfl
  unfold columnErrors Spec.columnSat presOk
  rw [hm]
  cases hr : spec.regex with
  | some p =>
    simp only [and_true]
    cases ht : targets spec D with
    | nil => cases hq : spec.required <;> simp
    | cons n ns =>
      simp only [List.flatten_eq_nil_iff, List.mem_map, forall_exists_index, and_imp, ne_eq,
        reduceCtorEq, not_false_eq_true, implies_true, true_and]
      constructor
      · intro h m hm c hc
        have := h _ m hm rfl
        rw [hc] at this
        simp only at this
        rw [← fieldErrors_nil_iff T .column _ (some m) c.dtype c.vals (hfit c (col?_mem hc))
          (by intro t hd; exact hK m (ht ▸ hm) c hc t hd)]
        exact this
      · intro h l m hm hl
        subst hl
        cases hc : D.col? m with
        | none => rfl
        | some c =>
          simp only
          rw [fieldErrors_nil_iff T .column _ (some m) c.dtype c.vals (hfit c (col?_mem hc))
            (by intro t hd; exact hK m (ht ▸ hm) c hc t hd)]
          exact h m hm c hc
  | none =>
    cases hn : spec.name with
    | none => simp
    | some n =>
      simp only
      constructor
      · rintro ⟨h1, h2⟩
        refine ⟨h2, fun c hc => ?_⟩
        rw [hc] at h1
        simp only at h1
        have hmem : n ∈ targets spec D := by
          unfold targets; simp only [hr, hn]
          have : D.hasCol n = true := by
            unfold Frame.hasCol Frame.names
            simp only [List.contains_iff_mem, List.mem_map]
            exact ⟨c, col?_mem hc, by
              have := List.find?_some hc; simpa using this⟩
          simp [this]
        rw [← fieldErrors_nil_iff T .column spec (some n) c.dtype c.vals (hfit c (col?_mem hc))
          (by intro t hd; exact hK n hmem c hc t hd)]
        exact h1
      · rintro ⟨h1, h2⟩
        refine ⟨?_, h1⟩
        cases hc : D.col? n with
        | none => rfl
        | some c =>
          simp only
          have hmem : n ∈ targets spec D := by
            unfold targets; simp only [hr, hn]
            have : D.hasCol n = true := by
              unfold Frame.hasCol Frame.names
              simp only [List.contains_iff_mem, List.mem_map]
              exact ⟨c, col?_mem hc, by
                have := List.find?_some hc; simpa using this⟩
            simp [this]
          rw [fieldErrors_nil_iff T .column spec (some n) c.dtype c.vals (hfit c (col?_mem hc))
            (by intro t hd; exact hK n hmem c hc t hd)]
          exact h2 c hc

theorem jointUniqueErrors_nil_iff (T : ScopeTable) (S : Schema) (D : Frame) :
    jointUniqueErrors T .schemaAndData S D = [] ↔
      (S.unique ≠ [] → (S.unique.filter D.hasCol).filterMap D.col? ≠ [] → Spec.rowsDistinct
        (rowsOf D.nrows (((S.unique.filter D.hasCol).filterMap D.col?).map (·.vals)))) := by
  unfold jointUniqueErrors
  simp only [optRuns_sad, Bool.true_and]
  cases hu : S.unique with
  | nil => simp
  | cons u us =>
    simp only [List.isEmpty_cons, Bool.not_false, ↓reduceIte, ne_eq, reduceCtorEq, not_false_eq_true,
      forall_const]
    cases hc : List.filterMap D.col? (List.filter D.hasCol (u :: us)) with
    | nil => simp
    | cons c cs =>
      simp only [List.isEmpty_cons, Bool.false_eq_true, ↓reduceIte, reduceCtorEq, not_false_eq_true, forall_const]
      rw [← dupRowMask_allFalse_iff S.reportDup, ← truePositions_nil_iff]
      cases hd : truePositions (dupRowMask S.reportDup
        (rowsOf D.nrows (List.map (fun x => x.vals) (c :: cs)))) <;> simp

theorem indexErrors_nil_iff (T : ScopeTable) (spec : ColSpec) (D : Frame)
    (hfit : ∀ l ∈ D.index, ∀ v ∈ l.vals, valFits l.dtype v = true)
    (hK : ∀ l ∈ D.index, ∀ t, spec.dtype = some t → K_C01_strVacuous t l.dtype l.vals = false) :
    indexErrors T .schemaAndData spec D = [] ↔ Spec.indexSat spec D := by
  unfold indexErrors Spec.indexSat
  match h : D.index with
  | [l] =>
    simp only [List.cons.injEq, and_true, exists_eq_left', relabel, List.map_eq_nil_iff]
    exact fieldErrors_nil_iff T .index spec l.name l.dtype l.vals (hfit l (by simp [h]))
      (hK l (by simp [h]))
  | [] => simp
  | _ :: _ :: _ => simp

end Pandera

import PanderaModel.Transform
/-! helper lemmas for C15 (association lists as insertion-ordered dicts) -/
namespace Pandera.Transform

variable {α : Type}

theorem mem_keys {d : List (String × α)} {k : String} : k ∈ keys d ↔ ∃ v, (k, v) ∈ d := by
  unfold keys
  constructor
  · intro h
    rcases List.mem_map.mp h with ⟨p, hp, rfl⟩
    exact ⟨p.2, hp⟩
  · rintro ⟨v, hv⟩
    exact List.mem_map.mpr ⟨(k, v), hv, rfl⟩

theorem lookup_eq_none_iff {d : List (String × α)} {k : String} : d.lookup k = none ↔ k ∉ keys d := by
  induction d with
  | nil => simp [keys]
  | cons p d ih =>
    obtain ⟨a, b⟩ := p
    by_cases h : k = a
    · subst h; simp [List.lookup, keys]
    · have h' : (k == a) = false := by simpa using h
      simp only [List.lookup, h']
      rw [ih]; simp [keys, h]

theorem lookup_of_mem_nodup {d : List (String × α)} {k : String} {v : α}
    (hn : (keys d).Nodup) (hm : (k, v) ∈ d) : d.lookup k = some v := by
  induction d with
  | nil => cases hm
  | cons p d ih =>
    obtain ⟨a, b⟩ := p
    have hn' : a ∉ keys d ∧ (keys d).Nodup := by simpa [keys] using hn
    rcases List.mem_cons.mp hm with h | h
    · cases h; simp [List.lookup]
    · have hk : k ∈ keys d := mem_keys.mpr ⟨v, h⟩
      have hne : (k == a) = false := by
        have : k ≠ a := fun e => hn'.1 (e ▸ hk)
        simpa using this
      simp only [List.lookup, hne]
      exact ih hn'.2 h

theorem mem_of_lookup {d : List (String × α)} {k : String} {v : α} (h : d.lookup k = some v) : (k, v) ∈ d := by
  induction d with
  | nil => cases h
  | cons p d ih =>
    obtain ⟨a, b⟩ := p
    by_cases hk : k = a
    · subst hk; simp [List.lookup] at h; subst h; exact List.mem_cons_self
    · have h' : (k == a) = false := by simpa using hk
      simp only [List.lookup, h'] at h
      exact List.mem_cons_of_mem _ (ih h)

theorem lookup_append_of_not_mem {d e : List (String × α)} {k : String} (h : k ∉ keys d) :
    (d ++ e).lookup k = e.lookup k := by
  induction d with
  | nil => rfl
  | cons p d ih =>
    obtain ⟨a, b⟩ := p
    have h1 : k ≠ a ∧ k ∉ keys d := by simpa [keys] using h
    have h' : (k == a) = false := by simpa using h1.1
    simp only [List.cons_append, List.lookup, h']
    exact ih h1.2

theorem lookup_append_of_lookup {d e : List (String × α)} {k : String} {v : α} (h : d.lookup k = some v) :
    (d ++ e).lookup k = some v := by
  induction d with
  | nil => cases h
  | cons p d ih =>
    obtain ⟨a, b⟩ := p
    by_cases hk : k = a
    · subst hk; simp [List.lookup] at h ⊢; exact h
    · have h' : (k == a) = false := by simpa using hk
      simp only [List.cons_append, List.lookup, h'] at h ⊢
      exact ih h

/-- looking a key up in `ctor.map (fun q => (q.1, g q))` -/
theorem lookup_map_snd {β : Type} {l : List (String × β)} (g : String × β → α) {k : String} {d : β}
    (hn : (keys l).Nodup) (hm : (k, d) ∈ l) :
    (l.map fun q => (q.1, g q)).lookup k = some (g (k, d)) := by
  induction l with
  | nil => cases hm
  | cons p l ih =>
    obtain ⟨a, b⟩ := p
    have hn' : a ∉ keys l ∧ (keys l).Nodup := by simpa [keys] using hn
    rcases List.mem_cons.mp hm with h | h
    · cases h; simp [List.lookup]
    · have hk : k ∈ keys l := mem_keys.mpr ⟨d, h⟩
      have hne : (k == a) = false := by
        have : k ≠ a := fun e => hn'.1 (e ▸ hk)
        simpa using this
      simp only [List.map, List.lookup, hne]
      exact ih hn'.2 h

theorem keys_map_snd {β : Type} (l : List (String × β)) (g : String × β → α) :
    keys (l.map fun q => (q.1, g q)) = keys l := by
  unfold keys; simp [List.map_map, Function.comp_def]

/-! ### construct / readAttrs -/

theorem construct_ok {ctor : List (String × String)} {vk : Bool} {kw o : Attrs}
    (h : construct ctor vk kw = .ok o) : o = ctor.map fun q => (q.1, (kw.lookup q.1).getD q.2) := by
  unfold construct at h
  split at h
  · cases h; rfl
  · cases h

theorem construct_lookup {ctor : List (String × String)} {vk : Bool} {kw o : Attrs} {k d : String}
    (h : construct ctor vk kw = .ok o) (hn : (keys ctor).Nodup) (hm : (k, d) ∈ ctor) :
    o.lookup k = some ((kw.lookup k).getD d) := by
  rw [construct_ok h]
  exact lookup_map_snd (fun q => (kw.lookup q.1).getD q.2) hn hm

theorem keys_construct {ctor : List (String × String)} {vk : Bool} {kw o : Attrs}
    (h : construct ctor vk kw = .ok o) : keys o = keys ctor := by
  rw [construct_ok h]; exact keys_map_snd _ _

theorem readAttrs_lookup {table : List (String × String)} {obj : Attrs} {k a v : String}
    (hn : (keys table).Nodup) (hm : (k, a) ∈ table) (hv : obj.lookup a = some v) :
    (readAttrs table obj).lookup k = some v := by
  induction table with
  | nil => cases hm
  | cons p t ih =>
    obtain ⟨k', a'⟩ := p
    have hn' : k' ∉ keys t ∧ (keys t).Nodup := by simpa [keys] using hn
    rcases List.mem_cons.mp hm with h | h
    · cases h
      simp [readAttrs, List.filterMap, hv, List.lookup]
    · have hk : k ∈ keys t := mem_keys.mpr ⟨a, h⟩
      have hne : (k == k') = false := by
        have : k ≠ k' := fun e => hn'.1 (e ▸ hk)
        simpa using this
      have ih' := ih hn'.2 h
      unfold readAttrs at ih' ⊢
      simp only [List.filterMap]
      cases obj.lookup a' with
      | none => simpa using ih'
      | some w => simp only [Option.map, List.lookup, hne]; exact ih'

theorem readAttrs_lookup_self {table : List (String × String)} {obj : Attrs} {k : String}
    (hn : (keys table).Nodup) (hm : (k, k) ∈ table) :
    (readAttrs table obj).lookup k = obj.lookup k := by
  cases hv : obj.lookup k with
  | some v => exact readAttrs_lookup hn hm hv
  | none =>
    apply lookup_eq_none_iff.mpr
    intro hin
    rcases mem_keys.mp hin with ⟨v, hv'⟩
    unfold readAttrs at hv'
    rcases List.mem_filterMap.mp hv' with ⟨p, hp, he⟩
    cases hl : obj.lookup p.2 with
    | none => simp [hl] at he
    | some w =>
      simp only [hl, Option.map, Option.some.injEq, Prod.mk.injEq] at he
      have hp1 : p.1 = k := he.1
      have : table.lookup k = some p.2 := lookup_of_mem_nodup hn (by rw [← hp1]; exact hp)
      have h2 : table.lookup k = some k := lookup_of_mem_nodup hn hm
      rw [h2] at this
      have : p.2 = k := by simpa using this.symm
      rw [this, hv] at hl; cases hl

theorem filterMap_congr' {β γ : Type} {f g : β → Option γ} {l : List β} (h : ∀ x ∈ l, f x = g x) :
    l.filterMap f = l.filterMap g := by
  induction l with
  | nil => rfl
  | cons a l ih =>
    rw [List.filterMap_cons, List.filterMap_cons, h a List.mem_cons_self,
        ih (fun x hx => h x (List.mem_cons_of_mem _ hx))]

theorem comp_congr {V : Vocab} {c1 c2 : Attrs}
    (h : ∀ k d, (k, d) ∈ V.idxCtor → k ≠ "name" → (c1.lookup k).getD d = (c2.lookup k).getD d) :
    comp V c1 = comp V c2 := by
  unfold comp
  apply filterMap_congr'
  intro q hq
  by_cases hn : q.1 = "name"
  · simp [hn]
  · have : (q.1 == "name") = false := by simpa using hn
    simp only [this, Bool.false_eq_true, if_false]
    rw [h q.1 q.2 hq hn]

theorem setName_lookup_ne {c : Attrs} {n k : String} (hk : k ≠ "name") :
    (setName c n).lookup k = c.lookup k := by
  induction c with
  | nil => rfl
  | cons p c ih =>
    obtain ⟨a, b⟩ := p
    have ih' : (List.map (fun p : String × String => if (p.1 == "name") = true then ("name", n) else p) c).lookup k
        = c.lookup k := ih
    show (List.map (fun p : String × String => if (p.1 == "name") = true then ("name", n) else p) ((a, b) :: c)).lookup k
        = ((a, b) :: c).lookup k
    rw [List.map_cons]
    by_cases ha : a = "name"
    · subst ha
      have h' : (k == "name") = false := by simpa using hk
      simp only [beq_self_eq_true, if_true, List.lookup_cons, h']
      exact ih'
    · have ha' : (a == "name") = false := by simpa using ha
      simp only [ha', Bool.false_eq_true, if_false, List.lookup_cons]
      cases k == a
      · exact ih'
      · rfl

/-! ### dictSet -/

theorem any_key_iff {d : List (String × α)} {k : String} : d.any (fun p => p.1 == k) = true ↔ k ∈ keys d := by
  rw [List.any_eq_true, mem_keys]
  constructor
  · rintro ⟨⟨a, b⟩, hm, he⟩
    have : a = k := by simpa using he
    subst this; exact ⟨b, hm⟩
  · rintro ⟨b, hm⟩; exact ⟨(k, b), hm, by simp⟩

theorem keys_dictSet_of_mem {d : List (String × α)} {k : String} {v : α} (h : k ∈ keys d) :
    keys (dictSet d (k, v)) = keys d := by
  unfold dictSet
  rw [if_pos (any_key_iff.mpr h)]
  unfold keys
  rw [List.map_map]
  apply List.map_congr_left
  intro p _
  by_cases hp : p.1 = k
  · simp [hp]
  · have : (p.1 == k) = false := by simpa using hp
    simp [Function.comp, this]

theorem dictSet_of_not_mem {d : List (String × α)} {kv : String × α} (h : kv.1 ∉ keys d) :
    dictSet d kv = d ++ [kv] := by
  unfold dictSet
  have : ¬ d.any (fun p => p.1 == kv.1) = true := fun hh => h (any_key_iff.mp hh)
  rw [if_neg this]

theorem lookup_map_replace_ne {d : List (String × α)} {k m : String} {v : α} (hm : m ≠ k) :
    (d.map (fun p => if (p.1 == k) = true then (k, v) else p)).lookup m = d.lookup m := by
  induction d with
  | nil => rfl
  | cons p d ih =>
    obtain ⟨a, b⟩ := p
    rw [List.map_cons]
    by_cases ha : a = k
    · subst ha
      have : (m == a) = false := by simpa using hm
      simp only [beq_self_eq_true, if_true, List.lookup_cons, this]
      exact ih
    · have ha' : (a == k) = false := by simpa using ha
      simp only [ha', Bool.false_eq_true, if_false, List.lookup_cons]
      cases m == a
      · exact ih
      · rfl

theorem lookup_map_replace_self {d : List (String × α)} {k : String} {v : α} (h : k ∈ keys d) :
    (d.map (fun p => if (p.1 == k) = true then (k, v) else p)).lookup k = some v := by
  induction d with
  | nil => simp [keys] at h
  | cons p d ih =>
    obtain ⟨a, b⟩ := p
    rw [List.map_cons]
    by_cases ha : a = k
    · subst ha; simp [List.lookup_cons]
    · have ha' : (a == k) = false := by simpa using ha
      have hk : (k == a) = false := by simpa using (fun e : k = a => ha e.symm)
      have h2 : k ∈ keys d := by
        have : k = a ∨ k ∈ keys d := by simpa [keys] using h
        rcases this with e | e
        · exact absurd e.symm ha
        · exact e
      simp only [ha', Bool.false_eq_true, if_false, List.lookup_cons, hk]
      exact ih h2

theorem lookup_dictSet_ne {d : List (String × α)} {k m : String} {v : α} (hm : m ≠ k) :
    (dictSet d (k, v)).lookup m = d.lookup m := by
  unfold dictSet
  split
  · exact lookup_map_replace_ne hm
  · by_cases hmd : m ∈ keys d
    · cases hl : d.lookup m with
      | none => exact absurd hmd (lookup_eq_none_iff.mp hl)
      | some w => exact lookup_append_of_lookup hl
    · rw [lookup_append_of_not_mem hmd, lookup_eq_none_iff.mpr hmd]
      have : (m == k) = false := by simpa using hm
      simp [List.lookup_cons, this]

theorem lookup_dictSet_self {d : List (String × α)} {k : String} {v : α} :
    (dictSet d (k, v)).lookup k = some v := by
  unfold dictSet
  split
  · rename_i h
    exact lookup_map_replace_self (any_key_iff.mp h)
  · rename_i h
    have hk : k ∉ keys d := fun hh => h (any_key_iff.mpr hh)
    rw [lookup_append_of_not_mem hk]; simp [List.lookup_cons]

end Pandera.Transform

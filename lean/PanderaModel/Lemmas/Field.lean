import PanderaModel.Lemmas.Basic
import PanderaModel.KnownRegions
namespace Pandera

theorem checkStep_nil_iff (ctx : Ctx) (label : Option String) (vals : List Val) (ix : Nat) (c : CheckSpec) :
    checkStep ctx label vals ix c = [] ↔ runCheck c vals = .fails [] := by
  unfold checkStep
  split <;> simp_all

theorem checksSteps_nil_iff (ctx : Ctx) (label : Option String) (vals : List Val) (cs : List CheckSpec) :
    checksSteps ctx label vals cs = [] ↔ ∀ c ∈ cs, ∀ v ∈ vals, Spec.valOk c v = true := by
  unfold checksSteps
  simp only [List.flatten_eq_nil_iff, List.mem_map, forall_exists_index, and_imp]
  constructor
  · intro h c hc
    obtain ⟨i, hi⟩ := mem_zipIdx_of_mem hc
    have := h _ (c, i) hi rfl
    rw [checkStep_nil_iff, runCheck, runCheckFn_pass_iff] at this
    intro v hv
    have := this v hv
    unfold elemOk at this
    unfold Spec.valOk
    by_cases hk : (c.ignoreNa && v.isNull) = true
    · simp [hk]
    · simp only [hk, Bool.false_eq_true, ↓reduceIte] at this
      simp [this]
  · intro h l p hp hl
    subst hl
    rw [checkStep_nil_iff, runCheck, runCheckFn_pass_iff]
    intro v hv
    have := h p.1 (zipIdx_mem_fst hp) v hv
    unfold Spec.valOk at this
    unfold elemOk
    by_cases hk : (p.1.ignoreNa && v.isNull) = true
    · simp [hk]
    · simp only [hk, Bool.false_eq_true, ↓reduceIte]
      simpa [hk] using this

/-- the implementation's dtype test agrees with dtype equality outside the recorded region -/
theorem dtypeOkImpl_eq (t phys : DType) (vals : List Val)
    (hfit : ∀ v ∈ vals, valFits phys v = true) (hK : K_C01_strVacuous t phys vals = false) :
    dtypeOkImpl t phys vals = Spec.dtypeOk t phys := by
  unfold dtypeOkImpl Spec.dtypeOk
  by_cases ht : t = .str
  · subst ht
    simp only [beq_self_eq_true, ↓reduceIte]
    by_cases hp : phys = .str
    · subst hp
      simp only [beq_self_eq_true, List.isEmpty_iff]
      unfold dtypeFailPositions
      rw [List.filterMap_eq_nil_iff]
      intro p hp
      have := hfit p.1 (zipIdx_mem_fst hp)
      cases hv : p.1 <;> simp_all [valFits, Val.kind?, Val.isNull]
    · have hne : (DType.str == phys) = false := by
        cases phys <;> simp_all
      rw [hne]
      unfold K_C01_strVacuous at hK
      simp only [beq_self_eq_true, Bool.true_and, Bool.and_eq_false_imp, bne_iff_ne, ne_eq] at hK
      have hex := hK hp
      simp only [List.all_eq_false] at hex
      obtain ⟨v, hv, hnn⟩ := hex
      obtain ⟨i, hi⟩ := mem_zipIdx_of_mem hv
      have hfv := hfit v hv
      have : i ∈ dtypeFailPositions vals := by
        unfold dtypeFailPositions
        simp only [List.mem_filterMap]
        refine ⟨(v, i), hi, ?_⟩
        cases v <;> simp_all [valFits, Val.kind?, Val.isNull]
      cases hd : dtypeFailPositions vals <;> simp_all
  · have : (t == DType.str) = false := by simpa using ht
    simp [this]

/-- field-level core checks report nothing exactly when the field satisfies its declaration -/
theorem fieldErrors_nil_iff (T : ScopeTable) (ctx : Ctx) (spec : ColSpec) (fn : Option String)
    (phys : DType) (vals : List Val)
    (hfit : ∀ v ∈ vals, valFits phys v = true)
    (hK : ∀ t, spec.dtype = some t → K_C01_strVacuous t phys vals = false) :
    fieldErrors T .schemaAndData ctx spec fn phys vals = [] ↔ Spec.fieldOk spec fn phys vals := by
  unfold fieldErrors Spec.fieldOk
  simp only [optRuns_sad, Bool.true_and, List.append_eq_nil_iff, ↓reduceIte, and_assoc]
  refine and_congr ?_ (and_congr ?_ (and_congr ?_ (and_congr ?_ ?_)))
  · cases hn : spec.name with
    | none => simp
    | some n => cases fn <;> simp
  · by_cases hnl : spec.nullable = true
    · simp [hnl]
    · have hnl' : spec.nullable = false := by simpa using hnl
      simp only [hnl', Bool.not_false, Bool.true_and, Bool.false_eq_true, false_or]
      have := truePositions_nil_iff (vals.map Val.isNull)
      cases hd : truePositions (List.map Val.isNull vals) with
      | nil =>
        simp only [List.isEmpty_nil, Bool.not_true, Bool.false_eq_true, ↓reduceIte, true_iff]
        intro v hv
        have h2 := this.mp hd (v.isNull) (List.mem_map.mpr ⟨v, hv, rfl⟩)
        exact h2
      | cons a l =>
        simp only [List.isEmpty_cons, Bool.not_false, ↓reduceIte, List.cons_ne_self, false_iff]
        intro hall
        rw [hd] at this
        have h3 : ∀ b ∈ List.map Val.isNull vals, b = false := by
          intro b hb
          obtain ⟨v, hv, rfl⟩ := List.mem_map.mp hb
          exact hall v hv
        exact absurd (this.mpr h3) (by simp)
  · by_cases hu : spec.unique = true
    · simp only [hu, Bool.true_and, forall_const]
      rw [← dupMask_allFalse_iff spec.reportDup, ← truePositions_nil_iff]
      cases hd : truePositions (dupMask spec.reportDup vals) <;> simp
    · simp [hu]
  · unfold dtypeErrs
    cases hd : spec.dtype with
    | none => simp
    | some t =>
      simp only [Option.some.injEq, forall_eq', Bool.true_and]
      rw [dtypeOkImpl_eq t phys vals hfit (hK t hd)]
      cases Spec.dtypeOk t phys <;> simp
  · exact checksSteps_nil_iff ctx fn vals spec.checks

end Pandera

import PanderaModel.Pandas
import PanderaModel.Spec
namespace Pandera

theorem truePositions_nil_iff (m : List Bool) : truePositions m = [] ↔ ∀ b ∈ m, b = false := by
  unfold truePositions
  rw [List.filterMap_eq_nil_iff]
  constructor
  · intro h b hb
    obtain ⟨i, hi, rfl⟩ := List.mem_iff_getElem.mp hb
    have := h (m[i], i) (by simp [List.mem_zipIdx_iff_getElem?])
    cases hm : m[i] <;> simp_all
  · intro h p hp
    have hm : p.1 ∈ m := by
      have := List.mem_zipIdx_iff_getElem?.mp (by simpa using hp)
      exact List.mem_of_getElem? this
    simp [h p.1 hm]

theorem Val.eqv_symm (a b : Val) : Val.eqv a b = Val.eqv b a := by
  cases a <;> cases b <;> simp [Val.eqv, Val.numKey] <;> exact Bool.beq_comm

theorem Val.same_symm (a b : Val) : Val.same a b = Val.same b a := by
  cases a <;> cases b <;> simp [Val.same, Val.eqv_symm]

end Pandera

namespace Pandera

section Dup
variable {α : Type} (same : α → α → Bool) (hsymm : ∀ a b, same a b = same b a)
include hsymm

theorem dupMaskAuxG_first (before xs : List α) :
    (∀ b ∈ dupMaskAuxG same .first before xs, b = false) ↔
      xs.Pairwise (fun a b => same a b = false) ∧ ∀ x ∈ xs, ∀ y ∈ before, same x y = false := by
  induction xs generalizing before with
  | nil => simp [dupMaskAuxG]
  | cons x after ih =>
    simp only [dupMaskAuxG, List.mem_cons, forall_eq_or_imp, ih, List.pairwise_cons,
      List.mem_append]
    constructor
    · rintro ⟨h1, h2, h3⟩
      simp only [List.any_eq_false] at h1
      refine ⟨⟨fun z hz => ?_, h2⟩, fun y hy => by simpa using h1 y hy, fun z hz y hy => h3 z hz y (Or.inl hy)⟩
      rw [hsymm]; exact h3 z hz x (Or.inr (Or.inl rfl))
    · rintro ⟨⟨h1, h2⟩, h3, h4⟩
      refine ⟨by simpa [List.any_eq_false] using h3, h2, fun z hz y hy => ?_⟩
      rcases hy with hy | rfl | hy
      · exact h4 z hz y hy
      · rw [hsymm]; exact h1 z hz
      · simp at hy

omit hsymm in
theorem dupMaskAuxG_last (before xs : List α) :
    (∀ b ∈ dupMaskAuxG same .last before xs, b = false) ↔ xs.Pairwise (fun a b => same a b = false) := by
  induction xs generalizing before with
  | nil => simp [dupMaskAuxG]
  | cons x after ih =>
    simp only [dupMaskAuxG, List.mem_cons, forall_eq_or_imp, ih, List.pairwise_cons]
    simp [List.any_eq_false]

theorem dupMaskAuxG_none (before xs : List α) :
    (∀ b ∈ dupMaskAuxG same .none before xs, b = false) ↔
      xs.Pairwise (fun a b => same a b = false) ∧ ∀ x ∈ xs, ∀ y ∈ before, same x y = false := by
  induction xs generalizing before with
  | nil => simp [dupMaskAuxG]
  | cons x after ih =>
    simp only [dupMaskAuxG, List.mem_cons, forall_eq_or_imp, ih, List.pairwise_cons,
      List.mem_append, Bool.or_eq_false_iff]
    constructor
    · rintro ⟨⟨h1, h1'⟩, h2, h3⟩
      simp only [List.any_eq_false] at h1 h1'
      refine ⟨⟨fun z hz => by simpa using h1' z hz, h2⟩, fun y hy => by simpa using h1 y hy,
        fun z hz y hy => h3 z hz y (Or.inl hy)⟩
    · rintro ⟨⟨h1, h2⟩, h3, h4⟩
      refine ⟨⟨by simpa [List.any_eq_false] using h3, by simpa [List.any_eq_false] using h1⟩, h2,
        fun z hz y hy => ?_⟩
      rcases hy with hy | rfl | hy
      · exact h4 z hz y hy
      · rw [hsymm]; exact h1 z hz
      · simp at hy

theorem dupMaskG_allFalse_iff (keep : Keep) (xs : List α) :
    (∀ b ∈ dupMaskAuxG same keep [] xs, b = false) ↔ xs.Pairwise (fun a b => same a b = false) := by
  cases keep
  · simpa using dupMaskAuxG_first same hsymm [] xs
  · exact dupMaskAuxG_last same [] xs
  · simpa using dupMaskAuxG_none same hsymm [] xs

end Dup

theorem sameRow_symm (a b : List Val) : sameRow a b = sameRow b a := by
  unfold sameRow
  induction a generalizing b with
  | nil => cases b <;> simp
  | cons x xs ih =>
    cases b with
    | nil => simp
    | cons y ys =>
      have := ih ys
      simp only [List.length_cons, Nat.add_right_cancel_iff, List.zip_cons_cons, List.all_cons] at this ⊢
      rw [Val.same_symm x y]
      cases hxy : Val.same y x
      · simp
      · simp only [Bool.true_and]
        simpa [Nat.succ_inj] using this

/-- whatever `report_duplicates` says, the mask is all-false exactly when the values are distinct -/
theorem dupMask_allFalse_iff (keep : Keep) (xs : List Val) :
    (∀ b ∈ dupMask keep xs, b = false) ↔ Spec.distinct xs :=
  dupMaskG_allFalse_iff Val.same Val.same_symm keep xs

theorem dupRowMask_allFalse_iff (keep : Keep) (rows : List (List Val)) :
    (∀ b ∈ dupRowMask keep rows, b = false) ↔ Spec.rowsDistinct rows :=
  dupMaskG_allFalse_iff sameRow sameRow_symm keep rows

end Pandera

namespace Pandera

@[simp] theorem optRuns_sad (s : Option Scope) : optRuns s .schemaAndData = true := by
  cases s with
  | none => rfl
  | some s => cases s <;> rfl

theorem zipIdx_mem_fst {α} {xs : List α} {p : α × Nat} (h : p ∈ xs.zipIdx) : p.1 ∈ xs := by
  have := List.mem_zipIdx_iff_getElem?.mp (by simpa using h)
  exact List.mem_of_getElem? this

theorem mem_zipIdx_of_mem {α} {xs : List α} {v : α} (h : v ∈ xs) : ∃ i, (v, i) ∈ xs.zipIdx := by
  obtain ⟨i, hi, rfl⟩ := List.mem_iff_getElem.mp h
  exact ⟨i, by simp [List.mem_zipIdx_iff_getElem?]⟩

/-- the check backend passes exactly when every element passes (for every check function) -/
theorem runCheckFn_pass_iff (f : Val → Option Bool) (ign : Bool) (vals : List Val) :
    runCheckFn f ign vals = .fails [] ↔ ∀ v ∈ vals, elemOk f ign v = some true := by
  unfold runCheckFn
  simp only
  split
  · rename_i h
    simp only [List.any_eq_true, List.mem_map, List.mem_filter] at h
    obtain ⟨o, ⟨p, ⟨hp, hk⟩, rfl⟩, ho⟩ := h
    constructor
    · intro hc; cases hc
    · intro hall
      have := hall p.1 (zipIdx_mem_fst hp)
      unfold elemOk at this
      simp only [Bool.not_eq_true'] at hk
      simp only [hk, Bool.false_eq_true, ↓reduceIte] at this
      simp [this] at ho
  · rename_i h
    simp only [CheckOut.fails.injEq, List.filterMap_eq_nil_iff]
    simp only [List.any_eq_true, List.mem_map, List.mem_filter, not_exists, not_and] at h
    constructor
    · intro hall v hv
      obtain ⟨i, hp⟩ := mem_zipIdx_of_mem hv
      unfold elemOk
      by_cases hk : (ign && v.isNull) = true
      · simp [hk]
      · simp only [hk, Bool.false_eq_true, ↓reduceIte]
        have hk' : (!(ign && v.isNull)) = true := by
          cases hb : (ign && v.isNull) <;> simp_all
        have hmem : (f v, i) ∈ List.map (fun p => (f p.1, p.2))
            (List.filter (fun p => !(ign && p.1.isNull)) vals.zipIdx) := by
          simp only [List.mem_map, List.mem_filter]
          exact ⟨(v, i), ⟨hp, hk'⟩, rfl⟩
        have h1 := hall (f v, i) hmem
        have h2 := h (f v, i) ⟨(v, i), ⟨hp, hk'⟩, rfl⟩
        cases hf : f v with
        | none => simp [hf] at h2
        | some b => cases b <;> simp_all
    · intro hall o ho
      simp only [List.mem_map, List.mem_filter] at ho
      obtain ⟨p, ⟨hp, hk⟩, rfl⟩ := ho
      have := hall p.1 (zipIdx_mem_fst hp)
      unfold elemOk at this
      simp only [Bool.not_eq_true'] at hk
      simp only [hk, Bool.false_eq_true, ↓reduceIte] at this
      simp [this]

end Pandera

import PanderaModel.Polars
import PanderaModel.Lemmas.Cells
/-!
# The polars pipeline against the pandas pipeline: step lemmas
-/
namespace Pandera
namespace Polars

theorem isNull_eq_true {v : Val} (h : v.isNull = true) : v = .null := by
  cases v <;> simp_all [Val.isNull]

/-- the two check backends on an arbitrary list of (value, position) pairs -/
theorem outs_agree (f : Val → Option Bool) (ign : Bool) (h : ign = true ∨ f .null = some false)
    (l : List (Val × Nat)) :
    ((l.map (fun p => (elemOk f ign p.1, p.2))).any (fun o => o.1.isNone)
      = ((l.filter (fun p => !(ign && p.1.isNull))).map (fun p => (f p.1, p.2))).any (fun o => o.1.isNone))
    ∧ ((l.map (fun p => (elemOk f ign p.1, p.2))).filterMap (fun o => if o.1 == some false then some o.2 else none)
      = ((l.filter (fun p => !(ign && p.1.isNull))).map (fun p => (f p.1, p.2))).filterMap
          (fun o => if o.1 == some false then some o.2 else none)) := by
  induction l with
  | nil => simp
  | cons p l ih =>
    obtain ⟨ih1, ih2⟩ := ih
    cases hn : p.1.isNull with
    | false =>
      have hk : (!(ign && p.1.isNull)) = true := by simp [hn]
      have he : elemOk f ign p.1 = f p.1 := by simp [elemOk, hn]
      simp only [List.map_cons, List.any_cons, List.filterMap_cons, List.filter_cons, hk, if_true, he]
      exact ⟨by rw [ih1], by rw [ih2]⟩
    | true =>
      have hv := isNull_eq_true hn
      cases ign with
      | true =>
        have hk : (!(true && p.1.isNull)) = false := by simp [hn]
        have he : elemOk f true p.1 = some true := by simp [elemOk, hn]
        simp only [List.map_cons, List.any_cons, List.filterMap_cons, List.filter_cons, hk, he]
        refine ⟨by simpa using ih1, ?_⟩
        simpa using ih2
      | false =>
        have hf : f p.1 = some false := by
          rcases h with h | h
          · cases h
          · rw [hv]; exact h
        have hk : (!(false && p.1.isNull)) = true := by simp
        have he : elemOk f false p.1 = some false := by simp [elemOk, hn]
        simp only [List.map_cons, List.any_cons, List.filterMap_cons, List.filter_cons, hk, if_true, he, hf]
        exact ⟨by rw [ih1], by rw [ih2]⟩

/-- **the check backends agree on every column**, for every check function that is false on a missing
value — and for every check function at all under `ignore_na` -/
theorem runCheckFn_agree (f : Val → Option Bool) (ign : Bool) (vals : List Val)
    (h : ign = true ∨ f .null = some false) :
    Polars.runCheckFn f ign vals = Pandera.runCheckFn f ign vals := by
  obtain ⟨h1, h2⟩ := outs_agree f ign h vals.zipIdx
  unfold Polars.runCheckFn Pandera.runCheckFn
  simp only [h1, h2]

/-- under `ignore_na` no failure case of the pandas backend is a null, so dropping the null cells
(`reshape_failure_cases`) changes nothing -/
theorem dropNullCells_fails (f : Val → Option Bool) (vals : List Val) (ps : List Nat) (label : Option String)
    (h : Pandera.runCheckFn f true vals = .fails ps) :
    dropNullCells (cellsAt label vals ps) = cellsAt label vals ps := by
  unfold dropNullCells
  rw [List.filter_eq_self]
  intro c hc
  obtain ⟨_, hp, hv⟩ := (mem_cellsAt_iff label vals ps c).mp hc
  obtain ⟨v, hv1, hv2, _⟩ := (runCheckFn_fails_mem f true vals ps h c.pos).mp hp
  have : vals.getD c.pos .null = v := by simp [List.getD, hv1]
  rw [hv, this]
  simpa using hv2

theorem checkStep_agree (label : Option String) (vals : List Val) (ix : Nat) (c : CheckSpec)
    (h : c.ignoreNa = true ∨ docPred c.b .null = some false) :
    Polars.checkStep label vals ix c = Pandera.checkStep .column label vals ix c := by
  have hr : Polars.runCheck c vals = Pandera.runCheck c vals := runCheckFn_agree _ _ _ h
  unfold Polars.checkStep Pandera.checkStep
  rw [hr]
  cases hq : Pandera.runCheck c vals with
  | raised => rfl
  | fails ps =>
    cases ps with
    | nil => rfl
    | cons p ps =>
      cases hi : c.ignoreNa with
      | false => simp [hi]
      | true =>
        have : Pandera.runCheckFn (docPred c.b) true vals = .fails (p :: ps) := by
          unfold Pandera.runCheck at hq; rw [hi] at hq; exact hq
        simp only [hi, if_true]
        rw [dropNullCells_fails _ _ _ label this]

theorem checksSteps_agree (label : Option String) (vals : List Val) (cs : List CheckSpec)
    (h : ∀ c ∈ cs, c.ignoreNa = true ∨ docPred c.b .null = some false) :
    Polars.checksSteps label vals cs = Pandera.checksSteps .column label vals cs := by
  unfold Polars.checksSteps Pandera.checksSteps
  congr 1
  apply List.map_congr_left
  intro p hp
  exact checkStep_agree label vals p.2 p.1 (h p.1 (zipIdx_mem_fst hp))

end Polars
end Pandera

import PanderaModel.Schema
/-!
# Configuration: environment parsing, `config_context`, validation depth selection
-/
namespace Pandera

structure Cfg where
  enabled : Bool
  depth : Option Depth
  cache : Bool
  keep : Bool
  deriving Repr, DecidableEq, Inhabited

/-- keyword arguments of `config_context` (None = leave as is) -/
structure CtxOpts where
  enabled : Option Bool
  depth : Option Depth
  cache : Option Bool
  keep : Option Bool
  deriving Repr, DecidableEq, Inhabited

def applyOpts (c : Cfg) (o : CtxOpts) : Cfg :=
  { enabled := o.enabled.getD c.enabled
    depth := match o.depth with | some d => some d | none => c.depth
    cache := o.cache.getD c.cache
    keep := o.keep.getD c.keep }

/-- programs over the context configuration: nested `with config_context(...)` blocks,
observation points (`get_config_context(validation_depth_default=None)`), raising statements -/
inductive Prog
  | skip
  | raise
  | observe
  | seq (a b : Prog)
  | ctx (o : CtxOpts) (body : Prog)
  | catch (body : Prog)           -- `try: body except: pass`
  deriving Repr, Inhabited

structure RunOut where
  ctx : Cfg                -- `_CONTEXT_CONFIG` afterwards
  raised : Bool
  seen : List Cfg          -- what every observation point saw, in order
  deriving Repr, DecidableEq

/-- `config_context`: save the outer context, override, run the body, and in `finally`
reset the context to the saved copy -/
def Prog.run : Prog → Cfg → RunOut
  | .skip, c => ⟨c, false, []⟩
  | .raise, c => ⟨c, true, []⟩
  | .observe, c => ⟨c, false, [c]⟩
  | .seq a b, c =>
    let ra := a.run c
    if ra.raised then ra else
      let rb := b.run ra.ctx
      ⟨rb.ctx, rb.raised, ra.seen ++ rb.seen⟩
  | .ctx o body, c =>
    let outer := c
    let r := body.run (applyOpts c o)
    ⟨outer, r.raised, r.seen⟩
  | .catch body, c =>
    let r := body.run c
    ⟨r.ctx, false, r.seen⟩

/-! ### environment variables -/

inductive EnvB
  | lit (b : Bool)
  | eqStr (var : String) (dflt : Option String) (s : String)   -- `os.environ.get(var, dflt) == s`
  | neStr (var : String) (dflt : Option String) (s : String)
  | or (a b : EnvB)
  | and (a b : EnvB)
  | not (a : EnvB)
  | unsupported
  deriving Repr, DecidableEq, Inhabited

abbrev Env := String → Option String

def envGet (env : Env) (var : String) (dflt : Option String) : Option String :=
  match env var with
  | some v => some v
  | none => dflt

def EnvB.eval (env : Env) : EnvB → Option Bool
  | .lit b => some b
  | .eqStr var d s => some (envGet env var d == some s)
  | .neStr var d s => some (envGet env var d != some s)
  | .or a b => match a.eval env, b.eval env with
    | some x, some y => some (x || y)
    | _, _ => none
  | .and a b => match a.eval env, b.eval env with
    | some x, some y => some (x && y)
    | _, _ => none
  | .not a => (a.eval env).map (!·)
  | .unsupported => none

def depthOfString : String → Option Depth
  | "SCHEMA_ONLY" => some .schemaOnly
  | "DATA_ONLY" => some .dataOnly
  | "SCHEMA_AND_DATA" => some .schemaAndData
  | _ => none

/-! ### validation depth selection -/

/-- `get_validation_depth` of the polars API: context setting, then global setting, then the
default by container kind -/
def polarsDepth (isLazy : Bool) (ctx glob : Cfg) : Depth :=
  match ctx.depth with
  | some d => d
  | none => match glob.depth with
    | some d => d
    | none => if isLazy then .schemaOnly else .schemaAndData

/-- pandas: `get_config_context()` with `SCHEMA_AND_DATA` as the default -/
def pandasDepth (ctx : Cfg) : Depth := ctx.depth.getD .schemaAndData

end Pandera

/-!
# Dtype registries as tables, and the coherence clauses of C09 as decidable checks over them
-/
namespace Pandera.Registry

inductive Kind
  | other | bool | int | float | complex | timedelta | date | datetime | decimal | category | string | binary
  deriving Repr, DecidableEq, Inhabited

/-- one distinct resolved data type of an engine -/
structure DRow where
  id : Nat
  cls : String
  kind : Kind
  signed : Option Bool
  bits : Option Nat
  primitive : Bool            -- numbers, booleans, strings, object, dates/times, categories (+ nullable / pyarrow variants)
  re : Option Nat             -- id of `E.dtype(t)`
  restr : Option Nat          -- id of `E.dtype(str(t))`
  hashStable : Bool           -- hash(E.dtype(t)) == hash(t)
  deriving Repr, DecidableEq, Inhabited

/-- one key of the equivalents registry -/
structure KRow where
  group : Nat                 -- keys registered together (documented as equivalent)
  resolved : Option Nat       -- id of `E.dtype(key)`
  hash : Option Int
  deriving Repr, DecidableEq, Inhabited

/-- every accepted spelling resolves -/
def keysResolve (ks : List KRow) : Bool := ks.all (fun k => k.resolved.isSome)

/-- resolving a resolved type again returns an equal, equally hashed object -/
def resolveIdempotent (ds : List DRow) : Bool := ds.all (fun r => r.re == some r.id && r.hashStable)

/-- spellings documented as equivalent resolve to equal, equally hashed objects -/
def groupsCoherent (ks : List KRow) : Bool :=
  ks.all (fun a => ks.all (fun b => a.group != b.group || (a.resolved == b.resolved && a.hash == b.hash)))

/-- the printed name of every primitive type resolves back to an equal type -/
def printRoundtrip (excl : DRow → Bool) (ds : List DRow) : Bool :=
  ds.all (fun r => !r.primitive || excl r || r.restr == some r.id)

def cell (m : List (List Bool)) (a b : Nat) : Bool := (m.getD a []).getD b false

/-- a resolved type recognises itself -/
def checkReflexive (excl : DRow → Bool) (ds : List DRow) (m : List (List Bool)) : Bool :=
  ds.all (fun r => excl r || cell m r.id r.id)

def physical (r : DRow) : Bool :=
  r.kind == .int || r.kind == .float || r.kind == .complex || r.kind == .bool
    || r.kind == .datetime || r.kind == .timedelta || r.kind == .date

/-- a numeric, boolean or temporal type never recognises a type of another kind, signedness or width -/
def checkRespectsKind (excl : DRow → Bool) (ds : List DRow) (m : List (List Bool)) : Bool :=
  ds.all (fun a => !physical a || excl a ||
    ds.all (fun b => !cell m a.id b.id || (a.kind == b.kind && a.signed == b.signed && a.bits == b.bits)))

/-! ### intensional: the numeric families of `pandera.dtypes` for every bit width -/

structure NumT where
  kind : Kind
  signed : Bool
  bits : Nat
  deriving Repr, DecidableEq

/-- `_PhysicalNumber.__eq__` / `Int.check` / `Float.check`: same family class, same parameters -/
def numCheck (a b : NumT) : Bool := a.kind == b.kind && a.signed == b.signed && a.bits == b.bits

theorem numCheck_refl (a : NumT) : numCheck a a = true := by simp [numCheck]

theorem numCheck_iff (a b : NumT) : numCheck a b = true ↔ a = b := by
  cases a; cases b; simp [numCheck]; constructor <;> intro h <;> simp_all

end Pandera.Registry

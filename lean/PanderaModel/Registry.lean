/-!
# Dtype registries as tables, and the coherence clauses of C09 as decidable checks over them
-/
namespace Pandera.Registry

inductive Kind
  | other | bool | int | float | complex | timedelta | date | datetime | decimal | category | string | binary
  deriving Repr, DecidableEq, Inhabited

/-- one distinct resolved data type of an engine -/
structure DRow where
  id : Nat
  cls : String
  kind : Kind
  signed : Option Bool
  bits : Option Nat
  primitive : Bool            -- numbers, booleans, strings, object, dates/times, categories (+ nullable / pyarrow variants)
  re : Option Nat             -- id of `E.dtype(t)`
  restr : Option Nat          -- id of `E.dtype(str(t))`
  hashStable : Bool           -- hash(E.dtype(t)) == hash(t)
  deriving Repr, DecidableEq, Inhabited

/-- one key of the equivalents registry -/
structure KRow where
  group : Nat                 -- keys registered together (documented as equivalent)
  resolved : Option Nat       -- id of `E.dtype(key)`
  hash : Option Int
  deriving Repr, DecidableEq, Inhabited

/-- every accepted spelling resolves -/
def keysResolve (ks : List KRow) : Bool := ks.all (fun k => k.resolved.isSome)

/-- resolving a resolved type again returns an equal, equally hashed object -/
def resolveIdempotent (ds : List DRow) : Bool := ds.all (fun r => r.re == some r.id && r.hashStable)

/-- spellings documented as equivalent resolve to equal, equally hashed objects -/
def groupsCoherent (ks : List KRow) : Bool :=
  ks.all (fun a => ks.all (fun b => a.group != b.group || (a.resolved == b.resolved && a.hash == b.hash)))

/-- the printed name of every primitive type resolves back to an equal type -/
def printRoundtrip (excl : DRow → Bool) (ds : List DRow) : Bool :=
  ds.all (fun r => !r.primitive || excl r || r.restr == some r.id)

def cell (m : List (List Bool)) (a b : Nat) : Bool := (m.getD a []).getD b false

/-- a resolved type recognises itself -/
def checkReflexive (excl : DRow → Bool) (ds : List DRow) (m : List (List Bool)) : Bool :=
  ds.all (fun r => excl r || cell m r.id r.id)

def physical (r : DRow) : Bool :=
  r.kind == .int || r.kind == .float || r.kind == .complex || r.kind == .bool
    || r.kind == .datetime || r.kind == .timedelta || r.kind == .date

/-- a numeric, boolean or temporal type never recognises a type of another kind, signedness or width -/
def checkRespectsKind (excl : DRow → Bool) (ds : List DRow) (m : List (List Bool)) : Bool :=
  ds.all (fun a => !physical a || excl a ||
    ds.all (fun b => !cell m a.id b.id || (a.kind == b.kind && a.signed == b.signed && a.bits == b.bits)))

/-! ### the table checks read as quantified statements (lifting lemmas) -/

/-- every key's resolved id is a row of the engine's table of distinct resolved types (ids are positions
in that table by construction of the translator; a key that does not resolve fails this too) -/
def keysClosed (ks : List KRow) (ds : List DRow) : Bool :=
  ks.all (fun k => match k.resolved with
    | some i => ds.any (fun r => r.id == i)
    | none => false)

theorem keysClosed_resolve (ks : List KRow) (ds : List DRow) (h : keysClosed ks ds = true) :
    keysResolve ks = true := by
  simp only [keysClosed, keysResolve, List.all_eq_true] at *
  intro k hk
  have := h k hk
  cases hr : k.resolved with
  | none => simp [hr] at this
  | some i => simp

/-- `E.dtype(E.dtype(k)) == E.dtype(k)`, hashes equal — for every key of the table -/
theorem resolve_fixed_forall (ks : List KRow) (ds : List DRow)
    (hc : keysClosed ks ds = true) (hi : resolveIdempotent ds = true) :
    ∀ k ∈ ks, ∃ r ∈ ds, k.resolved = some r.id ∧ r.re = some r.id ∧ r.hashStable = true := by
  simp only [keysClosed, resolveIdempotent, List.all_eq_true] at *
  intro k hk
  have h1 := hc k hk
  cases hr : k.resolved with
  | none => simp [hr] at h1
  | some i =>
    simp only [hr, List.any_eq_true, beq_iff_eq] at h1
    obtain ⟨r, hr1, hr2⟩ := h1
    have h2 := hi r hr1
    simp only [Bool.and_eq_true, beq_iff_eq] at h2
    exact ⟨r, hr1, by rw [hr2], h2.1, h2.2⟩

/-- `k1 ~ k2 ⇒ E.dtype(k1) == E.dtype(k2)` and equal hashes — for every pair of keys -/
theorem groups_forall (ks : List KRow) (h : groupsCoherent ks = true) :
    ∀ a ∈ ks, ∀ b ∈ ks, a.group = b.group → a.resolved = b.resolved ∧ a.hash = b.hash := by
  simp only [groupsCoherent, List.all_eq_true] at h
  intro a ha b hb hg
  have := h a ha b hb
  simp only [Bool.or_eq_true, bne_iff_ne, ne_eq, Bool.and_eq_true, beq_iff_eq] at this
  rcases this with h1 | h1
  · exact absurd hg h1
  · exact h1

/-- `t1.check(t2) ⇒ (kind, signedness, width) equal` for physical `t1` — for every ordered pair of rows -/
theorem respectsKind_forall (excl : DRow → Bool) (ds : List DRow) (m : List (List Bool))
    (h : checkRespectsKind excl ds m = true) :
    ∀ a ∈ ds, physical a = true → excl a = false → ∀ b ∈ ds, cell m a.id b.id = true →
      a.kind = b.kind ∧ a.signed = b.signed ∧ a.bits = b.bits := by
  simp only [checkRespectsKind, List.all_eq_true] at h
  intro a ha hp he b hb hc
  have h1 := h a ha
  simp only [hp, he, Bool.not_true, Bool.false_or, List.all_eq_true] at h1
  have h2 := h1 b hb
  simp only [hc, Bool.not_true, Bool.false_or, Bool.and_eq_true, beq_iff_eq] at h2
  exact ⟨h2.1.1, h2.1.2, h2.2⟩

/-- `t.check(t)` — for every row outside the excluded ones -/
theorem reflexive_forall (excl : DRow → Bool) (ds : List DRow) (m : List (List Bool))
    (h : checkReflexive excl ds m = true) :
    ∀ r ∈ ds, excl r = false → cell m r.id r.id = true := by
  simp only [checkReflexive, List.all_eq_true] at h
  intro r hr he
  have := h r hr
  simpa [he] using this

/-- `E.dtype(str(t)) == t` — for every primitive row outside the excluded ones -/
theorem printRoundtrip_forall (excl : DRow → Bool) (ds : List DRow) (h : printRoundtrip excl ds = true) :
    ∀ r ∈ ds, r.primitive = true → excl r = false → r.restr = some r.id := by
  simp only [printRoundtrip, List.all_eq_true] at h
  intro r hr hp he
  have := h r hr
  simpa [hp, he] using this

/-! ### intensional: the numeric families of `pandera.dtypes` for every bit width -/

structure NumT where
  kind : Kind
  signed : Bool
  bits : Nat
  deriving Repr, DecidableEq

/-- `_PhysicalNumber.__eq__` / `Int.check` / `Float.check`: same family class, same parameters -/
def numCheck (a b : NumT) : Bool := a.kind == b.kind && a.signed == b.signed && a.bits == b.bits

theorem numCheck_refl (a : NumT) : numCheck a a = true := by simp [numCheck]

theorem numCheck_iff (a b : NumT) : numCheck a b = true ↔ a = b := by
  cases a; cases b; simp [numCheck]; constructor <;> intro h <;> simp_all

end Pandera.Registry

/-!
# Ownership / aliasing model for "validation never modifies the caller's data"

Objects live in a heap; variables hold references.  A validate entry point is a small program
over: `copy v` (`v = v.copy()`), `fresh d` (`d = <new object>`), `assign d s` (`d = s`, same
object), `mutate v` (any in-place write through `v`: `v.index = …`, `v[col] = …`,
`v.drop(inplace=True)`, passing `v` on with `inplace=True`), sequencing, branching, loops.

`safe` is a may-alias-free ownership analysis: it tracks the variables that certainly hold an
object allocated during this call and accepts a `mutate v` only for those.  `safe_sound` proves
that an accepted program never changes any object that existed on entry — in particular the
caller's argument — on any path.
-/
namespace Pandera.Alias

inductive AStmt
  | skip
  | copy (v : Nat)
  | fresh (d : Nat)
  | assign (d s : Nat)
  | mutate (v : Nat)
  | seq (a b : AStmt)
  | choice (a b : AStmt)
  | loop (b : AStmt)
  deriving Repr, DecidableEq, Inhabited

structure St where
  env : Nat → Nat          -- variable ↦ reference
  heap : Nat → Nat         -- reference ↦ content version
  next : Nat               -- next unused reference

def updF (f : Nat → Nat) (i v : Nat) : Nat → Nat := fun j => if j = i then v else f j

inductive Exec : AStmt → St → St → Prop
  | skip (s) : Exec .skip s s
  | copy (v) (s : St) :
      Exec (.copy v) s ⟨updF s.env v s.next, updF s.heap s.next (s.heap (s.env v)), s.next + 1⟩
  | fresh (d) (s : St) (c : Nat) :
      Exec (.fresh d) s ⟨updF s.env d s.next, updF s.heap s.next c, s.next + 1⟩
  | assign (d src) (s : St) : Exec (.assign d src) s ⟨updF s.env d (s.env src), s.heap, s.next⟩
  | mutate (v) (s : St) (c : Nat) : Exec (.mutate v) s ⟨s.env, updF s.heap (s.env v) c, s.next⟩
  | seq {a b s s' s''} : Exec a s s' → Exec b s' s'' → Exec (.seq a b) s s''
  | chL {a b s s'} : Exec a s s' → Exec (.choice a b) s s'
  | chR {a b s s'} : Exec b s s' → Exec (.choice a b) s s'
  | loop0 {b} (s) : Exec (.loop b) s s
  | loopS {b s s' s''} : Exec b s s' → Exec (.loop b) s' s'' → Exec (.loop b) s s''

/-- `safe s F` = the set of certainly-fresh variables after `s`, or `none` if `s` may write through
a variable that is not certainly fresh -/
def safe : AStmt → List Nat → Option (List Nat)
  | .skip, F => some F
  | .copy v, F => some (v :: F)
  | .fresh d, F => some (d :: F)
  | .assign d s, F => some (if F.contains s then d :: F else F.filter (· != d))
  | .mutate v, F => if F.contains v then some F else none
  | .seq a b, F => match safe a F with | some F' => safe b F' | none => none
  | .choice a b, F =>
    match safe a F, safe b F with
    | some Fa, some Fb => some (Fa.filter (fun v => Fb.contains v))
    | _, _ => none
  | .loop b, F =>
    -- accept only if `F` is preserved by the body (a post-fixpoint)
    match safe b F with
    | some F' => if F.all (fun v => F'.contains v) then some F else none
    | none => none

/-- invariant: everything below `base` is as on entry; fresh variables point at or above `base` -/
def Inv (base : Nat) (h0 : Nat → Nat) (F : List Nat) (s : St) : Prop :=
  base ≤ s.next ∧ (∀ r, r < base → s.heap r = h0 r) ∧ (∀ v ∈ F, base ≤ s.env v ∧ s.env v < s.next)

theorem inv_mono {base h0 F G s} (h : Inv base h0 F s) (hsub : ∀ v ∈ G, v ∈ F) : Inv base h0 G s :=
  ⟨h.1, h.2.1, fun v hv => h.2.2 v (hsub v hv)⟩

theorem safe_sound_aux {p : AStmt} {s s' : St} (hex : Exec p s s') :
    ∀ (base : Nat) (h0 : Nat → Nat) (F F' : List Nat), safe p F = some F' → Inv base h0 F s → Inv base h0 F' s' := by
  induction hex with
  | skip s => intro base h0 F F' hs hi; simp [safe] at hs; subst hs; exact hi
  | copy v s =>
    intro base h0 F F' hs hi
    simp [safe] at hs; subst hs
    obtain ⟨h1, h2, h3⟩ := hi
    refine ⟨by simp; omega, ?_, ?_⟩
    · intro r hr
      have : r ≠ s.next := by omega
      simp [updF, this, h2 r hr]
    · intro w hw
      rcases List.mem_cons.mp hw with rfl | hw
      · simp [updF]; omega
      · have := h3 w hw
        by_cases hwv : w = v
        · subst hwv; simp [updF]; omega
        · simp [updF, hwv]; omega
  | fresh d s c =>
    intro base h0 F F' hs hi
    simp [safe] at hs; subst hs
    obtain ⟨h1, h2, h3⟩ := hi
    refine ⟨by simp; omega, ?_, ?_⟩
    · intro r hr
      have : r ≠ s.next := by omega
      simp [updF, this, h2 r hr]
    · intro w hw
      rcases List.mem_cons.mp hw with rfl | hw
      · simp [updF]; omega
      · have := h3 w hw
        by_cases hwd : w = d
        · subst hwd; simp [updF]; omega
        · simp [updF, hwd]; omega
  | assign d src s =>
    intro base h0 F F' hs hi
    simp only [safe, Option.some.injEq] at hs
    obtain ⟨h1, h2, h3⟩ := hi
    refine ⟨h1, h2, ?_⟩
    intro w hw
    by_cases hc : F.contains src = true
    · simp only [hc, ↓reduceIte] at hs
      subst hs
      have hsrc := h3 src (by simpa using hc)
      rcases List.mem_cons.mp hw with rfl | hw
      · simp [updF]; exact hsrc
      · by_cases hwd : w = d
        · subst hwd; simp [updF]; exact hsrc
        · simp [updF, hwd]; exact h3 w hw
    · simp only [hc, Bool.false_eq_true, ↓reduceIte] at hs
      subst hs
      simp only [List.mem_filter, bne_iff_ne, ne_eq] at hw
      simp [updF, hw.2]; exact h3 w hw.1
  | mutate v s c =>
    intro base h0 F F' hs hi
    simp only [safe] at hs
    by_cases hc : F.contains v = true
    · simp only [hc, ↓reduceIte, Option.some.injEq] at hs
      subst hs
      obtain ⟨h1, h2, h3⟩ := hi
      have hv := h3 v (by simpa using hc)
      refine ⟨h1, ?_, h3⟩
      intro r hr
      have : r ≠ s.env v := by omega
      simp [updF, this, h2 r hr]
    · exfalso
      have hc' : F.contains v = false := by simpa using hc
      rw [hc'] at hs
      simp at hs
  | @seq a b s s1 s2 _ _ iha ihb =>
    intro base h0 F F' hs hi
    simp only [safe] at hs
    cases ha : safe a F with
    | none => simp [ha] at hs
    | some Fa =>
      simp only [ha] at hs
      exact ihb base h0 Fa F' hs (iha base h0 F Fa ha hi)
  | @chL a b s s1 _ ih =>
    intro base h0 F F' hs hi
    simp only [safe] at hs
    cases ha : safe a F with
    | none => simp [ha] at hs
    | some Fa =>
      cases hb : safe b F with
      | none => simp [ha, hb] at hs
      | some Fb =>
        simp only [ha, hb, Option.some.injEq] at hs
        subst hs
        exact inv_mono (ih base h0 F Fa ha hi) (fun v hv => (List.mem_filter.mp hv).1)
  | @chR a b s s1 _ ih =>
    intro base h0 F F' hs hi
    simp only [safe] at hs
    cases ha : safe a F with
    | none => simp [ha] at hs
    | some Fa =>
      cases hb : safe b F with
      | none => simp [ha, hb] at hs
      | some Fb =>
        simp only [ha, hb, Option.some.injEq] at hs
        subst hs
        exact inv_mono (ih base h0 F Fb hb hi)
          (fun v hv => by simpa using (List.mem_filter.mp hv).2)
  | @loop0 b s =>
    intro base h0 F F' hs hi
    simp only [safe] at hs
    cases hb : safe b F with
    | none => simp [hb] at hs
    | some Fb =>
      simp only [hb] at hs
      split at hs
      · simp only [Option.some.injEq] at hs; subst hs; exact hi
      · cases hs
  | @loopS b s s1 s2 _ _ ihb ihl =>
    intro base h0 F F' hs hi
    have hs' := hs
    simp only [safe] at hs
    cases hb : safe b F with
    | none => simp [hb] at hs
    | some Fb =>
      simp only [hb] at hs
      split at hs
      · rename_i hall
        simp only [Option.some.injEq] at hs; subst hs
        have h1 := ihb base h0 F Fb hb hi
        have h2 : Inv base h0 F s1 := inv_mono h1 (fun v hv => by
          have := List.all_eq_true.mp hall v hv
          simpa using this)
        exact ihl base h0 F F hs' h2
      · cases hs

/-- **soundness**: a program accepted from the empty ownership set leaves every object that
existed on entry exactly as it was, on every execution -/
theorem safe_sound {p : AStmt} {F' : List Nat} (h : safe p [] = some F') {s s' : St}
    (hex : Exec p s s') : ∀ r, r < s.next → s'.heap r = s.heap r := by
  have hi : Inv s.next s.heap [] s := ⟨Nat.le_refl _, fun _ _ => rfl, by simp⟩
  exact (safe_sound_aux hex s.next s.heap [] F' h hi).2.1

def isSafe (p : AStmt) : Bool := (safe p []).isSome

theorem isSafe_sound {p : AStmt} (h : isSafe p = true) {s s' : St} (hex : Exec p s s') :
    ∀ r, r < s.next → s'.heap r = s.heap r := by
  unfold isSafe at h
  obtain ⟨F', hF⟩ := Option.isSome_iff_exists.mp h
  exact safe_sound hF hex

/-! ### histories of calls

Each call of an entry point starts with its own frame: which variables are bound to which
objects (`env`) is arbitrary at the start of every call (the caller may have rebound anything in
between), the heap and the allocation counter are carried over. -/

theorem exec_next_mono {p : AStmt} {s s' : St} (hex : Exec p s s') : s.next ≤ s'.next := by
  induction hex with
  | skip s => exact Nat.le_refl _
  | copy v s => exact Nat.le_succ _
  | fresh d s c => exact Nat.le_succ _
  | assign d src s => exact Nat.le_refl _
  | mutate v s c => exact Nat.le_refl _
  | seq _ _ iha ihb => exact Nat.le_trans iha ihb
  | chL _ ih => exact ih
  | chR _ ih => exact ih
  | loop0 s => exact Nat.le_refl _
  | loopS _ _ ihb ihl => exact Nat.le_trans ihb ihl

/-- a history of calls: the programs `ps` executed one after another, each from an arbitrary frame -/
inductive Hist : List AStmt → St → St → Prop
  | nil (s) : Hist [] s s
  | cons {p ps s s' s''} (env' : Nat → Nat) :
      Exec p ⟨env', s.heap, s.next⟩ s' → Hist ps s' s'' → Hist (p :: ps) s s''

/-- **every history**: after any sequence of calls of accepted programs, of any length and in any
order, every object that existed before the first call is exactly as it was -/
theorem hist_untouched {ps : List AStmt} {s s' : St} (hh : Hist ps s s')
    (hall : ∀ p ∈ ps, isSafe p = true) : s.next ≤ s'.next ∧ ∀ r, r < s.next → s'.heap r = s.heap r := by
  induction hh with
  | nil s => exact ⟨Nat.le_refl _, fun _ _ => rfl⟩
  | @cons p ps s s1 s2 env' hex _ ih =>
    have hp := hall p (List.mem_cons_self ..)
    have h1 := isSafe_sound hp hex
    have hn := exec_next_mono hex
    have ⟨h2n, h2⟩ := ih (fun q hq => hall q (List.mem_cons_of_mem _ hq))
    refine ⟨Nat.le_trans hn h2n, fun r hr => ?_⟩
    have hr1 : r < s1.next := Nat.lt_of_lt_of_le hr hn
    rw [h2 r hr1]
    exact h1 r hr

/-- accepted programs may be repeated: `loop p` is accepted whenever `p` is -/
theorem isSafe_loop {p : AStmt} (h : isSafe p = true) : isSafe (.loop p) = true := by
  unfold isSafe at *
  obtain ⟨F', hF⟩ := Option.isSome_iff_exists.mp h
  simp [safe, hF]

/-- an accepted program never *frees* the analysis from a write: a program containing a write
through a variable it never made fresh is rejected (completeness on the one-statement shape that
every real defect of this kind had) -/
theorem mutate_param_rejected (v : Nat) (rest : AStmt) : isSafe (.seq (.mutate v) rest) = false := by
  simp [isSafe, safe]

end Pandera.Alias

import PanderaModel.Data
/-!
# The check backend with its options (`backends/pandas/checks.py`, `base.py:run_check`)

One field (Series / column) at a time.  A check function is an arbitrary Lean function;
`none` models "the function raised".
-/
namespace Pandera

/-- the three shapes of user check functions the backend distinguishes by their output -/
inductive CheckFn
  | elem (f : Val → Option Bool)                   -- `element_wise=True`: scalar in, bool out
  | vec (g : List Val → Option (List Bool))        -- vectorised: Series in, boolean Series out
  | agg (g : List Val → Option Bool)               -- Series in, single bool out

structure CheckOpts where
  ignoreNa : Bool := true
  nFailure : Option Nat := none
  raiseWarning : Bool := false
  deriving Repr, DecidableEq, Inhabited

/-- `preprocess_field`: the (position, value) pairs handed on — nulls dropped under `ignore_na` -/
def shown (ign : Bool) (vals : List Val) : List (Val × Nat) :=
  vals.zipIdx.filter (fun p => !(ign && p.1.isNull))

def shownVals (ign : Bool) (vals : List Val) : List Val := (shown ign vals).map (·.1)

def mapM? {α β : Type} (f : α → Option β) : List α → Option (List β)
  | [] => some []
  | x :: xs => match f x, mapM? f xs with
    | some y, some ys => some (y :: ys)
    | _, _ => none

/-- `apply`: element-wise functions are mapped, vectorised ones get the whole field -/
def applyFn (fn : CheckFn) (xs : List Val) : Option (Sum (List Bool) Bool) :=
  match fn with
  | .elem f => (mapM? f xs).map Sum.inl
  | .vec g => (g xs).map Sum.inl
  | .agg g => (g xs).map Sum.inr

/-- result of the backend's `__call__` -/
inductive BackendOut
  | raised
  | passed
  | failedScalar                                   -- boolean output `False`: no failure cases
  | failed (cases : List (Nat × Val))              -- failing (position, value), possibly truncated
  deriving Repr, DecidableEq, Inhabited

def takeOpt {α : Type} (n : Option Nat) (l : List α) : List α :=
  match n with | some k => l.take k | none => l

def badOf (sh : List (Val × Nat)) (outs : List Bool) : List (Nat × Val) :=
  (sh.zip outs).filterMap (fun p => if p.2 then none else some (p.1.2, p.1.1))

/-- `apply` + `postprocess_field` + `_get_series_failure_cases` on the preprocessed field
(`groupby(check_output).head(n)`: every failure case has output `False`, so this is the first `n`) -/
def backendCallOn (fn : CheckFn) (o : CheckOpts) (sh : List (Val × Nat)) : BackendOut :=
  match applyFn fn (sh.map (·.1)) with
  | none => .raised
  | some (.inr true) => .passed
  | some (.inr false) => .failedScalar
  | some (.inl outs) =>
    if outs.length != sh.length then .raised else
    if (badOf sh outs).isEmpty then .passed else .failed (takeOpt o.nFailure (badOf sh outs))

def backendCall (fn : CheckFn) (o : CheckOpts) (vals : List Val) : BackendOut :=
  backendCallOn fn o (shown o.ignoreNa vals)

/-- outcome of `run_check` as seen by `validate` -/
inductive Outcome
  | pass
  | warn                                           -- SchemaWarning emitted, check counted as passed
  | fail (cases : Option (List (Nat × Val)))       -- SchemaError(DATAFRAME_CHECK)
  | error                                          -- the function raised: SchemaError(CHECK_ERROR)
  deriving Repr, DecidableEq, Inhabited

def runCheckOutcome (fn : CheckFn) (o : CheckOpts) (vals : List Val) : Outcome :=
  match backendCall fn o vals with
  | .raised => .error
  | .passed => .pass
  | .failedScalar => if o.raiseWarning then .warn else .fail none
  | .failed cs => if o.raiseWarning then .warn else .fail (some cs)

def Outcome.accepts : Outcome → Bool
  | .pass => true
  | .warn => true
  | _ => false

/-! ### groupby -/

/-- `_format_groupby_input`: the dict handed to the function — one entry per group key (restricted
to `groups` when given), each holding that group's values in row order.  Keys appear in sorted
order of first… pandas sorts group keys; order is immaterial for a dict, so it is not modelled. -/
def groupsDict (keys : List Val) (vals : List Val) (groups : Option (List Val)) : List (Val × List Val) :=
  let ks := (keys.filter (fun k => !k.isNull)).eraseDups
  let ks := match groups with | some gs => ks.filter (fun k => gs.contains k) | none => ks
  ks.map (fun k => (k, (keys.zip vals).filterMap (fun p => if p.1 == k then some p.2 else none)))

end Pandera

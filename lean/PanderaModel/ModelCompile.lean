import PanderaModel.Transform
import PanderaModel.Regex
/-!
# DataFrameModel → DataFrameSchema (C16)

`pandera/api/dataframe/model.py` (`_collect_fields`, `_collect_check_infos`,
`_collect_parser_infos`, `_collect_config_and_extras`, `_extract_checks`, `to_schema`) and
`pandera/api/pandas/model.py` (`_build_columns_index`) for linear inheritance chains.

`compile` follows the code (walks over the MRO with "seen" sets and dict updates); `flatten` +
`build` is the declarative meaning of inheritance: for every attribute / method name the nearest
definition wins.
-/
namespace Pandera.ModelC
open Pandera.Transform (Attrs dictSet dictOf keys)

/-- what one class body says about one attribute -/
structure FieldDecl where
  ann : Option (String × Bool)       -- annotation written in this class: (dtype, Optional?)
  field : Option Attrs               -- `= Field(...)` written in this class: its options (alias, nullable, …, own checks)
  deriving Repr, DecidableEq, Inhabited

inductive Target
  | name (s : String) | pat (p : Pat)
  deriving Repr, DecidableEq, Inhabited

/-- a `@check` / `@dataframe_check` / `@parser` / `@dataframe_parser` method -/
structure MethodDecl where
  mname : String                     -- the method's name (what overriding goes by)
  targets : List Target := []
  regex : Bool := false
  payload : String := ""             -- identity of the function and its keyword arguments (opaque)
  deriving Repr, DecidableEq, Inhabited

structure ClassSpec where
  cname : String
  fields : List (String × FieldDecl) := []
  checks : List MethodDecl := []
  dfChecks : List MethodDecl := []
  parsers : List MethodDecl := []
  dfParsers : List MethodDecl := []
  config : Attrs := []               -- options written in this class's `Config`
  deriving Repr, DecidableEq, Inhabited

/-- a compiled column -/
structure ColumnOut where
  name : String
  dtype : String
  required : Bool
  opts : Attrs                       -- the Field's options (without alias)
  checks : List String               -- payloads of the method checks, in order (after the Field's own checks)
  parsers : List String
  deriving Repr, DecidableEq, Inhabited

structure SchemaOut where
  columns : List ColumnOut
  dfChecks : List String
  dfParsers : List String
  config : Attrs
  deriving Repr, DecidableEq, Inhabited

inductive CErr | missingAnnotation | unknownField
  deriving Repr, DecidableEq, Inhabited

/-! ## following the code -/

/-- `get_type_hints(cls)`: annotations of the bases, base first, later classes overriding -/
def collectAnnotations (h : List ClassSpec) : List (String × (String × Bool)) :=
  dictOf (h.flatMap fun c => c.fields.filterMap fun p => p.2.ann.map fun a => (p.1, a))

/-- `_get_model_attrs` after `__init_subclass__`: every class contributes, for each attribute it
annotates or assigns, the Field it assigned or a fresh default `Field()` -/
def collectFieldObjs (h : List ClassSpec) : List (String × Attrs) :=
  dictOf (h.flatMap fun c => c.fields.map fun p => (p.1, p.2.field.getD []))

/-- `_collect_check_infos` / `_collect_parser_infos`: the MRO most derived class first, a method name
met before is skipped (when the override rule `ov` is in force) -/
def collectMethods (ov : Bool) (sel : ClassSpec → List MethodDecl) : List ClassSpec → List String → List MethodDecl
  | [], _ => []
  | c :: rest, seen =>
    let fresh := (sel c).filter fun m => !(ov && seen.contains m.mname)
    fresh ++ collectMethods ov sel rest (seen ++ fresh.map (·.mname))

/-- MRO of a linear chain given base-first -/
def mro (h : List ClassSpec) : List ClassSpec := h.reverse

def colName (attr : String) (opts : Attrs) : String := (opts.lookup "alias").getD attr

def targetsOf (m : MethodDecl) (fieldNames : List String) : List String :=
  if m.regex then
    fieldNames.filter fun f => m.targets.any fun t => match t with
      | .pat p => p.prefixMatch f
      | .name s => s == f            -- (a plain string used as a pattern matches itself at least)
  else m.targets.filterMap fun t => match t with
    | .name s => some s
    | .pat _ => none

/-- `_extract_checks`: field ↦ payloads, or an error for a target that is not a field -/
def extract (ms : List MethodDecl) (fieldNames : List String) : Except CErr (String → List String) :=
  if ms.any (fun m => (targetsOf m fieldNames).any fun t => !fieldNames.contains t) then .error .unknownField
  else .ok fun f => (ms.filter fun m => (targetsOf m fieldNames).contains f).map (·.payload)

def configOf (h : List ClassSpec) : Attrs := dictOf (h.flatMap (·.config))

/-- `to_schema` -/
def compile (ovChecks ovParsers : Bool) (h : List ClassSpec) : Except CErr SchemaOut :=
  let anns := collectAnnotations h
  let objs := collectFieldObjs h
  if objs.any (fun p => !(keys anns).contains p.1) then .error .missingAnnotation
  else
    let fields := dictOf (anns.map fun p =>
      let o := (objs.lookup p.1).getD []
      (colName p.1 o, (p.2, o)))
    let names := keys fields
    match extract (collectMethods ovChecks (·.checks) (mro h) []) names,
          extract (collectMethods ovParsers (·.parsers) (mro h) []) names with
    | .ok ck, .ok ps =>
      .ok { columns := fields.map fun p =>
              { name := p.1, dtype := p.2.1.1, required := !p.2.1.2,
                opts := p.2.2.filter (fun q => q.1 != "alias"), checks := ck p.1, parsers := ps p.1 },
            dfChecks := (collectMethods ovChecks (·.dfChecks) (mro h) []).map (·.payload),
            dfParsers := (collectMethods ovParsers (·.dfParsers) (mro h) []).map (·.payload),
            config := configOf h }
    | _, _ => .error .unknownField

/-! ## the declarative meaning: nearest definition wins -/

/-- the definition of method `n` that a class at the end of the chain `h` sees: the one of the most
derived class defining it -/
def nearest (sel : ClassSpec → List MethodDecl) (h : List ClassSpec) (n : String) : Option MethodDecl :=
  (mro h).findSome? fun c => (sel c).find? fun m => m.mname == n

/-- the methods in force: every name once, with its nearest definition; most derived classes first -/
def flattenMethods (sel : ClassSpec → List MethodDecl) (h : List ClassSpec) : List MethodDecl :=
  ((mro h).flatMap sel).filter fun m => nearest sel h m.mname == some m

end Pandera.ModelC

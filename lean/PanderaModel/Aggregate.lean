import PanderaModel.Checks
/-!
# Whole-column built-in checks

`Check.unique_values_eq(values)` is the one built-in that is not element-wise: it gives a single
verdict for the column ("the set of unique values of the column is exactly `values`").  The check
backend drops nulls first (`ignore_na=True`, the default) and then applies the function to whatever
is left — also when nothing is left.
-/
namespace Pandera

/-- the values the check function is aggShown under `ignore_na` -/
def aggShown (ignoreNa : Bool) (col : List Val) : List Val :=
  if ignoreNa then col.filter (fun v => !v.isNull) else col

/-- documented meaning of `unique_values_eq(vs)` on the aggShown values: mutual inclusion of the two sets -/
def setEq (vs xs : List Val) : Bool :=
  xs.all (fun x => vs.any (fun v => Val.same x v)) && vs.all (fun v => xs.any (fun x => Val.same v x))

def uniqueValuesEq (vs : List Val) (ignoreNa : Bool) (col : List Val) : Bool :=
  setEq vs (aggShown ignoreNa col)

end Pandera

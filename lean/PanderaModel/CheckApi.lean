/-!
# `Check` constructors: canonical names, keyword passing, aliases
-/
namespace Pandera

inductive ApiEntry
  | builtin (name : String) (kws : List (String × String))   -- registered built-in, (keyword, parameter)
  | alias (target : String) (args : List String) (params : List String)
  | unsupported
  deriving Repr, DecidableEq, Inhabited

def apiLookup (tbl : List (String × ApiEntry)) (n : String) : ApiEntry :=
  match tbl.find? (·.1 == n) with
  | some p => p.2
  | none => .unsupported

/-- an alias forwards its parameters unchanged and in order to a canonical constructor, which in turn
uses the registered built-in of its own name with every parameter under its own keyword -/
def aliasOk (tbl : List (String × ApiEntry)) (alias canonical : String) : Bool :=
  match apiLookup tbl alias with
  | .alias t args params =>
    t == canonical && args == params &&
      (match apiLookup tbl canonical with
       | .builtin b kws => b == canonical && kws.map (·.2) == params && kws.all (fun kw => kw.1 == kw.2)
       | _ => false)
  | _ => false

def canonicalOk (tbl : List (String × ApiEntry)) (name : String) (params : List String) : Bool :=
  match apiLookup tbl name with
  | .builtin b kws => b == name && kws == params.map (fun p => (p, p))
  | _ => false

end Pandera

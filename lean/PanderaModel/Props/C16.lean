import PanderaModel.ModelCompile
import PanderaModel.Lemmas.Transform
import PanderaModel.Generated.ModelRules
/-!
# C16 — a DataFrameModel means the DataFrameSchema it describes

For every linear inheritance chain:

* `collect_mem_iff` / `collect_names_nodup`: the checks (parsers) in force are exactly the nearest
  definitions — a method belongs to the compiled schema iff its class defines it and no more derived
  class defines a method of that name — each name once;
* `annotation_nearest`, `fieldObj_nearest`: the annotation of an attribute is the one written by the
  most derived class annotating it, its Field the one of the most derived class annotating *or*
  assigning it (a bare re-annotation resets the Field to the default);
* `config_nearest`: every Config option comes from the most derived class setting it;
* `names_stable`: building checks does not consume the shared method metadata, hence the names of
  the compiled checks do not depend on which class of a hierarchy was compiled first, and compiling
  again gives the same names (`names_order_dependent_witness` is the recorded defect when it does);
* `parser_override_witness`: without the override rule parent and child parsers both survive.

Per-run obligations tie the two override rules and the non-consuming `to_check` / `to_parser` to the
source.
-/
namespace Pandera.ModelC
open Pandera.Transform (Attrs dictSet dictOf dictMerge keys mem_keys lookup_dictSet_self lookup_dictSet_ne)
open Pandera.Generated.ModelRules

/-! ## per-run obligations -/

/-- `_collect_check_infos` and `_collect_parser_infos` both skip a method name already met in a more
derived class; `to_check` / `to_parser` do not mutate the stored keyword arguments -/
theorem model_rules_ok :
    (checkOverrideRule && parserOverrideRule && !toCheckConsumesKwargs && !toParserConsumesKwargs) = true := by decide

/-! ## dict folds: the last item of a key wins -/

theorem lookup_foldl_dictSet {α : Type} (items : List (String × α)) (acc : List (String × α)) (k : String) :
    (items.foldl dictSet acc).lookup k =
      match items.reverse.lookup k with
      | some v => some v
      | none => acc.lookup k := by
  induction items generalizing acc with
  | nil => simp
  | cons p items ih =>
    obtain ⟨a, b⟩ := p
    rw [List.foldl_cons, ih]
    rw [List.reverse_cons]
    cases hrev : items.reverse.lookup k with
    | some v =>
      rw [Pandera.Transform.lookup_append_of_lookup hrev]
    | none =>
      have hnot : k ∉ keys items.reverse := Pandera.Transform.lookup_eq_none_iff.mp hrev
      rw [Pandera.Transform.lookup_append_of_not_mem hnot]
      by_cases hk : k = a
      · subst hk
        simp [List.lookup_cons, lookup_dictSet_self]
      · have : (k == a) = false := by simpa using hk
        simp only [List.lookup_cons, this, List.lookup_nil]
        exact lookup_dictSet_ne hk

/-- looking a key up in a dict built from a sequence of items finds the **last** item of that key -/
theorem lookup_dictOf_last {α : Type} (items : List (String × α)) (k : String) :
    (dictOf items).lookup k = items.reverse.lookup k := by
  unfold dictOf dictMerge
  rw [lookup_foldl_dictSet]
  cases items.reverse.lookup k <;> rfl

/-- the items a chain contributes, base class first -/
def annItems (h : List ClassSpec) : List (String × (String × Bool)) :=
  h.flatMap fun c => c.fields.filterMap fun p => p.2.ann.map fun a => (p.1, a)

def objItems (h : List ClassSpec) : List (String × Attrs) :=
  h.flatMap fun c => c.fields.map fun p => (p.1, p.2.field.getD [])

/-- **the annotation in force is the nearest one**: adding a more derived class `c` that annotates
`n` makes that annotation win; one that does not annotate `n` leaves the inherited annotation -/
theorem annotation_nearest (h : List ClassSpec) (c : ClassSpec) (n : String) :
    (collectAnnotations (h ++ [c])).lookup n =
      match (c.fields.filterMap fun p => p.2.ann.map fun a => (p.1, a)).reverse.lookup n with
      | some a => some a
      | none => (collectAnnotations h).lookup n := by
  unfold collectAnnotations
  rw [lookup_dictOf_last, lookup_dictOf_last, List.flatMap_append, List.reverse_append]
  simp only [List.flatMap_cons, List.flatMap_nil, List.append_nil]
  cases hc : (c.fields.filterMap fun p => p.2.ann.map fun a => (p.1, a)).reverse.lookup n with
  | some a => exact Pandera.Transform.lookup_append_of_lookup hc
  | none =>
    exact Pandera.Transform.lookup_append_of_not_mem (Pandera.Transform.lookup_eq_none_iff.mp hc)

/-- **the Field in force is that of the most derived class annotating or assigning the attribute**;
a class that only re-annotates it contributes the default `Field()` (its options `[]`) -/
theorem fieldObj_nearest (h : List ClassSpec) (c : ClassSpec) (n : String) :
    (collectFieldObjs (h ++ [c])).lookup n =
      match (c.fields.map fun p => (p.1, p.2.field.getD [])).reverse.lookup n with
      | some o => some o
      | none => (collectFieldObjs h).lookup n := by
  unfold collectFieldObjs
  rw [lookup_dictOf_last, lookup_dictOf_last, List.flatMap_append, List.reverse_append]
  simp only [List.flatMap_cons, List.flatMap_nil, List.append_nil]
  cases hc : (c.fields.map fun p => (p.1, p.2.field.getD [])).reverse.lookup n with
  | some a => exact Pandera.Transform.lookup_append_of_lookup hc
  | none =>
    exact Pandera.Transform.lookup_append_of_not_mem (Pandera.Transform.lookup_eq_none_iff.mp hc)

/-- **every Config option comes from the most derived class setting it** -/
theorem config_nearest (h : List ClassSpec) (c : ClassSpec) (k : String) :
    (configOf (h ++ [c])).lookup k =
      match c.config.reverse.lookup k with
      | some v => some v
      | none => (configOf h).lookup k := by
  unfold configOf
  rw [lookup_dictOf_last, lookup_dictOf_last, List.flatMap_append, List.reverse_append]
  simp only [List.flatMap_cons, List.flatMap_nil, List.append_nil]
  cases hc : c.config.reverse.lookup k with
  | some a => exact Pandera.Transform.lookup_append_of_lookup hc
  | none =>
    exact Pandera.Transform.lookup_append_of_not_mem (Pandera.Transform.lookup_eq_none_iff.mp hc)

/-! ## methods: the nearest definition wins -/

/-- **a method is in force iff its class defines it and no more derived class defines that name**
(`cs` is the MRO, most derived class first; `seen` the names met so far) -/
theorem collect_mem_iff (sel : ClassSpec → List MethodDecl) (cs : List ClassSpec) (seen : List String)
    (m : MethodDecl) :
    m ∈ collectMethods true sel cs seen ↔
      ∃ pre c post, cs = pre ++ c :: post ∧ m ∈ sel c ∧ m.mname ∉ seen
        ∧ ∀ c' ∈ pre, ∀ m' ∈ sel c', m'.mname = m.mname → (seen.contains m'.mname = true) := by
  induction cs generalizing seen with
  | nil =>
    constructor
    · intro h; cases h
    · rintro ⟨pre, c, post, h, _⟩
      cases pre <;> cases h
  | cons c cs ih =>
    unfold collectMethods
    simp only [Bool.true_and]
    rw [List.mem_append]
    constructor
    · rintro (h | h)
      · have := List.mem_filter.mp h
        exact ⟨[], c, cs, rfl, this.1, by simpa using this.2, by intro c' hc'; cases hc'⟩
      · obtain ⟨pre, c2, post, hcs, hm, hseen, hpre⟩ := (ih _).mp h
        refine ⟨c :: pre, c2, post, by rw [hcs]; rfl, hm, ?_, ?_⟩
        · intro hin; exact hseen (List.mem_append_left _ hin)
        · intro c' hc' m' hm' hname
          rcases List.mem_cons.mp hc' with rfl | hc'
          · -- a method of that name in the most derived class: it must have been seen already
            by_cases hs : seen.contains m'.mname = true
            · exact hs
            · exfalso
              apply hseen
              apply List.mem_append_right
              rw [← hname]
              exact List.mem_map.mpr ⟨m', List.mem_filter.mpr ⟨hm', by simpa using hs⟩, rfl⟩
          · have := hpre c' hc' m' hm' hname
            rcases List.mem_append.mp (List.contains_iff_mem.mp this) with h1 | h2
            · exact List.contains_iff_mem.mpr h1
            · -- seen through the first class's fresh methods: then m.mname ∈ seen', contradiction
              exfalso
              apply hseen
              apply List.mem_append_right
              rw [← hname]; exact h2
    · rintro ⟨pre, c2, post, hcs, hm, hseen, hpre⟩
      cases pre with
      | nil =>
        cases hcs
        left
        exact List.mem_filter.mpr ⟨hm, by simpa using hseen⟩
      | cons c0 pre =>
        have e1 : c = c0 := by injection hcs
        have e2 : cs = pre ++ c2 :: post := by injection hcs
        subst e1
        subst e2
        right
        apply (ih _).mpr
        refine ⟨pre, c2, post, rfl, hm, ?_, ?_⟩
        · intro hin
          rcases List.mem_append.mp hin with h1 | h2
          · exact hseen h1
          · rcases List.mem_map.mp h2 with ⟨m0, hm0, hname⟩
            have hm0' := List.mem_filter.mp hm0
            have := hpre c List.mem_cons_self m0 hm0'.1 hname
            have hnot : seen.contains m0.mname = false := by simpa using hm0'.2
            rw [hnot] at this; cases this
        · intro c' hc' m' hm' hname
          have := hpre c' (List.mem_cons_of_mem _ hc') m' hm' hname
          have hin : m'.mname ∈ seen := List.contains_iff_mem.mp this
          exact List.contains_iff_mem.mpr (List.mem_append_left _ hin)

/-- with nothing seen at the start: **nearest definition wins** -/
theorem collect_nearest (sel : ClassSpec → List MethodDecl) (cs : List ClassSpec) (m : MethodDecl) :
    m ∈ collectMethods true sel cs [] ↔
      ∃ pre c post, cs = pre ++ c :: post ∧ m ∈ sel c ∧ ∀ c' ∈ pre, ∀ m' ∈ sel c', m'.mname ≠ m.mname := by
  rw [collect_mem_iff]
  constructor
  · rintro ⟨pre, c, post, h1, h2, _, h4⟩
    exact ⟨pre, c, post, h1, h2, fun c' hc' m' hm' hn => by simpa using h4 c' hc' m' hm' hn⟩
  · rintro ⟨pre, c, post, h1, h2, h4⟩
    exact ⟨pre, c, post, h1, h2, by simp, fun c' hc' m' hm' hn => absurd hn (h4 c' hc' m' hm')⟩

/-- each method name occurs once (given that a class body defines a name once) -/
theorem collect_names_nodup (sel : ClassSpec → List MethodDecl) (cs : List ClassSpec) (seen : List String)
    (hc : ∀ c ∈ cs, ((sel c).map (·.mname)).Nodup) :
    ((collectMethods true sel cs seen).map (·.mname)).Nodup
    ∧ ∀ n ∈ (collectMethods true sel cs seen).map (·.mname), n ∉ seen := by
  induction cs generalizing seen with
  | nil => simp [collectMethods]
  | cons c cs ih =>
    unfold collectMethods
    simp only [Bool.true_and]
    obtain ⟨ih1, ih2⟩ := ih (seen ++ ((sel c).filter fun m => !seen.contains m.mname).map (·.mname))
      (fun c' hc' => hc c' (List.mem_cons_of_mem _ hc'))
    have hfresh : (((sel c).filter fun m => !seen.contains m.mname).map (·.mname)).Nodup := by
      have hn := hc c List.mem_cons_self
      exact List.Nodup.sublist (List.Sublist.map _ List.filter_sublist) hn
    refine ⟨?_, ?_⟩
    · rw [List.map_append]
      refine List.nodup_append.mpr ⟨hfresh, ih1, ?_⟩
      intro a ha b hb hab
      subst hab
      exact ih2 a hb (List.mem_append_right _ ha)
    · intro n hn
      rw [List.map_append] at hn
      rcases List.mem_append.mp hn with h | h
      · rcases List.mem_map.mp h with ⟨m, hm, rfl⟩
        have := (List.mem_filter.mp hm).2
        simpa using this
      · intro hs
        exact ih2 n h (List.mem_append_left _ hs)

/-- the recorded defect of `_collect_parser_infos` without the override rule: the parent's and the
child's parser of the same name both survive -/
theorem parser_override_witness :
    let parent : ClassSpec := { cname := "P", parsers := [{ mname := "fix", payload := "+1" }] }
    let child : ClassSpec := { cname := "C", parsers := [{ mname := "fix", payload := "+10" }] }
    (collectMethods false (·.parsers) (mro [parent, child]) []).map (·.payload) = ["+10", "+1"]
    ∧ (collectMethods true (·.parsers) (mro [parent, child]) []).map (·.payload) = ["+10"] := by
  decide

/-! ## check names do not depend on the compilation order -/

/-- the custom `name=` stored on each decorated method (shared by all classes inheriting it) -/
abbrev Meta := List (String × Option String)

/-- `to_check`: the check's name is the stored `name=` or else the function's name; a consuming
implementation removes the stored name -/
def toCheckName (consume : Bool) (st : Meta) (fn : String) : String × Meta :=
  (((st.lookup fn).bind id).getD fn,
   if consume then st.map (fun p => if p.1 == fn then (fn, none) else p) else st)

/-- compiling a class: naming its checks one after the other -/
def compileNames (consume : Bool) : Meta → List String → List String × Meta
  | st, [] => ([], st)
  | st, fn :: fns =>
    let (n, st1) := toCheckName consume st fn
    let (ns, st2) := compileNames consume st1 fns
    (n :: ns, st2)

/-- **stability**: without consumption the metadata is left as it was and every check gets its
declared name — whatever was compiled before -/
theorem names_stable (st : Meta) (fns : List String) :
    compileNames false st fns = (fns.map fun fn => ((st.lookup fn).bind id).getD fn, st) := by
  induction fns generalizing st with
  | nil => rfl
  | cons fn fns ih =>
    simp only [compileNames, toCheckName, Bool.false_eq_true, if_false, ih, List.map_cons]

/-- hence any two compilations (a class and its subclass, in either order, or the same class twice)
agree on the names of the shared methods -/
theorem names_order_independent (st : Meta) (first second : List String) :
    (compileNames false (compileNames false st first).2 second).1 = (compileNames false st second).1 := by
  rw [names_stable st first]

/-- the recorded defect: when `to_check` consumes the stored name, the class compiled second loses it -/
theorem names_order_dependent_witness :
    let st : Meta := [("c", some "mycheck")]
    (compileNames true (compileNames true st ["c"]).2 ["c"]).1 = ["c"]
    ∧ (compileNames true st ["c"]).1 = ["mycheck"] := by
  decide

/-! ## non-vacuity -/

example : collectMethods true (·.checks) (mro [
    { cname := "A", checks := [{ mname := "c1", payload := "A.c1" }, { mname := "c2", payload := "A.c2" }] },
    { cname := "B", checks := [{ mname := "c2", payload := "B.c2" }, { mname := "c3", payload := "B.c3" }] }]) []
    = [{ mname := "c2", payload := "B.c2" }, { mname := "c3", payload := "B.c3" }, { mname := "c1", payload := "A.c1" }] := by
  decide

end Pandera.ModelC

import PanderaModel.CheckBackend
import PanderaModel.Generated.CheckApi
/-!
# C19 — check options do only what they document (all statements for every check function)
-/
namespace Pandera
namespace C19

/-- **element_wise**: an element-wise check is the vectorised check that maps the function -/
theorem element_wise_eq_map (f : Val → Option Bool) (o : CheckOpts) (vals : List Val) :
    backendCall (.elem f) o vals = backendCall (.vec (mapM? f)) o vals := rfl

theorem shown_subset (ign : Bool) (vals : List Val) : ∀ p ∈ shown ign vals, vals[p.2]? = some p.1 := by
  intro p hp
  have := (List.mem_filter.mp hp).1
  exact List.mem_zipIdx_iff_getElem?.mp (by simpa using this)

/-- **ignore_na=True**: null elements are never shown to the function -/
theorem ignore_na_hides_nulls (vals : List Val) : ∀ v ∈ shownVals true vals, v.isNull = false := by
  intro v hv
  unfold shownVals shown at hv
  simp only [List.mem_map, List.mem_filter] at hv
  obtain ⟨p, ⟨_, hk⟩, rfl⟩ := hv
  simpa using hk

theorem zipIdx_filter_map_fst (q : Val → Bool) (l : List Val) (k : Nat) :
    ((l.zipIdx k).filter (fun p => q p.1)).map (·.1) = l.filter q := by
  induction l generalizing k with
  | nil => rfl
  | cons x xs ih =>
    simp only [List.zipIdx_cons, List.filter_cons]
    split
    · simp only [List.map_cons, List.cons.injEq, true_and]; exact ih (k + 1)
    · exact ih (k + 1)

theorem shownVals_eq_filter (ign : Bool) (vals : List Val) :
    shownVals ign vals = vals.filter (fun v => !(ign && v.isNull)) := by
  unfold shownVals shown
  exact zipIdx_filter_map_fst (fun v => !(ign && v.isNull)) vals 0

/-- **ignore_na=False**: the function sees every element, nulls included -/
theorem not_ignore_na_shows_all (vals : List Val) : shownVals false vals = vals := by
  rw [shownVals_eq_filter]
  exact List.filter_eq_self.mpr (by simp)

theorem shownVals_filter_nonnull (vals : List Val) :
    shownVals true (vals.filter (fun v => !v.isNull)) = shownVals true vals := by
  rw [shownVals_eq_filter, shownVals_eq_filter, List.filter_filter]
  simp

theorem badOf_isEmpty_congr (l1 l2 : List (Val × Nat)) (outs : List Bool)
    (h : l1.map (·.1) = l2.map (·.1)) : (badOf l1 outs).isEmpty = (badOf l2 outs).isEmpty := by
  unfold badOf
  induction l1 generalizing l2 outs with
  | nil => cases l2 <;> simp_all
  | cons a as iha =>
    cases l2 with
    | nil => simp at h
    | cons b bs =>
      simp only [List.map_cons, List.cons.injEq] at h
      cases outs with
      | nil => rfl
      | cons o os =>
        simp only [List.zip_cons_cons, List.filterMap_cons]
        cases o
        · simp
        · simp only [↓reduceIte]; exact iha bs os h.2

/-- the verdict of the backend depends on the values shown, not on their positions -/
theorem backendCallOn_accepts_congr (fn : CheckFn) (o : CheckOpts) (l1 l2 : List (Val × Nat))
    (h : l1.map (·.1) = l2.map (·.1)) :
    (match backendCallOn fn o l1 with | .passed => true | _ => false)
      = (match backendCallOn fn o l2 with | .passed => true | _ => false)
    ∧ (backendCallOn fn o l1 = .raised ↔ backendCallOn fn o l2 = .raised) := by
  unfold backendCallOn
  rw [h]
  have hlen : l1.length = l2.length := by simpa using congrArg List.length h
  cases applyFn fn (l2.map (·.1)) with
  | none => simp
  | some r =>
    cases r with
    | inr b => cases b <;> simp
    | inl outs =>
      simp only [hlen, badOf_isEmpty_congr l1 l2 outs h]
      by_cases hl : (outs.length != l2.length) = true
      · simp [hl]
      · by_cases hb : (badOf l2 outs).isEmpty = true
        · simp [hl, hb]
        · simp [hl, hb]

/-- **ignore_na=True**: the verdict does not depend on the null rows (every function shape) -/
theorem ignore_na_verdict_independent_of_nulls (fn : CheckFn) (n : Option Nat) (rw : Bool) (vals : List Val) :
    (runCheckOutcome fn ⟨true, n, rw⟩ (vals.filter (fun v => !v.isNull))).accepts
      = (runCheckOutcome fn ⟨true, n, rw⟩ vals).accepts := by
  have hs := shownVals_filter_nonnull vals
  unfold shownVals at hs
  have := backendCallOn_accepts_congr fn ⟨true, n, rw⟩ _ _ hs
  unfold runCheckOutcome backendCall
  simp only
  obtain ⟨h1, h2⟩ := this
  cases hb1 : backendCallOn fn ⟨true, n, rw⟩ (shown true (vals.filter (fun v => !v.isNull))) <;>
    cases hb2 : backendCallOn fn ⟨true, n, rw⟩ (shown true vals) <;>
    simp_all [Outcome.accepts] <;> cases rw <;> simp [Outcome.accepts]

/-- **n_failure_cases** never changes the verdict … -/
theorem n_failure_cases_verdict_invariant (fn : CheckFn) (ign rw : Bool) (n : Option Nat) (vals : List Val) :
    (runCheckOutcome fn ⟨ign, n, rw⟩ vals).accepts = (runCheckOutcome fn ⟨ign, none, rw⟩ vals).accepts := by
  unfold runCheckOutcome backendCall backendCallOn
  simp only
  cases applyFn fn ((shown ign vals).map (·.1)) with
  | none => rfl
  | some r =>
    cases r with
    | inr b => cases b <;> rfl
    | inl outs =>
      simp only
      by_cases hl : (outs.length != (shown ign vals).length) = true
      · simp [hl]
      · by_cases hb : (badOf (shown ign vals) outs).isEmpty = true
        · simp [hl, hb]
        · cases rw <;> simp [hl, hb, Outcome.accepts]

/-- … and only truncates the reported failure cases to a prefix of at most `n` -/
theorem n_failure_cases_truncates (fn : CheckFn) (ign : Bool) (n : Nat) (vals : List Val)
    (full : List (Nat × Val)) (h : backendCall fn ⟨ign, none, false⟩ vals = .failed full) :
    backendCall fn ⟨ign, some n, false⟩ vals = .failed (full.take n) ∧ (full.take n).length ≤ n := by
  unfold backendCall backendCallOn at h ⊢
  simp only at h ⊢
  refine ⟨?_, by simp [List.length_take]; omega⟩
  cases happ : applyFn fn ((shown ign vals).map (·.1)) with
  | none => simp [happ] at h
  | some r =>
    cases r with
    | inr b => cases b <;> simp [happ] at h
    | inl outs =>
      simp only [happ] at h ⊢
      split at h
      · cases h
      · split at h
        · cases h
        · rename_i h1 h2
          simp only [h1, ↓reduceIte, h2]
          simp only [takeOpt, BackendOut.failed.injEq] at h ⊢
          subst h
          rfl

/-- **raise_warning=True** never fails validation, and warns exactly when the same check without
the flag would have failed -/
theorem raise_warning_never_fails (fn : CheckFn) (ign : Bool) (n : Option Nat) (vals : List Val) :
    ∀ cs, runCheckOutcome fn ⟨ign, n, true⟩ vals ≠ .fail cs := by
  intro cs
  unfold runCheckOutcome
  cases backendCall fn ⟨ign, n, true⟩ vals <;> simp

theorem backendCall_raiseWarning_irrelevant (fn : CheckFn) (ign rw : Bool) (n : Option Nat) (vals : List Val) :
    backendCall fn ⟨ign, n, rw⟩ vals = backendCall fn ⟨ign, n, false⟩ vals := rfl

theorem raise_warning_warns_iff_would_fail (fn : CheckFn) (ign : Bool) (n : Option Nat) (vals : List Val) :
    runCheckOutcome fn ⟨ign, n, true⟩ vals = .warn ↔
      ∃ cs, runCheckOutcome fn ⟨ign, n, false⟩ vals = .fail cs := by
  unfold runCheckOutcome
  rw [backendCall_raiseWarning_irrelevant fn ign true n vals]
  cases backendCall fn ⟨ign, n, false⟩ vals <;> simp

/-- **groupby / groups**: the function is handed exactly the requested groups, each with exactly its
own rows in row order -/
theorem groupby_groups_exact (keys vals : List Val) (groups : Option (List Val)) (k : Val) (vs : List Val) :
    (k, vs) ∈ groupsDict keys vals groups ↔
      (k ∈ keys ∧ k.isNull = false ∧ (∀ gs, groups = some gs → gs.contains k = true)
        ∧ vs = (keys.zip vals).filterMap (fun p => if p.1 == k then some p.2 else none)) := by
  unfold groupsDict
  have hmem : ∀ (l : List Val) (a : Val), a ∈ l.eraseDups ↔ a ∈ l := by
    intro l
    induction hm : l.length using Nat.strongRecOn generalizing l with
    | _ m ihm =>
      intro a
      cases l with
      | nil => simp
      | cons x xs =>
        rw [List.eraseDups_cons]
        have hlen : (xs.filter fun b => !b == x).length < m := by
          subst hm; exact Nat.lt_succ_of_le (List.length_filter_le _ _)
        simp only [List.mem_cons, ihm _ hlen _ rfl, List.mem_filter]
        by_cases hax : a = x <;> simp [hax]
  cases groups with
  | none =>
    simp only [List.mem_map, Prod.mk.injEq, reduceCtorEq, false_implies, implies_true, true_and]
    constructor
    · rintro ⟨k', hk', rfl, rfl⟩
      rw [hmem] at hk'
      simp only [List.mem_filter, Bool.not_eq_eq_eq_not, Bool.not_true] at hk'
      exact ⟨hk'.1, hk'.2, rfl⟩
    · rintro ⟨h1, h2, rfl⟩
      exact ⟨k, (hmem _ _).mpr (by simp [List.mem_filter, h1, h2]), rfl, rfl⟩
  | some gs =>
    simp only [List.mem_map, Prod.mk.injEq, Option.some.injEq, forall_eq']
    constructor
    · rintro ⟨k', hk', rfl, rfl⟩
      simp only [List.mem_filter] at hk'
      obtain ⟨hk1, hk2⟩ := hk'
      rw [hmem] at hk1
      simp only [List.mem_filter, Bool.not_eq_eq_eq_not, Bool.not_true] at hk1
      exact ⟨hk1.1, hk1.2, hk2, rfl⟩
    · rintro ⟨h1, h2, h3, rfl⟩
      refine ⟨k, ?_, rfl, rfl⟩
      simp only [List.mem_filter]
      exact ⟨(hmem _ _).mpr (by simp [List.mem_filter, h1, h2]), h3⟩

end C19
end Pandera

namespace Pandera
namespace C19
open Generated

/-- **aliases** (regenerated from `api/checks.py`): each alias forwards its arguments unchanged to
its canonical constructor, which uses the registered built-in of the same name -/
theorem aliases_are_their_canonical_builtin :
    aliasOk checkApi "eq" "equal_to" = true ∧ aliasOk checkApi "ne" "not_equal_to" = true
    ∧ aliasOk checkApi "gt" "greater_than" = true ∧ aliasOk checkApi "ge" "greater_than_or_equal_to" = true
    ∧ aliasOk checkApi "lt" "less_than" = true ∧ aliasOk checkApi "le" "less_than_or_equal_to" = true
    ∧ aliasOk checkApi "between" "in_range" = true := by decide

/-- the canonical constructors pass their parameters under the keywords the built-in bodies read
(the keyword names `Builtin.pyArgs` uses in `Props/C01.lean`) -/
theorem canonical_constructors_keywords :
    canonicalOk checkApi "equal_to" ["value"] = true
    ∧ canonicalOk checkApi "not_equal_to" ["value"] = true
    ∧ canonicalOk checkApi "greater_than" ["min_value"] = true
    ∧ canonicalOk checkApi "greater_than_or_equal_to" ["min_value"] = true
    ∧ canonicalOk checkApi "less_than" ["max_value"] = true
    ∧ canonicalOk checkApi "less_than_or_equal_to" ["max_value"] = true
    ∧ canonicalOk checkApi "in_range" ["min_value", "max_value", "include_min", "include_max"] = true
    ∧ canonicalOk checkApi "isin" ["allowed_values"] = true
    ∧ canonicalOk checkApi "notin" ["forbidden_values"] = true
    ∧ canonicalOk checkApi "str_matches" ["pattern"] = true
    ∧ canonicalOk checkApi "str_contains" ["pattern"] = true
    ∧ canonicalOk checkApi "str_startswith" ["string"] = true
    ∧ canonicalOk checkApi "str_endswith" ["string"] = true
    ∧ canonicalOk checkApi "str_length" ["min_value", "max_value"] = true := by decide

end C19
end Pandera

import PanderaModel.Config
import PanderaModel.DepthParts
import PanderaModel.Lemmas.Depth
import PanderaModel.Generated.ScopeMap
import PanderaModel.Generated.EnvConfig
import PanderaModel.Generated.Skeletons
/-!
# C18 — configuration is scoped and honoured; validation depth only removes checks
-/
namespace Pandera
namespace C18

/-! ### config_context -/

/-- **C18 (a)** leaving any nesting of `config_context` blocks — normally or by exception —
restores exactly the context configuration in force on entry -/
theorem context_restores (p : Prog) (c : Cfg) : (p.run c).ctx = c := by
  induction p generalizing c with
  | skip => rfl
  | raise => rfl
  | observe => rfl
  | seq a b iha ihb =>
    simp only [Prog.run]
    split
    · exact iha c
    · simp only [iha c]; exact ihb c
  | ctx o body _ => rfl
  | «catch» body ih => simp only [Prog.run]; exact ih c

/-- inside a block the options given are in force, the others are inherited -/
theorem context_applies (o : CtxOpts) (c : Cfg) : ((Prog.ctx o .observe).run c).seen = [applyOpts c o] := rfl

/-- an exception raised inside a block propagates (it is not swallowed by the context manager) -/
theorem context_propagates (o : CtxOpts) (body : Prog) (c : Cfg) :
    ((Prog.ctx o body).run c).raised = (body.run (applyOpts c o)).raised := rfl

example : ((Prog.ctx ⟨some false, none, none, none⟩
      (.seq (.ctx ⟨none, some .dataOnly, none, none⟩ (.seq .observe .raise)) .observe)).run
      ⟨true, none, false, false⟩)
    = ⟨⟨true, none, false, false⟩, true, [⟨false, some .dataOnly, false, false⟩]⟩ := by decide

/-- the same for the code as it is now: `config_context` / `reset_config_context`, translated from
`pandera/config.py` into the Effects IR on this run, restore the context configuration on every
path, whichever statement of the body raises (`Effects.restores_sound`) -/
theorem config_context_skeleton_restores :
    Generated.resetConfigContextOk = true ∧ Eff.restores Generated.skel_configContext = true := by decide

theorem config_context_source_restores {c c' : Eff.Cfg} {r : Eff.Res}
    (hex : Eff.Exec Generated.skel_configContext c r c') : ∀ l, c'.1 l = c.1 l :=
  Eff.restores_sound config_context_skeleton_restores.2 hex

/-! ### environment variables (regenerated from `_config_from_env_vars`) -/

def documentedValue (v : Option String) : Prop := v = none ∨ v = some "True" ∨ v = some "False"

/-- **C18 (b)** `PANDERA_VALIDATION_ENABLED`: unset or "True" enables, "False" disables -/
theorem env_enabled_honoured (env : Env) (h : documentedValue (env "PANDERA_VALIDATION_ENABLED")) :
    Generated.envEnabled.eval env = some (env "PANDERA_VALIDATION_ENABLED" != some "False") := by
  rcases h with h | h | h <;> simp [Generated.envEnabled, EnvB.eval, envGet, h] <;> decide

theorem env_cache_honoured (env : Env) (h : documentedValue (env "PANDERA_CACHE_DATAFRAME")) :
    Generated.envCache.eval env = some (env "PANDERA_CACHE_DATAFRAME" == some "True") := by
  rcases h with h | h | h <;> simp [Generated.envCache, EnvB.eval, envGet, h]

theorem env_keep_honoured (env : Env) (h : documentedValue (env "PANDERA_KEEP_CACHED_DATAFRAME")) :
    Generated.envKeep.eval env = some (env "PANDERA_KEEP_CACHED_DATAFRAME" == some "True") := by
  rcases h with h | h | h <;> simp [Generated.envKeep, EnvB.eval, envGet, h]

theorem env_depth_var : Generated.envDepthVar = some "PANDERA_VALIDATION_DEPTH" := by decide

/-! ### validation disabled -/

/-- the public `validate`: short-circuits when validation is disabled -/
def validateEntry (T : ScopeTable) (ctx : Cfg) (S : Schema) (D : Frame) : Frame × List Err :=
  if !ctx.enabled then (D, []) else (D, frameErrors T (pandasDepth ctx) S D)

/-- **C18 (c)** with validation disabled `validate` returns its argument and raises nothing -/
theorem disabled_is_identity (T : ScopeTable) (ctx : Cfg) (S : Schema) (D : Frame)
    (h : ctx.enabled = false) : validateEntry T ctx S D = (D, []) := by
  simp [validateEntry, h]

/-! ### depth -/

/-- the documented scope of every core check -/
def docScopes : ScopeTable :=
  { colNamesUnique := some .schema, colPresence := some .schema, jointUnique := some .data,
    frameChecks := some .data, fieldName := some .schema, fieldNullable := some .schema,
    fieldUnique := some .data, fieldDtype := some .schema, fieldChecks := some .data,
    columnChecks := some .data }

/-- per-run obligation: the decorators found in the source are the documented ones -/
theorem generated_scopes_are_documented :
    Generated.scopeExtractionComplete = true ∧ Generated.generatedScopes = docScopes := by decide

/-- the reason-code map files every error under the scope of the check that produces it -/
theorem reason_scopes_consistent :
    Generated.reasonScope .columnNotInDataframe = docScopes.colPresence
    ∧ Generated.reasonScope .duplicates = docScopes.jointUnique
    ∧ Generated.reasonScope .wrongFieldName = docScopes.fieldName
    ∧ Generated.reasonScope .seriesContainsNulls = docScopes.fieldNullable
    ∧ Generated.reasonScope .seriesContainsDuplicates = docScopes.fieldUnique
    ∧ Generated.reasonScope .wrongDatatype = docScopes.fieldDtype
    ∧ Generated.reasonScope .dataframeCheck = docScopes.columnChecks
    ∧ Generated.reasonScope .checkError = docScopes.fieldChecks
    ∧ Generated.reasonScope .columnNotInSchema = some .schema
    ∧ Generated.reasonScope .columnNotOrdered = some .schema := by decide

/-- **C18 (d)** full-depth validation accepts exactly when both restricted validations accept —
for every scope table, schema and frame -/
theorem depth_decomposes (T : ScopeTable) (S : Schema) (D : Frame) :
    accepts T .schemaAndData S D = true ↔
      (accepts T .schemaOnly S D = true ∧ accepts T .dataOnly S D = true) := by
  have := frameErrors_decomp T S D
  unfold Decomp at this
  simpa [accepts, List.isEmpty_iff] using this


theorem fieldErrors_schemaOnly (ctx : Ctx) (spec : ColSpec) (fn : Option String) (phys : DType)
    (vals : List Val) :
    fieldErrors docScopes .schemaOnly ctx spec fn phys vals =
      fieldErrors docScopes .schemaAndData ctx (ColSpec.schemaPart spec) fn phys vals := by
  unfold fieldErrors ColSpec.schemaPart
  cases ctx <;> simp [docScopes, optRuns, Scope.runs, checksSteps]

theorem targets_schemaPart (spec : ColSpec) (D : Frame) :
    targets (ColSpec.schemaPart spec) D = targets spec D := rfl

/-- **C18 (e)** under SCHEMA_ONLY the lazy error list — hence the verdict — is that of the schema
restricted to its schema-level constraints -/
theorem schemaOnly_is_schema_part (S : Schema) (D : Frame) :
    frameErrors docScopes .schemaOnly S D = frameErrors docScopes .schemaAndData (Schema.schemaPart S) D := by
  unfold frameErrors coreCheckErrors
  have h1 : strictOrderedErrors (Schema.schemaPart S) D = strictOrderedErrors S D := by
    unfold strictOrderedErrors expandedNames Schema.schemaPart
    simp [List.map_map, Function.comp_def, targets_schemaPart]
  have h2 : presenceErrors docScopes .schemaAndData (Schema.schemaPart S) D
      = presenceErrors docScopes .schemaOnly S D := by
    unfold presenceErrors absentNames Schema.schemaPart
    simp [docScopes, optRuns, Scope.runs, List.filterMap_map, Function.comp_def, ColSpec.schemaPart]
    congr 1
  have h3 : jointUniqueErrors docScopes .schemaOnly S D = [] := by
    simp [jointUniqueErrors, docScopes, optRuns, Scope.runs]
  have h3' : jointUniqueErrors docScopes .schemaAndData (Schema.schemaPart S) D = [] := by
    simp [jointUniqueErrors, Schema.schemaPart]
  have h4 : ∀ c, columnErrors docScopes .schemaOnly c D
      = columnErrors docScopes .schemaAndData (ColSpec.schemaPart c) D := by
    intro c
    unfold columnErrors
    rw [targets_schemaPart]
    have hr : (ColSpec.schemaPart c).regex = c.regex := rfl
    have hn : (ColSpec.schemaPart c).name = c.name := rfl
    have hq : (ColSpec.schemaPart c).required = c.required := rfl
    rw [hr, hn, hq]
    cases c.regex with
    | some p =>
      simp only
      cases targets c D with
      | nil => rfl
      | cons n ns =>
        simp only
        congr 1
    | none =>
      simp only
      cases c.name with
      | none => rfl
      | some n =>
        simp only
        cases D.col? n with
        | none => rfl
        | some col => exact fieldErrors_schemaOnly .column _ _ _ _
  have h5 : (S.columns.map (fun c => columnErrors docScopes .schemaOnly c D)).flatten
      = ((Schema.schemaPart S).columns.map (fun c => columnErrors docScopes .schemaAndData c D)).flatten := by
    simp only [Schema.schemaPart, List.map_map, Function.comp_def]
    congr 1
  have h6 : indexPartErrors docScopes .schemaOnly S D
      = indexPartErrors docScopes .schemaAndData (Schema.schemaPart S) D := by
    unfold indexPartErrors
    simp only [Schema.schemaPart]
    cases S.index with
    | none => rfl
    | some ix =>
      simp only [Option.map_some, indexErrors]
      cases D.index with
      | nil => rfl
      | cons l ls =>
        cases ls with
        | nil => simp only; rw [fieldErrors_schemaOnly]; rfl
        | cons _ _ => rfl
  rw [h1, h2, h3, h3', h5, h6]


/-- recorded finding `K_C18_dataOnlySchemaErrors`: two schema-level errors are raised outside the
scope mechanism (`strict_filter_columns` is a parser, an unmatched required regex column raises
inside `Column.validate`), so they still fail validation under DATA_ONLY -/
def K_C18_dataOnlySchemaErrors (S : Schema) (D : Frame) : Prop :=
  strictOrderedErrors S D ≠ [] ∨ ∃ c ∈ S.columns, c.regex ≠ none ∧ c.required = true ∧ targets c D = []

theorem fieldErrors_dataOnly (ctx : Ctx) (spec spec' : ColSpec) (fn : Option String) (phys : DType)
    (vals : List Val) (hu : spec'.unique = spec.unique) (hr : spec'.reportDup = spec.reportDup)
    (hc : spec'.checks = spec.checks) (hn : spec'.nullable = true) (hd : spec'.dtype = none)
    (hname : spec'.name = none ∨ spec'.name = fn) :
    fieldErrors docScopes .dataOnly ctx spec fn phys vals =
      fieldErrors docScopes .schemaAndData ctx spec' fn phys vals := by
  unfold fieldErrors
  have hnm : (spec'.name.isNone || spec'.name == fn) = true := by
    rcases hname with h | h <;> simp [h]
  cases hds : spec.dtype <;> cases ctx <;>
    simp [docScopes, optRuns, Scope.runs, hu, hr, hc, hn, hd, hnm, dtypeErrs]

/-- **C18 (e')** under DATA_ONLY the verdict is that of the schema restricted to its data-level
constraints — outside the recorded region -/
theorem dataOnly_is_data_part_partial (S : Schema) (D : Frame) (hK : ¬ K_C18_dataOnlySchemaErrors S D) :
    accepts docScopes .dataOnly S D = accepts docScopes .schemaAndData (Schema.dataPart S) D := by
  unfold K_C18_dataOnlySchemaErrors at hK
  simp only [ne_eq, not_or, Decidable.not_not, not_exists, not_and] at hK
  obtain ⟨hso, hre⟩ := hK
  unfold accepts frameErrors coreCheckErrors
  have h1 : strictOrderedErrors (Schema.dataPart S) D = [] := by
    simp [strictOrderedErrors, Schema.dataPart]
  have h2 : presenceErrors docScopes .dataOnly S D = [] := by
    simp [presenceErrors, docScopes, optRuns, Scope.runs]
  have h2' : presenceErrors docScopes .schemaAndData (Schema.dataPart S) D = [] := by
    unfold presenceErrors absentNames Schema.dataPart
    simp only [optRuns_sad', ↓reduceIte, List.map_eq_nil_iff, List.filterMap_eq_nil_iff, List.mem_map,
      forall_exists_index, and_imp]
    intro c x _ hx
    subst hx
    simp only [ColSpec.dataPart]
    split <;> simp
  have h3 : jointUniqueErrors docScopes .schemaAndData (Schema.dataPart S) D
      = jointUniqueErrors docScopes .dataOnly S D := by
    simp [jointUniqueErrors, Schema.dataPart, docScopes, optRuns, Scope.runs]
  have h4 : ∀ c ∈ S.columns, columnErrors docScopes .dataOnly c D
      = columnErrors docScopes .schemaAndData (ColSpec.dataPart c) D := by
    intro c hc
    unfold columnErrors
    have ht : targets (ColSpec.dataPart c) D = targets c D := rfl
    have hr : (ColSpec.dataPart c).regex = c.regex := rfl
    have hn : (ColSpec.dataPart c).name = c.name := rfl
    rw [ht, hr, hn]
    cases hreg : c.regex with
    | some p =>
      simp only
      cases htg : targets c D with
      | nil =>
        simp only [ColSpec.dataPart]
        by_cases hq : c.required = true
        · exact absurd htg (hre c hc (by simp [hreg]) hq)
        · simp [hq]
      | cons n ns =>
        simp only
        congr 1
        apply List.map_congr_left
        intro m _
        cases D.col? m with
        | none => rfl
        | some col =>
          exact fieldErrors_dataOnly _ _ _ _ _ _ rfl rfl rfl rfl rfl (Or.inr rfl)
    | none =>
      simp only
      cases hnm : c.name with
      | none => rfl
      | some n =>
        simp only
        cases D.col? n with
        | none => rfl
        | some col =>
          exact fieldErrors_dataOnly _ _ _ _ _ _ rfl rfl rfl rfl rfl (Or.inr hnm)
  have h5 : (S.columns.map (fun c => columnErrors docScopes .dataOnly c D)).flatten
      = ((Schema.dataPart S).columns.map (fun c => columnErrors docScopes .schemaAndData c D)).flatten := by
    simp only [Schema.dataPart, List.map_map, Function.comp_def]
    congr 1
    apply List.map_congr_left
    intro c hc
    exact h4 c hc
  have h6 : (indexPartErrors docScopes .dataOnly S D).isEmpty
      = (indexPartErrors docScopes .schemaAndData (Schema.dataPart S) D).isEmpty := by
    unfold indexPartErrors
    simp only [Schema.dataPart]
    cases S.index with
    | none => rfl
    | some ix =>
      simp only [Option.map_some, indexErrors]
      cases D.index with
      | nil => rfl
      | cons l ls =>
        cases ls with
        | nil =>
          simp only
          rw [fieldErrors_dataOnly .index ix { ColSpec.dataPart ix with name := none } l.name l.dtype l.vals
            rfl rfl rfl rfl rfl (Or.inl rfl)]
          simp [relabel]
        | cons _ _ => rfl
  rw [hso, h1, h2, h2', h3, h5]
  simp only [List.nil_append]
  have happ : ∀ (a b c : List Err), b.isEmpty = c.isEmpty → (a ++ b).isEmpty = (a ++ c).isEmpty := by
    intro a b c h
    cases a with
    | nil => simpa using h
    | cons x xs => rfl
  exact happ _ _ _ h6

/-- the recorded region is inhabited and the full statement fails there: an extra column under
`strict=True` is rejected at DATA_ONLY although the data-level restriction accepts -/
theorem K_C18_dataOnlySchemaErrors_witness :
    ∃ (S : Schema) (D : Frame), K_C18_dataOnlySchemaErrors S D ∧
      accepts docScopes .dataOnly S D ≠ accepts docScopes .schemaAndData (Schema.dataPart S) D :=
  ⟨{ columns := [], strict := .yes },
   { cols := [⟨"a", .int64, [.int 1]⟩], index := [⟨none, .int64, [.int 0]⟩], nrows := 1 },
   Or.inl (by decide), by decide⟩

/-! ### polars default depth -/

/-- **C18 (f)** with no depth configured a polars LazyFrame is validated at schema level only and a
DataFrame at full depth; an explicit context or global setting wins -/
theorem polars_default_depth (isLazy : Bool) (ctx glob : Cfg) (h1 : ctx.depth = none) (h2 : glob.depth = none) :
    polarsDepth isLazy ctx glob = if isLazy then .schemaOnly else .schemaAndData := by
  simp [polarsDepth, h1, h2]

theorem polars_context_depth_wins (isLazy : Bool) (ctx glob : Cfg) (d : Depth) (h : ctx.depth = some d) :
    polarsDepth isLazy ctx glob = d := by
  simp [polarsDepth, h]

theorem polars_global_depth (isLazy : Bool) (ctx glob : Cfg) (d : Depth) (h1 : ctx.depth = none)
    (h : glob.depth = some d) : polarsDepth isLazy ctx glob = d := by
  simp [polarsDepth, h, h1]

end C18
end Pandera

import PanderaModel.Alias
import PanderaModel.Generated.AliasSkeletons
/-!
# C04 — validation never modifies the caller's data unless inplace=True
-/
namespace Pandera
namespace C04
open Alias Generated

/-- **C04 (ownership).** Every execution of a program accepted by the ownership analysis leaves
every object that existed when the call started — in particular the caller's argument — exactly
as it was, on every path (branches, loops, handlers) -/
theorem caller_untouched {p : AStmt} (h : isSafe p = true) {s s' : St} (hex : Exec p s s') :
    ∀ r, r < s.next → s'.heap r = s.heap r := isSafe_sound h hex

/-- per-run obligations: the `inplace=False` programs of the pandas validate entry points, as
translated from the source now, are accepted -/
theorem dataframe_validate_safe : isSafe alias_dataFrameValidate = true := by decide
theorem array_validate_safe : isSafe alias_arrayValidate = true := by decide
theorem column_validate_safe : isSafe alias_columnValidate = true := by decide
theorem index_validate_safe : isSafe alias_indexValidate = true := by decide
theorem multiindex_validate_safe : isSafe alias_multiIndexValidate = true := by decide
theorem series_schema_validate_safe : isSafe alias_seriesSchemaValidate = true := by decide

/-- hence, for the code as it is now: `DataFrameSchema.validate(df)` (and likewise the other entry
points) with `inplace=False` never writes to an object that existed before the call -/
theorem dataframe_validate_caller_untouched {s s' : St} (hex : Exec alias_dataFrameValidate s s') :
    ∀ r, r < s.next → s'.heap r = s.heap r := caller_untouched dataframe_validate_safe hex

theorem series_schema_validate_caller_untouched {s s' : St} (hex : Exec alias_seriesSchemaValidate s s') :
    ∀ r, r < s.next → s'.heap r = s.heap r := caller_untouched series_schema_validate_safe hex

theorem index_validate_caller_untouched {s s' : St} (hex : Exec alias_indexValidate s s') :
    ∀ r, r < s.next → s'.heap r = s.heap r := caller_untouched index_validate_safe hex

/-- the analyser rejects the shape `IndexBackend.validate` had before the repair (a write through
the parameter with no copy before it), and that shape does have an execution that changes the
caller's object — so the obligations above are not vacuous -/
example : isSafe (.seq (.choice (.mutate 0) .skip) .skip) = false := by decide

example : ∃ s s', Exec (.mutate 0) s s' ∧ s.env 0 < s.next ∧ s'.heap (s.env 0) ≠ s.heap (s.env 0) :=
  ⟨⟨fun _ => 0, fun _ => 0, 1⟩, ⟨fun _ => 0, updF (fun _ => 0) 0 1, 1⟩, .mutate 0 _ 1, by decide, by simp [updF]⟩

/-! ### container kind -/

inductive Kind | pdDataFrame | pdSeries | plDataFrame | plLazyFrame
  deriving Repr, DecidableEq

inductive Entry | dataFrameSchema | seriesSchema | column | index | multiIndex | plDataFrameSchema | plColumn
  deriving Repr, DecidableEq

/-- kind of the object each entry point hands back, as the code converts (polars: DataFrame →
LazyFrame for validation → `collect()` when the input was a DataFrame) -/
def resultKind (e : Entry) (k : Kind) : Kind :=
  match e, k with
  | .plDataFrameSchema, .plDataFrame => .plDataFrame     -- lazy() … collect()
  | .plColumn, .plDataFrame => .plDataFrame
  | _, k => k

theorem kind_preserved (e : Entry) (k : Kind) : resultKind e k = k := by
  cases e <;> cases k <;> rfl

end C04
end Pandera

import PanderaModel.Alias
import PanderaModel.Generated.AliasSkeletons
import PanderaModel.Kind
import PanderaModel.Generated.KindPrograms
/-!
# C04 — validation never modifies the caller's data unless inplace=True
-/
namespace Pandera
namespace C04
open Alias Generated

/-- **C04 (ownership).** Every execution of a program accepted by the ownership analysis leaves
every object that existed when the call started — in particular the caller's argument — exactly
as it was, on every path (branches, loops, handlers) -/
theorem caller_untouched {p : AStmt} (h : isSafe p = true) {s s' : St} (hex : Exec p s s') :
    ∀ r, r < s.next → s'.heap r = s.heap r := isSafe_sound h hex

/-- per-run obligations: the `inplace=False` programs of the pandas validate entry points, as
translated from the source now, are accepted -/
theorem dataframe_validate_safe : isSafe alias_dataFrameValidate = true := by decide
theorem array_validate_safe : isSafe alias_arrayValidate = true := by decide
theorem column_validate_safe : isSafe alias_columnValidate = true := by decide
theorem index_validate_safe : isSafe alias_indexValidate = true := by decide
theorem multiindex_validate_safe : isSafe alias_multiIndexValidate = true := by decide
theorem series_schema_validate_safe : isSafe alias_seriesSchemaValidate = true := by decide

/-- hence, for the code as it is now: `DataFrameSchema.validate(df)` (and likewise the other entry
points) with `inplace=False` never writes to an object that existed before the call -/
theorem dataframe_validate_caller_untouched {s s' : St} (hex : Exec alias_dataFrameValidate s s') :
    ∀ r, r < s.next → s'.heap r = s.heap r := caller_untouched dataframe_validate_safe hex

theorem series_schema_validate_caller_untouched {s s' : St} (hex : Exec alias_seriesSchemaValidate s s') :
    ∀ r, r < s.next → s'.heap r = s.heap r := caller_untouched series_schema_validate_safe hex

theorem index_validate_caller_untouched {s s' : St} (hex : Exec alias_indexValidate s s') :
    ∀ r, r < s.next → s'.heap r = s.heap r := caller_untouched index_validate_safe hex

theorem array_validate_caller_untouched {s s' : St} (hex : Exec alias_arrayValidate s s') :
    ∀ r, r < s.next → s'.heap r = s.heap r := caller_untouched array_validate_safe hex

theorem column_validate_caller_untouched {s s' : St} (hex : Exec alias_columnValidate s s') :
    ∀ r, r < s.next → s'.heap r = s.heap r := caller_untouched column_validate_safe hex

theorem multiindex_validate_caller_untouched {s s' : St} (hex : Exec alias_multiIndexValidate s s') :
    ∀ r, r < s.next → s'.heap r = s.heap r := caller_untouched multiindex_validate_safe hex

/-- the `inplace=False` entry points of the pandas API, as translated from the source on this run -/
def entryPoints : List AStmt :=
  [alias_dataFrameValidate, alias_arrayValidate, alias_columnValidate, alias_indexValidate,
   alias_multiIndexValidate, alias_seriesSchemaValidate]

theorem entry_points_safe : ∀ p ∈ entryPoints, isSafe p = true := by
  intro p hp
  simp only [entryPoints, List.mem_cons, List.mem_nil_iff, or_false] at hp
  rcases hp with rfl | rfl | rfl | rfl | rfl | rfl
  · exact dataframe_validate_safe
  · exact array_validate_safe
  · exact column_validate_safe
  · exact index_validate_safe
  · exact multiindex_validate_safe
  · exact series_schema_validate_safe

/-- **C04 (every history).** After any sequence of validate calls — any entry points, any number, any
order, each started from an arbitrary binding of variables to the objects that exist (the same frame
validated twice, a frame and one of its columns, …) — every object that existed before the first call
is exactly as it was -/
theorem any_history_of_validate_calls_caller_untouched {ps : List AStmt} (hps : ∀ p ∈ ps, p ∈ entryPoints)
    {s s' : St} (hh : Hist ps s s') : ∀ r, r < s.next → s'.heap r = s.heap r :=
  (hist_untouched hh (fun p hp => entry_points_safe p (hps p hp))).2

/-- an entry point may also be iterated inside one call (a caller's loop): still accepted -/
theorem iterated_validate_safe : ∀ p ∈ entryPoints, isSafe (.loop p) = true :=
  fun p hp => isSafe_loop (entry_points_safe p hp)

/-- any program that starts by writing through a parameter is rejected, whatever follows -/
theorem write_through_parameter_rejected (v : Nat) (rest : AStmt) :
    isSafe (.seq (.mutate v) rest) = false := mutate_param_rejected v rest

/-- the history theorem is not vacuous: a two-call history of the translated `DataFrameSchema.validate`
program shape exists for a simple accepted program -/
example : ∃ s', Hist [.copy 0, .seq (.copy 0) (.mutate 0)] ⟨fun _ => 0, fun _ => 7, 1⟩ s' :=
  ⟨_, .cons (fun _ => 0) (.copy 0 _) (.cons (fun _ => 0) (.seq (.copy 0 _) (.mutate 0 _ 9)) (.nil _))⟩

/-- the analyser rejects the shape `IndexBackend.validate` had before the repair (a write through
the parameter with no copy before it), and that shape does have an execution that changes the
caller's object — so the obligations above are not vacuous -/
example : isSafe (.seq (.choice (.mutate 0) .skip) .skip) = false := by decide

example : ∃ s s', Exec (.mutate 0) s s' ∧ s.env 0 < s.next ∧ s'.heap (s.env 0) ≠ s.heap (s.env 0) :=
  ⟨⟨fun _ => 0, fun _ => 0, 1⟩, ⟨fun _ => 0, updF (fun _ => 0) 0 1, 1⟩, .mutate 0 _ 1, by decide, by simp [updF]⟩

/-! ### container kind, on the entry points as translated from the source now -/

open KindM in
/-- per-run obligations: the polars entry points (`DataFrameSchema.validate`, `Column.validate`), as
translated on this run, hand back the kind they were given — DataFrame and LazyFrame, validation
enabled and disabled — and hand the backend a LazyFrame only -/
theorem polars_entry_points_preserve_kind :
    preservesKind kind_polarsContainerValidate = true ∧ preservesKind kind_polarsColumnValidate = true
    ∧ backendSeesLazy kind_polarsContainerValidate = true ∧ backendSeesLazy kind_polarsColumnValidate = true := by
  decide

open KindM in
/-- **C04 (kind)** `kind(validate(S, D)) == kind(D)` for the polars entry points, every input kind, validation
switched on or off -/
theorem polars_validate_kind (enabled : Bool) (k : K) :
    call kind_polarsContainerValidate enabled k = some k ∧ call kind_polarsColumnValidate enabled k = some k :=
  ⟨preservesKind_sound _ polars_entry_points_preserve_kind.1 enabled k,
   preservesKind_sound _ polars_entry_points_preserve_kind.2.1 enabled k⟩

open KindM in
/-- non-vacuity: forgetting to collect, collecting unconditionally, or testing the kind *after* the conversion
are all rejected -/
example :
    preservesKind (.seq (.setFlag 0) (.seq (.ifFlag (.lazy 0 0) .skip) (.seq (.backend 1 0) (.ret 1)))) = false
    ∧ preservesKind (.seq (.setFlag 0) (.seq (.ifFlag (.lazy 0 0) .skip) (.seq (.backend 1 0) (.seq (.collect 1 1) (.ret 1))))) = false
    ∧ preservesKind (.seq (.lazy 0 0) (.seq (.setFlag 0) (.seq (.backend 1 0) (.seq (.ifFlag (.collect 1 1) .skip) (.ret 1))))) = false := by
  decide

/-! ### container kind (summary table of all entry points) -/

inductive Kind | pdDataFrame | pdSeries | plDataFrame | plLazyFrame
  deriving Repr, DecidableEq

inductive Entry | dataFrameSchema | seriesSchema | column | index | multiIndex | plDataFrameSchema | plColumn
  deriving Repr, DecidableEq

/-- kind of the object each entry point hands back, as the code converts (polars: DataFrame →
LazyFrame for validation → `collect()` when the input was a DataFrame) -/
def resultKind (e : Entry) (k : Kind) : Kind :=
  match e, k with
  | .plDataFrameSchema, .plDataFrame => .plDataFrame     -- lazy() … collect()
  | .plColumn, .plDataFrame => .plDataFrame
  | _, k => k

theorem kind_preserved (e : Entry) (k : Kind) : resultKind e k = k := by
  cases e <;> cases k <;> rfl

end C04
end Pandera

import PanderaModel.Parse
import PanderaModel.Polars
/-!
# C03 — whatever validate returns conforms to the schema (parse postcondition)
-/
namespace Pandera
namespace C03

/-- the same schema with every parsing option switched off -/
def ColSpec.strip (s : ColSpec) : ColSpec := { s with coerce := false, default := none }

def Schema.strip (S : Schema) : Schema :=
  { S with columns := S.columns.map ColSpec.strip, index := S.index.map ColSpec.strip,
           strict := if S.strict == .filter then .no else S.strict,
           coerce := false, addMissing := false, dropInvalid := false }

theorem fieldErrors_strip (T : ScopeTable) (d : Depth) (ctx : Ctx) (spec : ColSpec) (fn : Option String)
    (phys : DType) (vals : List Val) :
    fieldErrors T d ctx (ColSpec.strip spec) fn phys vals = fieldErrors T d ctx spec fn phys vals := rfl

theorem targets_strip (spec : ColSpec) (D : Frame) : targets (ColSpec.strip spec) D = targets spec D := rfl

/-- the core checks never look at a parsing option -/
theorem checks_ignore_parsing_options (T : ScopeTable) (d : Depth) (S : Schema) (X : Frame) :
    frameErrors T d (Schema.strip S) X = frameErrors T d S X := by
  unfold frameErrors coreCheckErrors
  have h0 : expandedNames (Schema.strip S) X = expandedNames S X := by
    unfold expandedNames Schema.strip
    simp [List.map_map, Function.comp_def, targets_strip]
  have h1 : strictOrderedErrors (Schema.strip S) X = strictOrderedErrors S X := by
    unfold strictOrderedErrors
    rw [h0]
    cases hs : S.strict <;> simp [Schema.strip, hs] <;> rfl
  have h2 : presenceErrors T d (Schema.strip S) X = presenceErrors T d S X := by
    unfold presenceErrors absentNames Schema.strip
    simp only [List.filterMap_map, Function.comp_def]
    rfl
  have h3 : jointUniqueErrors T d (Schema.strip S) X = jointUniqueErrors T d S X := rfl
  have h4 : (Schema.strip S).columns.map (fun c => columnErrors T d c X)
      = S.columns.map (fun c => columnErrors T d c X) := by
    simp only [Schema.strip, List.map_map, Function.comp_def]
    apply List.map_congr_left
    intro c _
    rfl
  have h5 : indexPartErrors T d (Schema.strip S) X = indexPartErrors T d S X := by
    unfold indexPartErrors
    simp only [Schema.strip]
    cases S.index <;> rfl
  rw [h1, h2, h3, h4, h5]

/-- recorded finding `K_C03_staleColumnInfo`: the strict / ordered test looks at the labels of the
*input* frame (column information is collected before `add_missing_columns` runs), so when columns
are added the result is not re-tested and may violate `ordered` / `strict` -/
def K_C03_staleColumnInfo (S : Schema) (D P : Frame) : Prop :=
  strictOrderedErrors S P ≠ strictOrderedErrors S D

/-- **C03 (a)** whatever the lazy run returns without dropping rows satisfies every core check of the
schema with all parsing options switched off (at any depth, for any scope table) … -/
theorem validate_ok_core_checks (T : ScopeTable) (d : Depth) (S : Schema) (D D' : Frame)
    (hdrop : S.dropInvalid = false) (h : validateLazy T d S D = .ok D') :
    coreCheckErrors T d (Schema.strip S) D' = [] ∧ strictOrderedErrors S D = [] := by
  have hc : coreCheckErrors T d (Schema.strip S) D' = coreCheckErrors T d S D' := by
    have := checks_ignore_parsing_options T d S D'
    unfold frameErrors at this
    have h1 : strictOrderedErrors (Schema.strip S) D' = strictOrderedErrors S D' := by
      have h0 : expandedNames (Schema.strip S) D' = expandedNames S D' := by
        unfold expandedNames Schema.strip
        simp [List.map_map, Function.comp_def, targets_strip]
      unfold strictOrderedErrors
      rw [h0]
      cases hs : S.strict <;> simp [Schema.strip, hs] <;> rfl
    rw [h1] at this
    exact List.append_cancel_left this
  rw [hc]
  unfold validateLazy at h
  split at h
  · cases h
  · rename_i P pe _
    simp only [hdrop, Bool.false_eq_true, ↓reduceIte] at h
    split at h
    · rename_i he
      simp only [ValidateOut.ok.injEq] at h
      subst h
      simp only [List.isEmpty_iff, List.append_eq_nil_iff] at he
      exact ⟨he.2, he.1.2⟩
    · cases h

/-- … and, outside the recorded region, the whole stripped schema (strict / ordered included) -/
theorem validate_ok_conforms_partial (T : ScopeTable) (d : Depth) (S : Schema) (D D' : Frame)
    (hdrop : S.dropInvalid = false) (h : validateLazy T d S D = .ok D')
    (hK : ¬ K_C03_staleColumnInfo S D D') :
    frameErrors T d (Schema.strip S) D' = [] := by
  rw [checks_ignore_parsing_options]
  have hc := validate_ok_core_checks T d S D D' hdrop h
  have hcc : coreCheckErrors T d S D' = [] := by
    have := checks_ignore_parsing_options T d S D'
    unfold frameErrors at this
    have h1 : strictOrderedErrors (Schema.strip S) D' = strictOrderedErrors S D' := by
      have h0 : expandedNames (Schema.strip S) D' = expandedNames S D' := by
        unfold expandedNames Schema.strip
        simp [List.map_map, Function.comp_def, targets_strip]
      unfold strictOrderedErrors
      rw [h0]
      cases hs : S.strict <;> simp [Schema.strip, hs] <;> rfl
    rw [h1] at this
    rw [← List.append_cancel_left this]; exact hc.1
  unfold K_C03_staleColumnInfo at hK
  simp only [ne_eq, Decidable.not_not] at hK
  unfold frameErrors
  rw [hK, hc.2, hcc]; rfl

/-- the recorded region is inhabited: with `add_missing_columns` and `ordered=True` a column is
inserted after one that the schema lists later; the result is returned although it is out of order -/
theorem K_C03_staleColumnInfo_witness :
    ∃ (S : Schema) (D D' : Frame),
      validateLazy ⟨none, none, none, none, none, none, none, none, none, none⟩ .schemaAndData S D = .ok D'
      ∧ frameErrors ⟨none, none, none, none, none, none, none, none, none, none⟩ .schemaAndData
          (Schema.strip S) D' ≠ [] :=
  ⟨{ columns := [{ name := some "b.*", regex := some (.seq (.chr 'b') (.star .any)), required := false },
                 { name := some "a", dtype := some .int64, default := some (.int 1) }],
     ordered := true, addMissing := true },
   { cols := [⟨"b", .int64, [.int 5]⟩], index := [⟨none, .int64, [.int 0]⟩], nrows := 1 },
   { cols := [⟨"a", .int64, [.int 1]⟩, ⟨"b", .int64, [.int 5]⟩], index := [⟨none, .int64, [.int 0]⟩], nrows := 1 },
   by decide, by decide⟩

/-- `strict='filter'` leaves no undeclared column behind -/
theorem filter_keeps_only_declared (S : Schema) (D : Frame) (h : S.strict = .filter) :
    ∀ c ∈ (strictFilterStep S D).cols, (expandedNames S D).contains c.name = true := by
  intro c hc
  unfold strictFilterStep at hc
  simp only [h, beq_self_eq_true, ↓reduceIte, List.mem_filter] at hc
  exact hc.2

/-! ### the built-in parsers are idempotent and leave conforming data alone -/

theorem coerceValue_idem (t : DType) (v w : Val) (h : coerceValue t v = some w) :
    coerceValue t w = some w := by
  cases t <;> cases v <;> simp [coerceValue] at h <;> first
    | (subst h; rfl)
    | (obtain ⟨a, _, rfl⟩ := h; rfl)

/-- the result of a successful coercion passes the target dtype's own check -/
theorem coerceValue_fits (t : DType) (v w : Val) (h : coerceValue t v = some w) : valFits t w = true := by
  cases t <;> cases v <;> simp [coerceValue] at h <;> first
    | (subst h; rfl)
    | (obtain ⟨a, _, rfl⟩ := h; rfl)

/-- coercing a value that already has the target kind is the identity -/
theorem coerceValue_conforming (t : DType) (v : Val) (ht : coercibleTarget t = true)
    (h : valFits t v = true) : coerceValue t v = some v := by
  cases t <;> cases v <;> simp_all [coerceValue, valFits, Val.kind?, coercibleTarget]

theorem tryCoerce_ok_iff (t : DType) (vals ws : List Val) :
    tryCoerce t vals = .ok ws ↔
      (∀ v ∈ vals, (coerceValue t v).isSome) ∧ ws = vals.map (fun v => (coerceValue t v).getD .null) := by
  unfold tryCoerce
  simp only
  split
  · rename_i hb
    simp only [List.isEmpty_iff, List.filterMap_eq_nil_iff] at hb
    simp only [Except.ok.injEq]
    constructor
    · intro h
      refine ⟨fun v hv => ?_, h.symm⟩
      obtain ⟨i, hi, rfl⟩ := List.mem_iff_getElem.mp hv
      have := hb (vals[i], i) (by simp [List.mem_zipIdx_iff_getElem?])
      cases hc : coerceValue t vals[i] <;> simp_all
    · intro h; exact h.2.symm
  · rename_i hb
    simp only [reduceCtorEq, false_iff, not_and]
    intro hall
    exfalso
    apply hb
    simp only [List.isEmpty_iff, List.filterMap_eq_nil_iff]
    intro p hp
    have hm : p.1 ∈ vals := by
      have := List.mem_zipIdx_iff_getElem?.mp (by simpa using hp)
      exact List.mem_of_getElem? this
    have := hall p.1 hm
    cases hc : coerceValue t p.1 <;> simp_all

/-- **C03/C10** coercing twice equals coercing once -/
theorem tryCoerce_idem (t : DType) (vals ws : List Val) (h : tryCoerce t vals = .ok ws) :
    tryCoerce t ws = .ok ws := by
  rw [tryCoerce_ok_iff] at h ⊢
  obtain ⟨hall, rfl⟩ := h
  constructor
  · intro w hw
    obtain ⟨v, hv, rfl⟩ := List.mem_map.mp hw
    have := hall v hv
    cases hc : coerceValue t v with
    | none => simp [hc] at this
    | some w' => simp [coerceValue_idem t v w' hc]
  · rw [List.map_map]
    apply List.map_congr_left
    intro v hv
    have := hall v hv
    cases hc : coerceValue t v with
    | none => simp [hc] at this
    | some w' =>
      have h2 := coerceValue_idem t v w' hc
      simp only [Function.comp_apply, hc, Option.getD_some, h2]

/-- coercing an already conforming container is the identity -/
theorem tryCoerce_conforming (t : DType) (vals : List Val) (ht : coercibleTarget t = true)
    (h : ∀ v ∈ vals, valFits t v = true) : tryCoerce t vals = .ok vals := by
  rw [tryCoerce_ok_iff]
  constructor
  · intro v hv; simp [coerceValue_conforming t v ht (h v hv)]
  · symm
    have : vals.map (fun v => (coerceValue t v).getD .null) = vals.map id := by
      apply List.map_congr_left
      intro v hv
      simp [coerceValue_conforming t v ht (h v hv)]
    simpa using this

/-- the coerced container passes the dtype's own check -/
theorem tryCoerce_ok_fits (t : DType) (vals ws : List Val) (h : tryCoerce t vals = .ok ws) :
    ∀ w ∈ ws, valFits t w = true := by
  rw [tryCoerce_ok_iff] at h
  obtain ⟨hall, rfl⟩ := h
  intro w hw
  obtain ⟨v, hv, rfl⟩ := List.mem_map.mp hw
  have := hall v hv
  cases hc : coerceValue t v with
  | none => simp [hc] at this
  | some w' => simpa using coerceValue_fits t v w' hc

/-- a column that was coerced successfully is left unchanged by a second coercion -/
theorem coerceColumn_fixpoint (sp : ColSpec) (c c' : Column) (h : coerceColumn sp c = (c', [])) :
    coerceColumn sp c' = (c', []) := by
  unfold coerceColumn at h ⊢
  cases hd : sp.dtype with
  | none => simp only [hd] at h; simp_all
  | some t =>
    simp only [hd] at h ⊢
    by_cases hct : coercibleTarget t = true
    · simp only [hct, Bool.not_true, Bool.false_eq_true, ↓reduceIte] at h ⊢
      cases htc : tryCoerce t c.vals with
      | error bad => simp [htc] at h
      | ok vs =>
        simp only [htc, Prod.mk.injEq, and_true] at h
        subst h
        simp [tryCoerce_idem t c.vals vs htc]
    · simp only [hct, Bool.not_false, ↓reduceIte] at h ⊢

theorem fillna_idem (phys : DType) (d : Option Val) (vals : List Val) :
    fillna phys d (fillna phys d vals) = fillna phys d vals := by
  unfold fillna
  cases d with
  | none => rfl
  | some v =>
    by_cases hv : v.isNull = true
    · simp [hv]
    · simp only [hv, Bool.false_eq_true, ↓reduceIte, List.map_map]
      apply List.map_congr_left
      intro x _
      by_cases hx : x.isNull = true
      · have hc : (castFill phys v).isNull = false := by
          cases phys <;> cases v <;> simp_all [castFill, Val.isNull]
        simp [hx, hc]
      · simp [hx]

theorem strictFilter_idem (S : Schema) (D : Frame)
    (hexp : expandedNames S (strictFilterStep S D) = expandedNames S D) :
    strictFilterStep S (strictFilterStep S D) = strictFilterStep S D := by
  unfold strictFilterStep at hexp ⊢
  by_cases h : (S.strict == Strict.filter) = true
  · simp only [h, ↓reduceIte] at hexp ⊢
    rw [hexp]
    simp [List.filter_filter]
  · simp [h]

/-- non-vacuity: a coercing schema that returns a parsed frame -/
example :
    validateLazy ⟨none, none, none, none, none, none, none, none, none, none⟩ .schemaAndData
      { columns := [{ name := some "a", dtype := some .int64, coerce := true }] }
      { cols := [⟨"a", .str, [.str "1", .str "-2"]⟩], index := [⟨none, .int64, [.int 0, .int 1]⟩], nrows := 2 }
    = .ok { cols := [⟨"a", .int64, [.int 1, .int (-2)]⟩], index := [⟨none, .int64, [.int 0, .int 1]⟩], nrows := 2 } := by
  decide

/-! ## polars: the postcondition holds for every parser pipeline -/

/-- the polars container with **any** parser pipeline `parse` (add_missing_columns, strict='filter',
coercion, defaults — whatever they do, in whatever order): its errors, then the strict / ordered test
(made by a parser, on the labels of the *input* frame), then the core checks of `Polars.lean` on the
parsed frame -/
def validateLazyPl (parse : Schema → Frame → Frame × List Err) (S : Schema) (D : Frame) : ValidateOut :=
  let r := parse S D
  let es := r.2 ++ strictOrderedErrors S D ++ Polars.coreErrors S r.1
  if es.isEmpty then .ok r.1 else .errors es

/-- the polars core checks never look at a parsing option -/
theorem polars_checks_ignore_parsing_options (S : Schema) (X : Frame) :
    Polars.coreErrors (Schema.strip S) X = Polars.coreErrors S X := by
  unfold Polars.coreErrors
  have h2 : Polars.presenceErrors (Schema.strip S) X = Polars.presenceErrors S X := by
    unfold Polars.presenceErrors absentNames Schema.strip
    simp only [List.filterMap_map, Function.comp_def]
    rfl
  have h3 : Polars.jointUniqueErrors (Schema.strip S) X = Polars.jointUniqueErrors S X := rfl
  have h4 : (Schema.strip S).columns.map (fun c => Polars.columnErrors c X)
      = S.columns.map (fun c => Polars.columnErrors c X) := by
    simp only [Schema.strip, List.map_map, Function.comp_def]
    apply List.map_congr_left
    intro c _
    rfl
  rw [h2, h3, h4]

/-- **C03 for polars**: whatever the lazy run returns passes every core check of the schema with all
parsing options switched off — for every parser pipeline, so whatever the parsers' order or bugs -/
theorem polars_validate_ok_core_checks (parse : Schema → Frame → Frame × List Err) (S : Schema) (D D' : Frame)
    (h : validateLazyPl parse S D = .ok D') :
    Polars.coreErrors (Schema.strip S) D' = [] ∧ strictOrderedErrors S D = [] := by
  rw [polars_checks_ignore_parsing_options]
  unfold validateLazyPl at h
  simp only at h
  split at h
  · rename_i he
    simp only [ValidateOut.ok.injEq] at h
    subst h
    simp only [List.isEmpty_iff, List.append_eq_nil_iff] at he
    exact ⟨he.2, he.1.2⟩
  · cases h

/-- a parser that leaves the frame alone: validating a returned frame again returns it unchanged -/
theorem polars_validate_again (S : Schema) (D D' : Frame)
    (h : validateLazyPl (fun _ X => (X, [])) S D = .ok D') : validateLazyPl (fun _ X => (X, [])) S D' = .ok D' := by
  unfold validateLazyPl at h ⊢
  simp only at h ⊢
  split at h
  · simp only [ValidateOut.ok.injEq] at h
    subst h
    rename_i he
    simp only [List.isEmpty_iff, List.nil_append, List.append_eq_nil_iff] at he ⊢
    simp [he.1, he.2]
  · cases h

/-- the strict / ordered test is not repeated on the parsed frame: a parser that appends an inserted
column at the end yields a returned frame that violates `ordered` (the shape of the seeded change
C03-D; the pandas analogue is the recorded region `K_C03_staleColumnInfo`) -/
theorem polars_stale_order_witness :
    let S : Schema := { columns := [{ name := some "a", default := some (.int 0), dtype := some .int64 },
                                    { name := some "b", dtype := some .int64 }], ordered := true, addMissing := true }
    let D : Frame := { cols := [⟨"b", .int64, [.int 1]⟩], index := [⟨none, .int64, [.int 0]⟩], nrows := 1 }
    let appendMissing : Schema → Frame → Frame × List Err :=
      fun _ X => ({ X with cols := X.cols ++ [⟨"a", .int64, [.int 0]⟩] }, [])
    (∃ P, validateLazyPl appendMissing S D = .ok P ∧ strictOrderedErrors S P ≠ []) := by
  refine ⟨_, rfl, ?_⟩
  decide

end C03
end Pandera

import PanderaModel.Decorators
import PanderaModel.Generated.DecoratorBranches
/-!
# C17 — decorators gate the call on validation and are otherwise transparent

For every signature with distinct positional parameter names, every call that Python itself can
bind, every `validate` function and every way of designating / passing the argument:

* `located_*`: the object the decorator hands to `schema.validate` is the object Python binds to the
  designated parameter;
* `checkInput_*_spec`: the body runs iff that object is accepted, and then it is invoked with the
  same call in which exactly that argument is replaced by the parsed object;
* `replaced_*`: binding the new call gives the original binding with the designated parameter
  updated — every other parameter, `*args` and `**kwargs` receive what they would have received;
* `designation_independent_*`: equivalent designations give identical outcomes;
* `options_honoured`: the outcome depends only on `validate` *with* the decorator's options;
* `checkOutput_*`: the designated output is validated before it is returned, the returned container
  differs only at that place, and the asynchronous wrapper returns what the synchronous one does.

Per-run obligations tie the branch table (which `schema.validate` calls forward `*validate_args`,
what the coroutine wrapper returns) to the source.
-/
namespace Pandera.Deco
open Pandera.Generated.DecoratorBranches

def allFwd : Fwd := { intBranch := true, strKw := true, strPos := true, noneKw := true, nonePos := true }

/-! ## per-run obligations -/

/-- every branch of `check_input._wrapper` forwards head/tail/sample/random_state/lazy/inplace -/
theorem branches_forward_options : inputFwd = allFwd := by decide

/-- `check_output`: the coroutine wrapper returns what `validate` returns, like the synchronous one;
`schema.validate` receives the six options; `check_types` passes them too -/
theorem output_wrappers_ok : (asyncReturnsValidated && syncReturnsValidated && outputForwardsOptions
    && checkTypesForwardsOptions) = true := by decide

/-! ## list lemmas -/

theorem lookup_zip_nodup {ps : List String} {args : List Obj} {j : Nat} {p : String}
    (hn : ps.Nodup) (hp : ps[j]? = some p) : (ps.zip args).lookup p = args[j]? := by
  induction ps generalizing args j with
  | nil => simp at hp
  | cons a ps ih =>
    have hn' : a ∉ ps ∧ ps.Nodup := by simpa using hn
    cases args with
    | nil => simp [List.lookup]
    | cons x xs =>
      cases j with
      | zero =>
        simp at hp; subst hp
        simp [List.zip_cons_cons, List.lookup_cons]
      | succ j =>
        have hp' : ps[j]? = some p := by simpa using hp
        have hne : (p == a) = false := by
          have hm : p ∈ ps := List.mem_of_getElem? hp'
          have : p ≠ a := fun e => hn'.1 (e ▸ hm)
          simpa using this
        simp only [List.zip_cons_cons, List.lookup_cons, hne, List.getElem?_cons_succ]
        exact ih hn'.2 hp'

theorem lookup_append_left {α : Type} {d e : List (String × α)} {k : String} {v : α}
    (h : d.lookup k = some v) : (d ++ e).lookup k = some v := by
  induction d with
  | nil => cases h
  | cons p d ih =>
    obtain ⟨a, b⟩ := p
    rw [List.cons_append, List.lookup_cons] at *
    cases hk : k == a
    · rw [hk] at h; exact ih h
    · rw [hk] at h; exact h

theorem lookup_append_right {α : Type} {d e : List (String × α)} {k : String}
    (h : (d.map (·.1)).contains k = false) : (d ++ e).lookup k = e.lookup k := by
  induction d with
  | nil => rfl
  | cons p d ih =>
    obtain ⟨a, b⟩ := p
    have h1 : (k == a) = false ∧ (d.map (·.1)).contains k = false := by
      simpa [List.contains_cons, Bool.or_eq_false_iff] using h
    rw [List.cons_append, List.lookup_cons, h1.1]
    exact ih h1.2

theorem lookup_filter_pos {α : Type} {d : List (String × α)} {f : String → Bool} {k : String} (hk : f k = true) :
    (d.filter fun p => f p.1).lookup k = d.lookup k := by
  induction d with
  | nil => rfl
  | cons p d ih =>
    obtain ⟨a, b⟩ := p
    rw [List.filter_cons]
    by_cases ha : f a = true
    · simp only [ha, if_true, List.lookup_cons]
      cases k == a <;> simp [ih]
    · have hka : (k == a) = false := by
        have : k ≠ a := fun e => ha (e ▸ hk)
        simpa using this
      simp only [ha, Bool.false_eq_true, if_false, List.lookup_cons, hka]
      exact ih

theorem mem_of_lookup' {α : Type} {d : List (String × α)} {k : String} {v : α} (h : d.lookup k = some v) : (k, v) ∈ d := by
  induction d with
  | nil => cases h
  | cons p d ih =>
    obtain ⟨a, b⟩ := p
    rw [List.lookup_cons] at h
    cases hk : k == a
    · rw [hk] at h; exact List.mem_cons_of_mem _ (ih h)
    · rw [hk] at h
      have : k = a := by simpa using hk
      cases h; subst this; exact List.mem_cons_self

/-! ## what Python binds -/

/-- unpacking a successful `bind` -/
theorem bind_some {sig : List Param} {c : Call} {b : Bound} (h : bind sig c = some b) :
    b.named = (posNames sig).zip c.args ++ c.kwargs.filter (fun kv => known sig kv.1)
    ∧ b.star = c.args.drop (posNames sig).length
    ∧ b.starKw = c.kwargs.filter (fun kv => !known sig kv.1)
    ∧ c.kwargs.any (fun kv => (((posNames sig).zip c.args).map (·.1)).contains kv.1) = false := by
  unfold bind at h
  simp only at h
  split at h
  · rename_i hok
    cases h
    refine ⟨rfl, rfl, rfl, ?_⟩
    unfold bindOk at hok
    simp only [Bool.and_eq_true, Bool.not_eq_true'] at hok
    exact hok.1.1.2
  · cases h

/-- a parameter passed positionally at position `j` receives `args[j]` -/
theorem bound_of_pos {sig : List Param} {c : Call} {b : Bound} (h : bind sig c = some b)
    (hn : (posNames sig).Nodup) {j : Nat} {p : String} {o : Obj}
    (hp : (posNames sig)[j]? = some p) (ho : c.args[j]? = some o) : b.named.lookup p = some o := by
  obtain ⟨hnamed, _, _, _⟩ := bind_some h
  rw [hnamed]
  apply lookup_append_left
  rw [lookup_zip_nodup hn hp]; exact ho

/-- a declared parameter passed by keyword receives that keyword's value -/
theorem bound_of_kw {sig : List Param} {c : Call} {b : Bound} (h : bind sig c = some b)
    {s : String} {o : Obj} (hk : c.kwargs.lookup s = some o)
    (hknown : known sig s = true) :
    b.named.lookup s = some o := by
  obtain ⟨hnamed, _, _, hmult⟩ := bind_some h
  rw [hnamed]
  have hnot : ((((posNames sig).zip c.args).map (·.1)).contains s) = false := by
    cases hc : ((((posNames sig).zip c.args).map (·.1)).contains s) with
    | false => rfl
    | true =>
      have hmem : (s, o) ∈ c.kwargs := mem_of_lookup' hk
      have hany : c.kwargs.any (fun kv => (((posNames sig).zip c.args).map (·.1)).contains kv.1) = true :=
        List.any_eq_true.mpr ⟨(s, o), hmem, hc⟩
      rw [hmult] at hany; cases hany
  rw [lookup_append_right hnot, lookup_filter_pos (f := known sig) hknown]
  exact hk

/-! ## `check_input`: location, gating, replacement -/

/-- integer getter, argument passed positionally -/
theorem checkInput_idx_spec (sig : List Param) (v : Bool → Obj → Option Obj) (c : Call) (i : Nat) (o : Obj)
    (ho : c.args[if isMethod sig then i + 1 else i]? = some o) :
    checkInput allFwd sig (.idx i) v c =
      match v true o with
      | none => .schemaError
      | some o' => .call { c with args := c.args.set (if isMethod sig then i + 1 else i) o' } := by
  unfold checkInput gate
  simp only [allFwd, ho]
  cases v true o <;> rfl

/-- string getter, argument passed by keyword -/
theorem checkInput_name_kw_spec (sig : List Param) (v : Bool → Obj → Option Obj) (c : Call) (s : String) (o : Obj)
    (ho : c.kwargs.lookup s = some o) :
    checkInput allFwd sig (.name s) v c =
      match v true o with
      | none => .schemaError
      | some o' => .call { c with kwargs := setKw c.kwargs s o' } := by
  unfold checkInput gate
  simp only [allFwd, ho]
  cases v true o <;> rfl

theorem idxOf?_take {ps : List String} {n j : Nat} {p : String} (hn : ps.Nodup) (hp : ps[j]? = some p) (hj : j < n) :
    (ps.take n).idxOf? p = some j := by
  induction ps generalizing n j with
  | nil => simp at hp
  | cons a ps ih =>
    have hn' : a ∉ ps ∧ ps.Nodup := by simpa using hn
    cases n with
    | zero => omega
    | succ n =>
      cases j with
      | zero =>
        simp at hp; subst hp
        simp [List.take_succ_cons, List.idxOf?_cons]
      | succ j =>
        have hp' : ps[j]? = some p := by simpa using hp
        have hne : (a == p) = false := by
          have hm : p ∈ ps := List.mem_of_getElem? hp'
          have : a ≠ p := fun e => hn'.1 (e ▸ hm)
          simpa using this
        rw [List.take_succ_cons, List.idxOf?_cons, hne]
        simp only [Bool.false_eq_true, if_false]
        rw [ih hn'.2 hp' (by omega)]
        rfl

/-- string getter, argument passed positionally at position `j` -/
theorem checkInput_name_pos_spec (sig : List Param) (v : Bool → Obj → Option Obj) (c : Call) (s : String)
    (j : Nat) (o : Obj) (hn : (posNames sig).Nodup) (hp : (posNames sig)[j]? = some s)
    (hkw : c.kwargs.lookup s = none) (ho : c.args[j]? = some o) :
    checkInput allFwd sig (.name s) v c =
      match v true o with
      | none => .schemaError
      | some o' => .call { c with args := c.args.set j o' } := by
  have hj : j < c.args.length := by
    rcases Nat.lt_or_ge j c.args.length with h | h
    · exact h
    · rw [List.getElem?_eq_none h] at ho; cases ho
  unfold checkInput gate
  simp only [allFwd, hkw, idxOf?_take hn hp hj, ho]
  cases v true o <;> rfl

/-- default getter: the first parameter that is not self / cls, passed by keyword -/
theorem checkInput_none_kw_spec (sig : List Param) (v : Bool → Obj → Option Obj) (c : Call) (s : String)
    (rest : List String) (o : Obj) (hs : fnArgNames sig = s :: rest) (ho : c.kwargs.lookup s = some o) :
    checkInput allFwd sig .none v c =
      match v true o with
      | none => .schemaError
      | some o' => .call { c with kwargs := setKw c.kwargs s o' } := by
  unfold checkInput gate
  simp only [allFwd, hs, ho]
  cases v true o <;> rfl

theorem idxOf_of_getElem? {ps : List String} {j : Nat} {p : String} (hn : ps.Nodup) (hp : ps[j]? = some p) :
    ps.idxOf p = j := by
  induction ps generalizing j with
  | nil => simp at hp
  | cons a ps ih =>
    have hn' : a ∉ ps ∧ ps.Nodup := by simpa using hn
    cases j with
    | zero => simp at hp; subst hp; simp [List.idxOf_cons]
    | succ j =>
      have hp' : ps[j]? = some p := by simpa using hp
      have hne : (a == p) = false := by
        have hm : p ∈ ps := List.mem_of_getElem? hp'
        have : a ≠ p := fun e => hn'.1 (e ▸ hm)
        simpa using this
      rw [List.idxOf_cons, hne]
      simp only [cond_false]
      rw [ih hn'.2 hp']

theorem mem_take_of_getElem? {ps : List String} {n j : Nat} {p : String} (hp : ps[j]? = some p) (hj : j < n) :
    (ps.take n).contains p = true := by
  have : (ps.take n)[j]? = some p := by rw [List.getElem?_take]; simp [hj, hp]
  simpa using List.mem_of_getElem? this

/-- default getter, passed positionally -/
theorem checkInput_none_pos_spec (sig : List Param) (v : Bool → Obj → Option Obj) (c : Call) (s : String)
    (rest : List String) (j : Nat) (o : Obj) (hn : (posNames sig).Nodup) (hs : fnArgNames sig = s :: rest)
    (hp : (posNames sig)[j]? = some s) (hkw : c.kwargs.lookup s = none) (ho : c.args[j]? = some o) :
    checkInput allFwd sig .none v c =
      match v true o with
      | none => .schemaError
      | some o' => .call { c with args := c.args.set j o' } := by
  have hj : j < c.args.length := by
    rcases Nat.lt_or_ge j c.args.length with h | h
    · exact h
    · rw [List.getElem?_eq_none h] at ho; cases ho
  unfold checkInput gate
  simp only [allFwd, hs, hkw, mem_take_of_getElem? hp hj, if_true, idxOf_of_getElem? hn hp, ho]
  cases v true o <;> rfl

/-- the default getter designates position 0 of a function and position 1 of a method -/
theorem fnArgNames_position (sig : List Param) (s : String) (rest : List String) (hs : fnArgNames sig = s :: rest) :
    (posNames sig)[if isMethod sig then 1 else 0]? = some s := by
  unfold fnArgNames at hs
  split at hs
  · rename_i hm
    simp only [hm, if_true]
    cases hps : posNames sig with
    | nil => rw [hps] at hs; cases hs
    | cons a as =>
      rw [hps] at hs
      simp only [List.drop_succ_cons, List.drop_zero] at hs
      rw [hs]; rfl
  · rename_i hm
    simp only [hm, Bool.false_eq_true, if_false]
    rw [hs]; rfl

/-- **equivalent designations behave identically**: for an argument passed positionally, the default
getter, the integer getter 0 and the name of the first parameter give the same outcome -/
theorem designation_independent_pos (sig : List Param) (v : Bool → Obj → Option Obj) (c : Call) (s : String)
    (rest : List String) (o : Obj) (hn : (posNames sig).Nodup) (hs : fnArgNames sig = s :: rest)
    (hkw : c.kwargs.lookup s = none) (ho : c.args[if isMethod sig then 1 else 0]? = some o) :
    checkInput allFwd sig .none v c = checkInput allFwd sig (.idx 0) v c
    ∧ checkInput allFwd sig (.name s) v c = checkInput allFwd sig (.idx 0) v c := by
  have hp := fnArgNames_position sig s rest hs
  have ho' : c.args[if isMethod sig then 0 + 1 else 0]? = some o := by simpa using ho
  rw [checkInput_none_pos_spec sig v c s rest _ o hn hs hp hkw ho,
      checkInput_name_pos_spec sig v c s _ o hn hp hkw ho,
      checkInput_idx_spec sig v c 0 o ho']
  simp

/-- … and for an argument passed by keyword, the default getter and its name -/
theorem designation_independent_kw (sig : List Param) (v : Bool → Obj → Option Obj) (c : Call) (s : String)
    (rest : List String) (o : Obj) (hs : fnArgNames sig = s :: rest) (ho : c.kwargs.lookup s = some o) :
    checkInput allFwd sig .none v c = checkInput allFwd sig (.name s) v c := by
  rw [checkInput_none_kw_spec sig v c s rest o hs ho, checkInput_name_kw_spec sig v c s o ho]

/-- **the validated object is the one Python binds to the designated parameter** (positional) -/
theorem located_pos {sig : List Param} {c : Call} {b : Bound} (h : bind sig c = some b)
    (hn : (posNames sig).Nodup) {j : Nat} {p : String} {o : Obj}
    (hp : (posNames sig)[j]? = some p) (ho : c.args[j]? = some o) : b.named.lookup p = some o :=
  bound_of_pos h hn hp ho

/-- … (keyword) -/
theorem located_kw {sig : List Param} {c : Call} {b : Bound} (h : bind sig c = some b)
    {s : String} {o : Obj} (hk : c.kwargs.lookup s = some o)
    (hknown : known sig s = true) : b.named.lookup s = some o :=
  bound_of_kw h hk hknown

/-- **the body runs iff the designated input is accepted** (any getter / passing style: the
outcome is a `gate`) -/
theorem body_runs_iff (v : Bool → Obj → Option Obj) (o : Obj) (k : Obj → Call) :
    (∃ c', gate v true o (fun o' => .call (k o')) = .call c') ↔ (v true o).isSome = true := by
  unfold gate
  cases v true o with
  | none => simp
  | some o' => simp

/-- **options are honoured**: the outcome depends on `validate` only through its behaviour *with*
the decorator's options, in every branch -/
theorem options_honoured (sig : List Param) (g : Getter) (c : Call) (v v' : Bool → Obj → Option Obj)
    (h : ∀ o, v true o = v' true o) : checkInput allFwd sig g v c = checkInput allFwd sig g v' c := by
  have hg : ∀ o k, gate v true o k = gate v' true o k := by
    intro o k; unfold gate; rw [h o]
  unfold checkInput
  simp only [allFwd]
  cases g with
  | idx i => simp only; split <;> simp [hg]
  | name s =>
    simp only
    split
    · simp [hg]
    · split
      · rfl
      · split <;> simp [hg]
  | none =>
    simp only
    split
    · rfl
    · split
      · simp [hg]
      · split
        · split <;> simp [hg]
        · rfl

/-- a branch that does not forward the options is observable: the recorded defect of the integer
getter (`lazy=True` ignored) -/
theorem unforwarded_branch_witness :
    let F := { allFwd with intBranch := false }
    let v : Bool → Obj → Option Obj := fun fwd o => if fwd then some o else none
    checkInput F [⟨"df", .pos, false⟩] (.idx 0) v ⟨[7], []⟩ = .schemaError
    ∧ checkInput allFwd [⟨"df", .pos, false⟩] (.idx 0) v ⟨[7], []⟩ = .call ⟨[7], []⟩ := by
  decide

/-! ## replacement is transparent -/

/-- replacing a positional argument does not change what `*args` receives beyond that position,
nor which arguments are surplus -/
theorem drop_set_of_lt {args : List Obj} {j n : Nat} {o' : Obj} (h : j < n) :
    (args.set j o').drop n = args.drop n := by
  rw [List.drop_set]; simp [Nat.not_le.mpr h]

theorem map_fst_zip_set (ps : List String) (args : List Obj) (j : Nat) (o' : Obj) :
    (ps.zip (args.set j o')).map (·.1) = (ps.zip args).map (·.1) := by
  induction ps generalizing args j with
  | nil => simp
  | cons a ps ih =>
    cases args with
    | nil => simp
    | cons x xs =>
      cases j with
      | zero => simp
      | succ j => simp only [List.set_cons_succ, List.zip_cons_cons, List.map_cons, ih]

theorem lookup_none_iff_contains {α : Type} {d : List (String × α)} {k : String} :
    d.lookup k = none ↔ (d.map (·.1)).contains k = false := by
  induction d with
  | nil => simp
  | cons p d ih =>
    obtain ⟨a, b⟩ := p
    rw [List.lookup_cons, List.map_cons, List.contains_cons]
    cases hk : k == a <;> simp [ih]

theorem lookup_append_congr {α : Type} {d d' e : List (String × α)} {k : String}
    (hkeys : d.map (·.1) = d'.map (·.1)) (h : d.lookup k = d'.lookup k) :
    (d ++ e).lookup k = (d' ++ e).lookup k := by
  cases hd : d.lookup k with
  | some v => rw [lookup_append_left hd, lookup_append_left (h ▸ hd)]
  | none =>
    have h1 := lookup_none_iff_contains.mp hd
    have h2 : (d'.map (·.1)).contains k = false := hkeys ▸ h1
    rw [lookup_append_right h1, lookup_append_right h2]

theorem lookup_zip_set_ne {ps : List String} {args : List Obj} {j : Nat} {p q : String} {o' : Obj}
    (hn : ps.Nodup) (hp : ps[j]? = some p) (hq : q ≠ p) :
    (ps.zip (args.set j o')).lookup q = (ps.zip args).lookup q := by
  induction ps generalizing args j with
  | nil => simp
  | cons a ps ih =>
    have hn' : a ∉ ps ∧ ps.Nodup := by simpa using hn
    cases args with
    | nil => simp
    | cons x xs =>
      cases j with
      | zero =>
        have : a = p := by simpa using hp
        subst this
        have : (q == a) = false := by simpa using hq
        simp [List.zip_cons_cons, List.lookup_cons, this]
      | succ j =>
        have hp' : ps[j]? = some p := by simpa using hp
        simp only [List.set_cons_succ, List.zip_cons_cons, List.lookup_cons]
        cases q == a
        · exact ih hn'.2 hp'
        · rfl

/-- **what the body receives**: after replacing the argument at a positional parameter's position,
Python binds that parameter to the parsed object, the surplus positional arguments and the keyword
arguments are what they were, and every other parameter receives what it would have received -/
theorem replaced_pos {sig : List Param} {c : Call} {b : Bound} (h : bind sig c = some b)
    (hn : (posNames sig).Nodup) {j : Nat} {p : String} {o o' : Obj}
    (hp : (posNames sig)[j]? = some p) (ho : c.args[j]? = some o) :
    ∃ b', bind sig { c with args := c.args.set j o' } = some b'
      ∧ b'.named.lookup p = some o' ∧ b'.star = b.star ∧ b'.starKw = b.starKw
      ∧ ∀ q, q ≠ p → b'.named.lookup q = b.named.lookup q := by
  obtain ⟨hnamed, hstar, hskw, _⟩ := bind_some h
  have hjp : j < (posNames sig).length := by
    rcases Nat.lt_or_ge j (posNames sig).length with hlt | hge
    · exact hlt
    · rw [List.getElem?_eq_none hge] at hp; cases hp
  have hja : j < c.args.length := by
    rcases Nat.lt_or_ge j c.args.length with hlt | hge
    · exact hlt
    · rw [List.getElem?_eq_none hge] at ho; cases ho
  have hok : bindOk sig (((posNames sig).zip c.args).map (·.1)) (c.args.drop (posNames sig).length) c.kwargs = true := by
    unfold bind at h
    simp only at h
    split at h
    · assumption
    · cases h
  refine ⟨{ named := (posNames sig).zip (c.args.set j o') ++ c.kwargs.filter (fun kv => known sig kv.1),
            star := c.args.drop (posNames sig).length,
            starKw := c.kwargs.filter (fun kv => !known sig kv.1) }, ?_, ?_, ?_, ?_, ?_⟩
  · unfold bind
    simp only [map_fst_zip_set, drop_set_of_lt hjp, hok, if_true]
  · apply lookup_append_left
    rw [lookup_zip_nodup hn hp]
    simp [List.getElem?_set, hja]
  · exact hstar.symm
  · exact hskw.symm
  · intro q hq
    rw [hnamed]
    exact lookup_append_congr (map_fst_zip_set _ _ _ _) (lookup_zip_set_ne hn hp hq)

/-! ## `check_output` -/

/-- the designated output is validated before it reaches the caller: a rejected output never returns -/
theorem checkOutput_rejects (g : OGetter) (v : Obj → Option Obj) (out : Out) (rv : Bool)
    (h : ∀ o, v o = none) : ∀ r, checkOutput rv g v out ≠ .ret r := by
  intro r
  unfold checkOutput
  cases g <;> cases out <;> simp [h] <;> (split <;> simp)

/-- a returned single output is the parsed object -/
theorem checkOutput_single (v : Obj → Option Obj) (o o' : Obj) (h : v o = some o') :
    checkOutput true .none v (.single o) = .ret (.single o') := by
  simp [checkOutput, h]

/-- a returned sequence differs from the function's only at the designated position -/
theorem checkOutput_seq (v : Obj → Option Obj) (xs : List Obj) (i : Nat) (o o' : Obj)
    (hi : xs[i]? = some o) (h : v o = some o') :
    checkOutput true (.idx i) v (.seq xs) = .ret (.seq (xs.set i o')) := by
  simp [checkOutput, hi, h]

/-- a wrapper that validates but returns the original object (the recorded defect of the coroutine
wrapper) loses the parsed output -/
theorem async_defect_witness :
    checkOutput false .none (fun o => some (o + 1)) (.single 0) = .ret (.single 0)
    ∧ checkOutput true .none (fun o => some (o + 1)) (.single 0) = .ret (.single 1) := by decide

/-! ## non-vacuity -/

example : bind [⟨"self", .pos, false⟩, ⟨"df", .pos, false⟩, ⟨"z", .pos, true⟩] ⟨[100, 7], []⟩
    = some { named := [("self", 100), ("df", 7)], star := [], starKw := [] } := by decide

example : checkInput allFwd [⟨"self", .pos, false⟩, ⟨"df", .pos, false⟩, ⟨"z", .pos, true⟩] (.name "df")
    (fun _ o => some (o + 1)) ⟨[100, 7], []⟩ = .call ⟨[100, 8], []⟩ := by decide

example : checkInput allFwd [⟨"df", .pos, false⟩, ⟨"rest", .varArgs, false⟩] (.name "df")
    (fun _ o => some (o + 1)) ⟨[7, 1, 2], []⟩ = .call ⟨[8, 1, 2], []⟩ := by decide

end Pandera.Deco
